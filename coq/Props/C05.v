(* C05 — Reopening and maintenance operations preserve the database.
   Pinned statements only; proofs live in theories/Storage*.v (storage layer) and theories/FileWalProofs.v.

   FULL STATEMENT: after any history of queries, closing and reopening, optimizing, shrinking to fit, backing up,
   copying, renaming, or reopening the file with a different file-backed variant yields a database on which every
   query returns exactly the same result as before (ids, result order, properties, aliases, indexes).
   PROVED PART (storage layer, L1): on every reachable storage state (`tiles s rg`: the file is tiled by the
   regions rg) backup + open, drop + open of a committed file and optimize_storage preserve the map
   index |-> bytes of live records EXACTLY (optimize only drops the free regions), and the byte-level reopen of a
   cleanly closed file is the identity (C01 with an empty log).
   L2 (round 2, below): every storage-backed collection, for every history with reloads and maintenance.
   L3 (round 4, last section): the WHOLE database as a relation `stored_db` over the record map, assembled from the L2
   invariants; a stored database LOADS to itself (C05_db_reload), maintenance of the storage keeps it stored and the
   loaded database identical (C05_db_maintenance), and every order-independent read-only query returns the same
   result afterwards (C05_db_queries_after_reopen).
   STILL NOT A THEOREM IN FULL (hence the property stays partial): that every MUTATION of DbImpl leaves the database stored
   (C05_db_operations_preserve_stored_db, spelled out in the L3 section) — i.e. "after any history of queries".  It IS a
   theorem for a CORE of mutations (last section: insert_node, insert_edge, reserve_key_value_capacity, insert_key_value and
   insert_or_replace_key_value on keys without an index, as programs over the storage; every history of them, on the
   storage model: C05_db_core_operations_preserve_stored_db_partial); aliases, indexes, removals, transactions + undo are
   missing.  The full statement is checked on every run: the extracted loader on the raw records of real database files against the reopened
   database, and each maintenance operation at random points of generated histories on DbFile, Db and the DbAny kinds
   with the full ORDERED dump plus a fixed battery of searches (result order included) before and after, the history
   continuing on the maintained database side by side with the in-memory one. *)
From Agdb Require Import FileWal FileWalProofs.
From Agdb Require Import Bytes Records RecordsProofs RecordsTableProofs Storage StorageSpec
  StorageLayout StorageWp StorageOps StorageOps2 StorageRefine StorageReopen StorageOptimize StorageProofs StorageSim.
Open Scope N_scope.

Theorem C05_storage_maintenance_partial :
  forall ops, canon ops -> forall s rg, tiles s rg ->
  (* backup + open *)
  (snd (reopen_copy cdata ops s) = ROk tt /\ tiles (fst (reopen_copy cdata ops s)) rg) /\
  (* drop + open *)
  (tx s = 0 -> dur (sdata s) = cur (sdata s) ->
   snd (reopen cdata ops s) = ROk tt /\ tiles (fst (reopen cdata ops s)) rg) /\
  (* optimize *)
  (snd (optimize_storage cdata ops s) = RPanic \/
   (snd (optimize_storage cdata ops s) = ROk tt /\ tiles (fst (optimize_storage cdata ops s)) (lmap rg) /\
    forall j, j <> 0 -> m_get (lmap rg) j = m_get rg j)).
Proof. exact storage_maintenance. Qed.
Print Assumptions C05_storage_maintenance_partial.

(* the byte level: opening a cleanly closed file (empty recovery log) changes nothing *)
Theorem C05_clean_reopen_identity :
  forall d : bytes, FileWal.recover walrev_fixed {| FileWal.data := d; FileWal.wal := [] |} = {| FileWal.data := d; FileWal.wal := [] |}.
Proof. intros d. reflexivity. Qed.
Print Assumptions C05_clean_reopen_identity.

(* ... also with the position guard of apply_wal_record (recover_g; None = error) *)
Theorem C05_clean_reopen_identity_guarded :
  forall d : bytes, FileWal.recover_g walrev_fixed {| FileWal.data := d; FileWal.wal := [] |} = Some {| FileWal.data := d; FileWal.wal := [] |}.
Proof. intros d. reflexivity. Qed.
Print Assumptions C05_clean_reopen_identity_guarded.

(* ======================= the collection layer (L2): storage-backed vectors =======================
   Model: theories/Collections.v — vec.rs line by line as PROGRAMS over the storage interface (cprog: a tree
   of Storage<D> calls branching on the storage's answers).  `cwp fl p sp Q` (CollWp.v): for every sequence of
   answers the abstract record map of C04 (StorageSpec.spec_step; free only in the u64 index an insert returns)
   accepts, p does not die and ends with a result and a map state satisfying Q.  `cwp_sound` transfers every
   cwp statement to the model of storage.rs over a canonical byte store through C04_step_refines — so nothing
   is assumed of the storage that C04 did not prove (C05_vec_history_on_storage_* below are such transfers).

   vrep g h slots l   (CollVec.v) the representation invariant: the record g(index h) is
                      le64 (len h) ++ concat slots ++ spare  (the spare capacity bytes are UNCONSTRAINED),
                      slot i represents l[i] (for String: the slot is the index of a record le64 len ++ utf8 that
                      the slot owns), len h = |l| <= capacity h, the index of the vector and the records owned by
                      its slots are pairwise distinct
   frame g g' F F'    the exact footprint change: records outside F and F' are untouched, records entering
                      the footprint were free, records leaving it are freed (no leaks)
   elem_law E         what is required of an element class (VecValue); proved for u64, i64, n raw inline bytes,
                      MapValueState, String (CollElems.v) *)
From Agdb Require Import Collections CollWp CollBytes CollVecBase CollVecOps CollVec CollVec2 CollElems CollVecHist.

(* the reload: on every state satisfying the invariant, DbVec::from_storage(index) succeeds and returns a handle
   with the same index and length for which the SAME slots represent the SAME list (its capacity is recomputed
   from the record size — it over-counts by 8 / size elements — and is only required to be >= len) *)
Theorem C05_vec_reload :
  forall (T : Type) (E : cv_elem T) (L : elem_law E) (fl : bool) h slots l sp (Q : cres cv_vec -> spec -> Prop),
    vrep T E L (hp sp) h slots l ->
    (forall h', vrep T E L (hp sp) h' slots l -> cv_index h' = cv_index h -> cv_len h' = cv_len h -> Q (CrOk h') sp) ->
    cwp fl (cv_from_storage T E (cv_index h)) sp Q.
Proof. exact cv_from_storage_spec. Qed.
Print Assumptions C05_vec_reload.

(* EVERY history (no bound): push, replace, remove, swap, resize, reserve, shrink_to_fit, value, iteration, len,
   interleaved at will with reloads (VoReload: the handle is dropped and rebuilt by from_storage) and with
   optimize_storage / drop + open / backup + open of the storage underneath (VoMaint) — started in a state
   satisfying the invariant with no transaction open, with representable values (op_ok) and a payload
   8 + size * len that stays a u64 (ops_ok) — yields exactly the observations of the plain list `cl_run`, in which
   reload and maintenance do nothing: a reloaded vector has the same length, the same elements, and every later
   operation behaves identically.  At the end the invariant holds for the final list, no transaction is open, and
   the history touched exactly its footprint (frame: no other record of the storage is read as changed, none is
   leaked).  Errors: only `Index out of bounds`, exactly when the list operation is out of range. *)
Theorem C05_vec_history :
  forall (T : Type) (E : cv_elem T) (L : elem_law E) (fl : bool) ops h slots l sp
         (Q : cres (cv_vec * list (cv_obs T)) -> spec -> Prop),
    vrep T E L (hp sp) h slots l -> sdepth sp = 0 -> ops_ok T E L l ops ->
    (forall h' slots' sp', vrep T E L (hp sp') h' slots' (fst (cl_run l ops)) -> cv_index h' = cv_index h -> sdepth sp' = 0 ->
        frame (hp sp) (hp sp') (foot T E L h slots) (foot T E L h' slots') -> Q (CrOk (h', snd (cl_run l ops))) sp') ->
    cwp fl (cv_run T E h ops) sp Q.
Proof. exact cv_run_spec. Qed.
Print Assumptions C05_vec_history.

(* the same on the model of storage.rs itself (C04), file-like and memory-like, from a fresh storage: DbVec::new
   followed by any history either dies by a panic of the storage (a request beyond 2^64 bytes) or returns the
   list's observations, in a storage state that refines an abstract map in which the invariant holds *)
Theorem C05_vec_history_on_storage_u64 :
  forall (ops : store_ops cdata) (fl : bool), kind ops fl ->
  forall l : list (cv_op N), ops_ok N ce_u64 law_u64 [] l ->
    let r := cp_run (st_step cdata ops) (h <~ cv_new ;; cv_run N ce_u64 h l) s_init in
    snd r = CrDead \/
    exists h' sp' slots', snd r = CrOk (h', snd (cl_run [] l)) /\ Rel (fst r) sp' /\
                          vrep N ce_u64 law_u64 (hp sp') h' slots' (fst (cl_run [] l)).
Proof. exact (cv_history_on_storage N ce_u64 law_u64). Qed.
Print Assumptions C05_vec_history_on_storage_u64.

Theorem C05_vec_history_on_storage_i64 :
  forall (ops : store_ops cdata) (fl : bool), kind ops fl ->
  forall l : list (cv_op Z), ops_ok Z ce_i64 law_i64 [] l ->
    let r := cp_run (st_step cdata ops) (h <~ cv_new ;; cv_run Z ce_i64 h l) s_init in
    snd r = CrDead \/
    exists h' sp' slots', snd r = CrOk (h', snd (cl_run [] l)) /\ Rel (fst r) sp' /\
                          vrep Z ce_i64 law_i64 (hp sp') h' slots' (fst (cl_run [] l)).
Proof. exact (cv_history_on_storage Z ce_i64 law_i64). Qed.
Print Assumptions C05_vec_history_on_storage_i64.

(* String elements live out of line (one record each, owned by the slot) *)
Theorem C05_vec_history_on_storage_string :
  forall (ops : store_ops cdata) (fl : bool), kind ops fl ->
  forall l : list (cv_op bytes), ops_ok bytes ce_string law_string [] l ->
    let r := cp_run (st_step cdata ops) (h <~ cv_new ;; cv_run bytes ce_string h l) s_init in
    snd r = CrDead \/
    exists h' sp' slots', snd r = CrOk (h', snd (cl_run [] l)) /\ Rel (fst r) sp' /\
                          vrep bytes ce_string law_string (hp sp') h' slots' (fst (cl_run [] l)).
Proof. exact (cv_history_on_storage bytes ce_string law_string). Qed.
Print Assumptions C05_vec_history_on_storage_string.

(* remove_from_storage frees exactly the footprint (the vector record and every record owned by a slot) *)
Theorem C05_vec_remove_from_storage :
  forall (T : Type) (E : cv_elem T) (L : elem_law E) (fl : bool) h slots l sp (Q : cres unit -> spec -> Prop),
    vrep T E L (hp sp) h slots l ->
    (forall sp', sdepth sp' = sdepth sp -> frame (hp sp) (hp sp') (foot T E L h slots) [] -> Q (CrOk tt) sp') ->
    cwp fl (cv_remove_from_storage T E h) sp Q.
Proof. exact cv_remove_from_storage_spec. Qed.
Print Assumptions C05_vec_remove_from_storage.

(* what makes the transfer possible: a cwp statement holds of every run on the storage model that does not panic *)
Theorem C05_cwp_sound :
  forall (ops : store_ops cdata) (fl : bool), kind ops fl ->
  forall (A : Type) (p : cprog A) s sp (Q : cres A -> spec -> Prop),
    Rel s sp -> cwp fl p sp Q ->
    snd (cp_run (st_step cdata ops) p s) = CrDead \/
    exists sp', Rel (fst (cp_run (st_step cdata ops) p s)) sp' /\ Q (snd (cp_run (st_step cdata ops) p s)) sp'.
Proof. exact (fun ops fl K A => cwp_sound ops fl K (A := A)). Qed.
Print Assumptions C05_cwp_sound.

(* ---- non-vacuity: concrete histories on the storage model, by evaluation ---- *)
Example C05_vec_sample_u64 :
  let l := [VoPush 5; VoPush 6; VoPush 7; VoRemove 0; VoValues; VoReload; VoPush 9; VoValues; VoSwap 0 2; VoValues;
            VoMaint SOptimize; VoMaint SReopen; VoReload; VoValues; VoReplace 7 1; VoResize 1 0; VoShrink; VoReload; VoValues] in
  ops_ok N ce_u64 law_u64 [] l /\
  exists h', snd (cp_run (st_step cdata ops_file) (h <~ cv_new ;; cv_run N ce_u64 h l) s_init) = CrOk (h', snd (cl_run [] l)) /\
             snd (cl_run [] l) = [VbUnit; VbUnit; VbUnit; VbVal 5; VbVals [6; 7]; VbUnit; VbUnit; VbVals [6; 7; 9]; VbUnit;
                                  VbVals [9; 7; 6]; VbUnit; VbUnit; VbUnit; VbVals [9; 7; 6]; VbErr CvIndex; VbUnit; VbUnit; VbUnit; VbVals [9]].
Proof.
  split.
  - cbn [ops_ok cl_step fst op_ok law_u64 inline_law el_valid fits ce_size ce_u64]. unfold lenN. cbn. repeat split; lia.
  - eexists. split; vm_compute; reflexivity.
Qed.
Print Assumptions C05_vec_sample_u64.

Example C05_vec_sample_string :
  let l := [VoPush [x41]; VoPush [x42; x43]; VoPush []; VoRemove 0; VoReload; VoPush [x44]; VoSwap 0 2; VoMaint SReopenCopy;
            VoReload; VoReplace 1 [x45]; VoResize 1 []; VoValues] in
  exists h', snd (cp_run (st_step cdata ops_mem) (h <~ cv_new ;; cv_run bytes ce_string h l) s_init) = CrOk (h', snd (cl_run [] l)) /\
             last (snd (cl_run [] l)) VbUnit = VbVals [[x44]].
Proof. eexists. split; vm_compute; reflexivity. Qed.
Print Assumptions C05_vec_sample_string.

(* ======================= the collection layer (L2): map data, graph data, root record =======================
   mrep g d slots.. t   (CollMap.v) DbMapData: the index record g(index d) = le64 len ++ le64 states ++ le64 keys ++
                        le64 values, the three vectors (states: MapValueState, keys, values) each satisfying vrep for
                        the corresponding list of the table t, all footprints pairwise disjoint, cached len = t's len,
                        the three lists of one length (= capacity)
   grep g d slots a     (CollGraph.v) GraphDataStorage: the record with the four vector indexes and four DbVec<i64>
                        representing the slot arrays a (from, to, from_meta, to_meta — the arrays of Graph.v), disjoint *)
From Agdb Require Import CollSep CollMap CollMapHist CollGraph CollGraphNew CollAgree OpenMap.

(* (b) FULL for the MapData interface: EVERY history of set_state / set_key / set_value / set_len / resize (states,
   keys, values in this order) / swap / shrink_to_fit / state / key / value / capacity / len, with reloads
   (DbMapData::from_storage: the index record, then the three vectors) and maintenance of the storage at will, yields
   the observations of the plain table `ct_run`, in which reload and maintenance do nothing; at the end `mrep` holds
   for the final table.  The algorithms of multi_map.rs (MultiMapImpl: insert, insert_or_replace, remove_key,
   remove_value, value, values, iteration, rehash) are written against exactly this interface (trait MapData) and
   keep no state of their own, so on a reloaded map they compute what they compute on the live one: the reloaded
   interface is extensionally the same (same answers to every state / key / value / capacity / len, same effect
   of every mutator).  OpenMap.v (C19) is those algorithms on `ct_omap t`. *)
Theorem C05_map_history :
  forall (K V : Type) (EK : cv_elem K) (EV : cv_elem V) (LK : elem_law EK) (LV : elem_law EV) (kdef : K) (vdef : V),
    el_valid LK kdef -> el_valid LV vdef ->
  forall (fl : bool) ops d ss ks vs t sp (Q : cres (cm_data * list (cm_obs K V)) -> spec -> Prop),
    mrep K V EK EV LK LV (hp sp) d ss ks vs t -> sdepth sp = 0 -> Forall (mop_ok K V EK EV LK LV) ops ->
    (forall d' ss' ks' vs' sp', mrep K V EK EV LK LV (hp sp') d' ss' ks' vs' (fst (ct_run K V kdef vdef t ops)) ->
        cm_index d' = cm_index d -> sdepth sp' = 0 ->
        frame (hp sp) (hp sp') (mfoot K V EK EV LK LV d ss ks vs) (mfoot K V EK EV LK LV d' ss' ks' vs') ->
        Q (CrOk (d', snd (ct_run K V kdef vdef t ops))) sp') ->
    cwp fl (cm_run K V EK EV kdef vdef d ops) sp Q.
Proof. exact cm_run_spec. Qed.
Print Assumptions C05_map_history.

(* the reload alone: the same table through the reloaded interface *)
Theorem C05_map_reload :
  forall (fl : bool) (K V : Type) (EK : cv_elem K) (EV : cv_elem V) (LK : elem_law EK) (LV : elem_law EV) d ss ks vs t sp,
    mrep K V EK EV LK LV (hp sp) d ss ks vs t ->
    cwp fl (cm_from_storage K V EK EV (cm_index d)) sp
        (fun r sp' => exists d', r = CrOk d' /\ sp' = sp /\ mrep K V EK EV LK LV (hp sp) d' ss ks vs t).
Proof. exact map_loads. Qed.
Print Assumptions C05_map_reload.

(* on the model of storage.rs, from DbMapData::new on a fresh storage; instances: <u64,u64> (e.g. ids) and
   <String,u64> (the alias map's key type: every key is an out-of-line record owned by its slot) *)
Theorem C05_map_history_on_storage_u64 :
  forall (ops : store_ops cdata) (fl : bool), kind ops fl ->
  forall l : list (cm_op N N), Forall (mop_ok N N ce_u64 ce_u64 law_u64 law_u64) l ->
    let r := cp_run (st_step cdata ops) (d <~ cm_new ;; cm_run N N ce_u64 ce_u64 0 0 d l) s_init in
    snd r = CrDead \/
    exists d' sp' ss ks vs, snd r = CrOk (d', snd (ct_run N N 0 0 (ct_empty N N) l)) /\ Rel (fst r) sp' /\
       mrep N N ce_u64 ce_u64 law_u64 law_u64 (hp sp') d' ss ks vs (fst (ct_run N N 0 0 (ct_empty N N) l)).
Proof. exact (cm_history_on_storage N N ce_u64 ce_u64 law_u64 law_u64 0 0 eq_refl eq_refl). Qed.
Print Assumptions C05_map_history_on_storage_u64.

Theorem C05_map_history_on_storage_string :
  forall (ops : store_ops cdata) (fl : bool), kind ops fl ->
  forall l : list (cm_op bytes N), Forall (mop_ok bytes N ce_string ce_u64 law_string law_u64) l ->
    let r := cp_run (st_step cdata ops) (d <~ cm_new ;; cm_run bytes N ce_string ce_u64 [] 0 d l) s_init in
    snd r = CrDead \/
    exists d' sp' ss ks vs, snd r = CrOk (d', snd (ct_run bytes N [] 0 (ct_empty bytes N) l)) /\ Rel (fst r) sp' /\
       mrep bytes N ce_string ce_u64 law_string law_u64 (hp sp') d' ss ks vs (fst (ct_run bytes N [] 0 (ct_empty bytes N) l)).
Proof. exact (cm_history_on_storage bytes N ce_string ce_u64 law_string law_u64 [] 0 (conj eq_refl eq_refl) eq_refl). Qed.
Print Assumptions C05_map_history_on_storage_string.

(* (c) FULL for the GraphData interface: EVERY history of set / get of from, to, from_meta, to_meta at a graph index,
   grow (four pushes), shrink_to_fit, capacity, with reloads (GraphDataStorage::from_storage) and maintenance of
   the storage at will, yields the observations of the four plain arrays (ga_run; node_count / free_index are reads
   of to_meta[0] / from_meta[0]); the algorithms of graph.rs (GraphImpl) are written against this interface (trait
   GraphData) and keep no state of their own: Graph.v (C08) is those algorithms on the arrays. *)
Theorem C05_graph_history :
  forall (fl : bool) ops d s a sp (Q : cres (cg_data * list cg_obs) -> spec -> Prop),
    grep (hp sp) d s a -> sdepth sp = 0 -> gops_ok a ops ->
    (forall d' s' sp', grep (hp sp') d' s' (fst (ga_run a ops)) -> cg_index d' = cg_index d -> sdepth sp' = 0 ->
        frame (hp sp) (hp sp') (gfoot d s) (gfoot d' s') -> Q (CrOk (d', snd (ga_run a ops))) sp') ->
    cwp fl (cg_run d ops) sp Q.
Proof. exact cg_run_spec. Qed.
Print Assumptions C05_graph_history.

(* from GraphDataStorage::new (arrays [0] [0] [i64::MIN] [0]) on the model of storage.rs *)
Theorem C05_graph_history_on_storage :
  forall (ops : store_ops cdata) (fl : bool), kind ops fl ->
  forall l : list cg_op, gops_ok ga_init l ->
    let r := cp_run (st_step cdata ops) (d <~ cg_new ;; cg_run d l) s_init in
    snd r = CrDead \/
    exists d' sp' s, snd r = CrOk (d', snd (ga_run ga_init l)) /\ Rel (fst r) sp' /\ grep (hp sp') d' s (fst (ga_run ga_init l)).
Proof. exact cg_history_on_storage. Qed.
Print Assumptions C05_graph_history_on_storage.

(* the root record (DbStorageIndex at storage index 1): what try_new_with_storage stores is what the next open
   reads, for every record map in which record 1 holds it — hence after reopen / optimize / backup (L1) too.
   PARTIAL as a statement about DbImpl: the composition root -> graph + aliases (two maps) + indexes (a vector of
   (value index, multi-map index) pairs) + values (a vector of vector indexes) into ONE invariant of the whole
   database file is not assembled; each component is covered by the theorems above. *)
Theorem C05_root_roundtrip_partial :
  forall (fl : bool) r,
    cr_u64 r ->
    (forall x sp (Q : cres unit -> spec -> Prop), hp sp 1 = Some x -> lenN x = 48 ->
       (forall sp', heq (hp sp') (hupd (hp sp) 1 (cr_ser r)) -> sdepth sp' = sdepth sp -> Q (CrOk tt) sp') ->
       cwp fl (cr_store r) sp Q) /\
    (forall sp (Q : cres cr_root -> spec -> Prop), hp sp 1 = Some (cr_ser r) -> Q (CrOk r) sp -> cwp fl cr_load sp Q).
Proof. intros fl r Hb. split; [intros x sp Q; apply cr_store_spec|intros sp Q Hg; apply cr_load_spec; assumption]. Qed.
Print Assumptions C05_root_roundtrip_partial.

(* ---- non-vacuity ---- *)
Example C05_map_sample_string :
  let l : list (cm_op bytes N) :=
           [MoResize 3; MoSetKey 1 [x41; x42]; MoSetState 1 StValid; MoSetValue 1 7; MoSetLen 1;
            MoReload; MoSwap 1 2; MoMaint SOptimize; MoMaint SReopen; MoReload;
            MoKey 2; MoState 2; MoValue 2; MoCapLen; MoKey 5] in
  exists d', snd (cp_run (st_step cdata ops_file) (d <~ cm_new ;; cm_run bytes N ce_string ce_u64 [] 0 d l) s_init)
               = CrOk (d', snd (ct_run bytes N [] 0 (ct_empty bytes N) l)) /\
             skipn 10 (snd (ct_run bytes N [] 0 (ct_empty bytes N) l)) =
               [MbKey [x41; x42]; MbState StValid; MbVal 7; MbNums 3 1; MbErr CvIndex].
Proof. eexists. split; vm_compute; reflexivity. Qed.
Print Assumptions C05_map_sample_string.

Example C05_graph_sample :
  let l := [GoGrow; GoGrow; GoSet GfFrom 1 (-1); GoSet GfToMeta 0 1; GoReload; GoMaint SOptimize; GoMaint SReopenCopy; GoReload;
            GoGet GfFrom (-1); GoGet GfToMeta 0; GoGet GfFromMeta 0; GoCap; GoGet GfTo 3] in
  exists d', snd (cp_run (st_step cdata ops_mem) (d <~ cg_new ;; cg_run d l) s_init) = CrOk (d', snd (ga_run ga_init l)) /\
             skipn 8 (snd (ga_run ga_init l)) = [GbVal (-1); GbVal 1; GbVal cg_i64_min; GbNum 3; GbErr CvIndex].
Proof. eexists. split; vm_compute; reflexivity. Qed.
Print Assumptions C05_graph_sample.

(* ---- vectors of database values (db_index.rs: VecValue for DbValue; db_key_value.rs: VecValue for DbKeyValue) ----
   The slot is the 16-byte value index of C12 (values of up to 15 bytes inline, everything longer and all vectors in
   ONE record owned by the slot), a key-value pair is two of them.  CollValuesProofs.v derives `elem_law` for both from
   the theorems of C12 (C12_roundtrip through the bounds checks of the current load_db_value, the shape of the index
   store_db_value produces, C12_remove_frees_exactly) — so C05_vec_history holds for DbVec<DbValue> (the key vectors of
   the index multi-maps) and DbVec<DbKeyValue> (the property lists of the elements); here on the model of storage.rs.
   Values must be `wf_value` (what a Rust program can hold: i64 range, valid UTF-8, lengths < 2^60). *)
From Agdb Require Import DbValue ValueIndex CollValues CollValuesProofs.

Theorem C05_vec_history_on_storage_dbvalue :
  forall (ops : store_ops cdata) (fl : bool), StorageProofs.kind ops fl ->
  forall l : list (cv_op dbvalue), ops_ok dbvalue ce_dbvalue law_dbvalue [] l ->
    let r := cp_run (st_step cdata ops) (h <~ cv_new ;; cv_run dbvalue ce_dbvalue h l) s_init in
    snd r = CrDead \/
    exists h' sp' slots', snd r = CrOk (h', snd (cl_run [] l)) /\ Rel (fst r) sp' /\
                          vrep dbvalue ce_dbvalue law_dbvalue (hp sp') h' slots' (fst (cl_run [] l)).
Proof. exact (cv_history_on_storage dbvalue ce_dbvalue law_dbvalue). Qed.
Print Assumptions C05_vec_history_on_storage_dbvalue.

Theorem C05_vec_history_on_storage_dbkv :
  forall (ops : store_ops cdata) (fl : bool), StorageProofs.kind ops fl ->
  forall l : list (cv_op (dbvalue * dbvalue)), ops_ok (dbvalue * dbvalue) ce_dbkv law_dbkv [] l ->
    let r := cp_run (st_step cdata ops) (h <~ cv_new ;; cv_run (dbvalue * dbvalue) ce_dbkv h l) s_init in
    snd r = CrDead \/
    exists h' sp' slots', snd r = CrOk (h', snd (cl_run [] l)) /\ Rel (fst r) sp' /\
                          vrep (dbvalue * dbvalue) ce_dbkv law_dbkv (hp sp') h' slots' (fst (cl_run [] l)).
Proof. exact (cv_history_on_storage (dbvalue * dbvalue) ce_dbkv law_dbkv). Qed.
Print Assumptions C05_vec_history_on_storage_dbkv.

(* non-vacuity: a 16-byte string (out of line) and an inline integer as a pair, replaced, reloaded, removed *)
Example C05_vec_sample_dbkv :
  let big := DString [x30; x31; x32; x33; x34; x35; x36; x37; x38; x39; x61; x62; x63; x64; x65; x66] in
  let l := [VoPush (big, DI64 (-1)); VoPush (DU64 7, DVecI64 [1; 2]%Z); VoReload; VoMaint SOptimize; VoMaint SReopen; VoReload;
            VoReplace 0 (DString [x41], big); VoSwap 0 1; VoValues; VoRemove 0; VoValues] in
  exists h', snd (cp_run (st_step cdata ops_file) (h <~ cv_new ;; cv_run (dbvalue * dbvalue) ce_dbkv h l) s_init)
               = CrOk (h', snd (cl_run [] l)) /\
             last (snd (cl_run [] l)) VbUnit = VbVals [(DString [x41], big)].
Proof. eexists. split; vm_compute; reflexivity. Qed.
Print Assumptions C05_vec_sample_dbkv.

(* ======================= the database level (L3): the whole database in the record store =======================
   theories/StoredDb.v (executable, extracted), StoredDbRep.v (the relation), StoredDbRun/Load/Proofs/Queries/Obs/Final.v.

   load_db m root         the LOADER: the root record DbStorageIndex (record `root`, 1 in db.rs) -> the graph (index
                          record + four DbVec<i64>) -> the aliases (DbMapData<String, DbId>, DbMapData<DbId, String>) ->
                          the indexes (DbVec of 24-byte entries: value index of the key ++ index of a
                          DbMapData<DbValue, DbId>; each entry loaded) -> the values (DbVec<StorageIndex>, each non-zero
                          slot a DbVec<DbKeyValue>) — the L2 loaders composed in the order of DbImpl::try_new_with_storage,
                          each component read to the end with the calls the code uses to read it completely — run on a
                          record store m (index |-> bytes); the result is a `db` of DbModel.v (the model of DbImpl the
                          query-level theorems C08–C18 are about).
   stored_db g root d     the REPRESENTATION RELATION (StoredDbRep.v): heap g holds database d.  Built from the L2
                          predicates only (grep, mrep, vrep for i64 / u64 / 24 raw bytes / DbKeyValue, dbv_rep = C12):
                          root record with version 1 and six u64 fields; graph = EXACTLY the four arrays of gr d; the two
                          alias tables hold k2v / v2k of d as multisets (keys distinct); the index vector holds the
                          indexes of d in order, each key by its value index, each id table the ids as a multiset;
                          the values vector has one slot per element slot, 0 for an element without properties, else a
                          DbVec<DbKeyValue> holding EXACTLY its property list; all footprints pairwise distinct.
                          It assumes NOTHING else (no invariant of d: no well-formed graph, no alias/index consistency,
                          any table capacity, probe chains not required — the loader scans the slots).
   sd_eqv d d'            the equality a reload determines: same graph arrays, same property lists (order included),
                          same alias lookups in both directions, same index keys in the same order, each index's ids
                          as a multiset.  What it leaves open — the order of the alias list and of an index's ids — is
                          what a hash table does not keep.  It IMPLIES C13's obs_eq and obs_eq_strong (C05_db_eqv_is_observational). *)
From Coq Require Import Permutation.
From Agdb Require Import Graph DbModel Search Queries Revisions UndoObs
  StoredDb StoredDbRep StoredDbRun StoredDbLoad StoredDbProofs StoredDbQueries StoredDbObs StoredDbFinal StoredDbExample.

(* FULL (nothing assumed beyond stored_db): a record store that holds d LOADS, and what it loads is d up to sd_eqv, with
   an empty undo stack.  Assembles C05_vec_reload / C05_map_reload / the graph and root lemmas and C12 (law_dbvalue). *)
Theorem C05_db_reload :
  forall (m : vmap) (root : N) (d : db),
    stored_db (m_get m) root d ->
    exists d', load_db m root = Some d' /\ sd_eqv d d' /\ undo d' = [].
Proof. exact load_db_of_stored. Qed.
Print Assumptions C05_db_reload.

(* the loader PROGRAM (the composition of from_storage / value calls) run on the model of storage.rs (C04), file-like or
   memory-like, in a state refining an abstract map that holds d: it returns what load_db computes (or the storage
   panics: a request beyond 2^64 bytes) *)
Theorem C05_db_reload_on_storage :
  forall (ops : store_ops cdata) (fl : bool), StorageProofs.kind ops fl ->
  forall s sp root d, Rel s sp -> stored_db (hp sp) root d ->
    let r := cp_run (st_step cdata ops) (sd_load root) s in
    snd r = CrDead \/
    (Rel (fst r) sp /\ exists d', snd r = CrOk d' /\ load_db (sm sp) root = Some d' /\ sd_eqv d d').
Proof. exact sd_load_on_storage. Qed.
Print Assumptions C05_db_reload_on_storage.

(* MAINTENANCE: optimize_storage / drop + open / backup + open of the storage (SOptimize / SReopen / SReopenCopy), with
   no transaction open, on the model of storage.rs: the storage panics or the new state refines a map that STILL holds d
   (C04's step_refines carries C05_storage_maintenance_partial: same index -> same bytes), and load_db returns THE
   SAME database (Leibniz equality) before and after — reopen / optimize / backup+open preserve the database *)
Theorem C05_db_maintenance :
  forall (ops : store_ops cdata) (fl : bool), StorageProofs.kind ops fl ->
  forall s sp o root d,
    Rel s sp -> sdepth sp = 0 -> cv_is_maint o = true -> stored_db (hp sp) root d ->
    snd (st_step cdata ops s o) = ObPanic \/
    exists sp', Rel (fst (st_step cdata ops s o)) sp' /\ sdepth sp' = 0 /\
                stored_db (hp sp') root d /\
                exists d', load_db (sm sp) root = Some d' /\ load_db (sm sp') root = Some d' /\ sd_eqv d d'.
Proof. exact sd_maintenance_on_storage. Qed.
Print Assumptions C05_db_maintenance.

(* the relation is a property of the map index -> bytes alone *)
Theorem C05_db_stored_depends_on_map_only :
  forall g g' root d, heq g' g -> stored_db g root d -> stored_db g' root d.
Proof. exact stored_db_heq. Qed.
Print Assumptions C05_db_stored_depends_on_map_only.

(* QUERIES: `Queries.exec` is a function of the database; for every read-only query whose result does not depend on a
   hash table's iteration order (sd_query_ok: select values / keys / key_count / aliases / edge_count with explicit ids
   or a search, select indexes, select node_count, search — every algorithm except Index; excluded are exactly
   SelectAllAliases and the Index search, whose results list a table's content in the model's list order) the database
   loaded after the maintenance operation returns EXACTLY the result d returns (ids, result order, properties,
   aliases; d at rest: empty undo stack).  Mutating queries: see the missing link below. *)
Theorem C05_db_queries_after_reopen :
  forall (ops : store_ops cdata) (fl : bool), StorageProofs.kind ops fl ->
  forall rv s sp o root d,
    Rel s sp -> sdepth sp = 0 -> cv_is_maint o = true -> stored_db (hp sp) root d -> undo d = [] ->
    snd (st_step cdata ops s o) = ObPanic \/
    exists sp' d1, Rel (fst (st_step cdata ops s o)) sp' /\ sdepth sp' = 0 /\
                   stored_db (hp sp') root d /\
                   load_db (sm sp) root = Some d1 /\ load_db (sm sp') root = Some d1 /\ sd_eqv d d1 /\
                   forall q, sd_query_ok q -> snd (exec rv d1 q) = snd (exec rv d q).
Proof. exact sd_queries_after_maintenance. Qed.
Print Assumptions C05_db_queries_after_reopen.

(* the congruence behind it, for any two databases equal up to sd_eqv *)
Theorem C05_db_eqv_queries :
  forall rv d d', sd_eqv d d' -> forall q, sd_query_ok q -> undo d = [] -> undo d' = [] ->
    snd (exec rv d q) = snd (exec rv d' q) /\ sd_eqv (fst (exec rv d q)) (fst (exec rv d' q)).
Proof. exact sd_exec. Qed.
Print Assumptions C05_db_eqv_queries.

(* sd_eqv is at least as fine as the observational equivalences of C13 *)
Theorem C05_db_eqv_is_observational :
  forall d d', sd_eqv d d' -> obs_eq d d' /\ obs_eq_strong d d'.
Proof. intros d d' H. split; [apply sd_eqv_obs_eq|apply sd_eqv_obs_eq_strong]; exact H. Qed.
Print Assumptions C05_db_eqv_is_observational.

(* THE MISSING LINK (not proved in full — proved for a core of mutations in the LAST SECTION of this file; the reason C05
   stays PARTIAL at the level of DbImpl):

     C05_db_operations_preserve_stored_db :
       forall every DbImpl operation op (insert_node, insert_edge, insert_alias, insert_key_value, insert_index,
       remove_*, ... — db.rs written against GraphImpl / MultiMapImpl / DbKeyValues / DbIndexes over the storage),
         stored_db (hp sp) 1 d -> cwp fl (the program of op over the storage-backed collections) sp
           (fun r sp' => stored_db (hp sp') 1 (DbModel.op d) /\ r = the model's result)

   i.e. the simulation of db.rs's MUTATIONS: that the state the code leaves in the storage after each operation is
   a representation of the state DbModel.v computes.  Its ingredients exist per layer — C05_vec_history /
   C05_map_history / C05_graph_history (the interfaces on storage), C19_table_refines_multimap (multi_map.rs on the
   MapData interface; needs the probe-chain invariant PInv as part of the relation), C08_history_refines (graph.rs on
   the GraphData interface) — but db.rs / db_key_value.rs / db_index.rs themselves are not modelled as programs over
   the storage and the frames are not composed.  Consequently "after any history of queries" in C05's text is covered
   by the theorems above only from the point where stored_db holds; that it holds after every history is what the
   correspondence run checks (`c05 stored`: load_db on the raw records of real files vs. the reopened database). *)

(* ---- non-vacuity: a database CREATED on the model of storage.rs by the programs of Collections.v (cr_create, cg_new +
   cg_run, cm_new + cm_run, cv_new / cv_push / cv_resize / cv_replace, ce_store, cr_store; theories/StoredDbExample.v) — 2 nodes,
   1 edge, alias "root", properties ("k", 7), ("name", a 16-byte string: out of line), on the edge (1u64, [1, 2]i64: out
   of line), an index on "k" — its record store (every live index with its bytes), stored_db for the database that three
   queries produce from the empty database, load_db = exactly that database; after optimize / drop+open / backup+open of
   the storage model and on the memory-like storage the record store is the same. *)
Example C05_db_sample :
  fold_left (fun d q => fst (exec rv_fixed d q)) sx_queries db_new = sx_db /\
  (* sx_run = cp_run (st_step cdata ops_file) sx_build s_init *)
  snd sx_run = CrOk 1 /\
  live_values cdata ops_file (fst sx_run) = sx_store /\
  stored_db (m_get sx_store) 1 sx_db /\
  load_db sx_store 1 = Some sx_db /\
  sx_after SOptimize = sx_store /\ sx_after SReopen = sx_store /\ sx_after SReopenCopy = sx_store /\
  sx_store_mem = sx_store.
Proof. split; [exact sx_db_is|exact sx_sample]. Qed.
Print Assumptions C05_db_sample.

(* THE LINK TO C19: load_db reads a table by scanning its slots; the code looks an alias up by PROBING (MapImpl::value =
   MultiMapImpl::value of multi_map.rs, OpenMap.v).  If the two stored alias tables satisfy the invariant C19 proves of
   every reachable table (PInv — C19_table_refines_multimap, C19_map_unique_keys; for EVERY hash function and minimum
   capacity), the probing lookups on the stored tables return exactly the model's lookups: DbImpl::db_id(alias) =
   imap_value, DbImpl::alias(id) = imap_key on the reloaded database (from C19_lookup_finds_exactly_stored).  stored_db
   itself does not demand PInv (the loader does not need it); that the tables of a real file satisfy it is part of the
   missing link above (it is what the mutations maintain).  Not stated for the id tables of the indexes: C19 needs a key
   test deciding Leibniz equality, which dbv_eqb is on canonical values only. *)
From Agdb Require Import OpenMap OpenMapRefineStep CollMapHist StoredDbProbe.

Theorem C05_db_alias_lookups_by_probing :
  forall (hs : bytes -> N) (hi : Z -> N) (mincap : nat) (rv : om_revision) g root d w,
    fix_iter_finished rv = true ->
    stored_db_w g root d w ->
    PInv bytes Z hs mincap (ct_omap bytes Z (mw_t (sw_a1 w))) ->
    PInv Z bytes hi mincap (ct_omap Z bytes (mw_t (sw_a2 w))) ->
    (forall a, value bytes Z bytes_eqb hs (ct_omap bytes Z (mw_t (sw_a1 w))) a = Done (imap_value (aliases d) a)) /\
    (forall i, value Z bytes Z.eqb hi (ct_omap Z bytes (mw_t (sw_a2 w))) i = Done (imap_key (aliases d) i)).
Proof. exact sd_alias_lookups_by_probing. Qed.
Print Assumptions C05_db_alias_lookups_by_probing.

(* non-vacuity: the alias tables of the example database (2 slots; hashes sending "root" to slot 1 and id 1 to slot 0) *)
Example C05_db_sample_probe :
  (forall a, value bytes Z bytes_eqb (fun _ => 1) (ct_omap bytes Z sx_t1) a = Done (imap_value (aliases sx_db) a)) /\
  (forall i, value Z bytes Z.eqb (fun _ => 0) (ct_omap Z bytes sx_t2) i = Done (imap_key (aliases sx_db) i)).
Proof. exact sx_probe. Qed.
Print Assumptions C05_db_sample_probe.

(* THE SHAPE OF THE MISSING LINK, carried out for one component (theories/StoredDbFrame.v).  An operation on one
   component of a stored database that keeps the component's invariant and touches exactly its footprint — what every L2
   history theorem delivers (`frame`) — keeps the WHOLE database stored: the other components are untouched and stay
   disjoint, because all footprints of stored_db are pairwise distinct and live (C05_db_footprint_live).  For the graph:
   EVERY history of the GraphData interface (set / get of from, to, from_meta, to_meta, grow, shrink_to_fit, capacity,
   reload, maintenance: C05_graph_history) run on the graph of a stored database leaves a stored database whose graph
   arrays are the plain arrays' result and whose aliases, indexes and values are the same; the change is confined to the
   database's footprint.  graph.rs (GraphImpl: insert_node, insert_edge, the removals) is written against exactly this
   interface, so each of its operations is such a history.  _partial: what is missing for DbImpl::insert_node etc. is that
   the history graph.rs issues computes Graph.v's function (C08's simulation is on the plain arrays), and the analogous
   liftings for the alias tables (through C19's multimap), the index vector and the property vectors. *)
From Agdb Require Import CollSep CollGraph StoredDbFrame.

Theorem C05_db_graph_histories_preserve_stored_db_partial :
  forall (fl : bool) ops root d w sp (Q : cres (cg_data * list cg_obs) -> spec -> Prop),
    stored_db_w (hp sp) root d w -> sdepth sp = 0 -> gops_ok (sd_arrays (gr d)) ops ->
    (forall dg' s' sp',
        stored_db_w (hp sp') root (with_gr d (sd_graph_of (fst (ga_run (sd_arrays (gr d)) ops)))) (sd_with_graph w dg' s') ->
        sdepth sp' = 0 ->
        frame (hp sp) (hp sp') (sd_foot root w) (sd_foot root (sd_with_graph w dg' s')) ->
        Q (CrOk (dg', snd (ga_run (sd_arrays (gr d)) ops))) sp') ->
    cwp fl (cg_run (sw_g w) ops) sp Q.
Proof. exact sd_graph_history. Qed.
Print Assumptions C05_db_graph_histories_preserve_stored_db_partial.

Theorem C05_db_footprint_live :
  forall g root d w, stored_db_w g root d w -> live_all g (sd_foot root w).
Proof. exact stored_db_live. Qed.
Print Assumptions C05_db_footprint_live.

(* non-vacuity: the hypotheses hold of the example database for a history that grows the graph by one slot and
   counts a third node (what insert_node does when the free list is empty) *)
Example C05_db_sample_graph_history :
  stored_db_w (hp (sd_spec_of sx_store)) 1 sx_db sx_wit /\ sdepth (sd_spec_of sx_store) = 0 /\
  gops_ok (sd_arrays (gr sx_db)) [GoGet GfFromMeta 0; GoGrow; GoGet GfToMeta 0; GoSet GfToMeta 0 3]%Z /\
  sd_graph_of (fst (ga_run (sd_arrays (gr sx_db)) [GoGet GfFromMeta 0; GoGrow; GoGet GfToMeta 0; GoSet GfToMeta 0 3]%Z))
    = snd (insert_node (gr sx_db)).
Proof.
  split; [exact sx_stored|]. split; [reflexivity|]. split; [|vm_compute; reflexivity].
  cbn [gops_ok gop_ok]. unfold ga_fits, i64_range. repeat split; try lia; intros f; destruct f; vm_compute; reflexivity.
Qed.
Print Assumptions C05_db_sample_graph_history.

(* ======================= the database level (L3): the CORE MUTATIONS keep the database stored =======================
   theories/StoredDbOps.v (executable, extracted: the programs), StoredDbOpsGraph/Graph2/Kv/Kv2/Kv3/Db/Db2/Db3.v (proofs).

   The missing link above, CLOSED FOR A CORE of DbImpl's mutations.  Each is modelled as a PROGRAM over the storage that
   issues the Storage<D> calls the code issues through the storage-backed collections, branching on what the storage
   answers (nothing read from the abstract state):
     so_insert_node                   DbImpl::insert_node = GraphImpl::insert_node over GraphDataStorage: one storage
                                      transaction around get_free_index (free_index() == i64::MIN: capacity as i64 + grow
                                      (four pushes), else pop the free list: from_meta(-index), set_from_meta(0, next),
                                      set_from_meta(-index, 0)), node_count, set_node_count(count + 1)
     so_insert_edge                   DbImpl::insert_edge = GraphImpl::insert_edge: validate_node twice (is_valid_index,
                                      is_valid_node, short-circuit), transaction, get_free_index, set_edge (set_from, set_to,
                                      update_from_edge, update_to_edge), commit; an invalid endpoint: Err, nothing written
     so_reserve_key_value_capacity    DbKeyValues::reserve_capacity: resize of the slot vector up to the index (new slots 0),
                                      value(index), DbVec::<DbKeyValue>::new + replace of the slot when it is 0 — the
                                      allocation of a property vector for an element without properties — else from_storage;
                                      reserve
     so_insert_key_value              DbImpl::insert_key_value for a key that is NOT indexed = DbKeyValues::insert_value:
                                      the same beginning, then reserve(len + 1), push (the pair's two value indexes of C12,
                                      out-of-line values in records owned by the slot)
     so_insert_or_replace_key_value   DbImpl::insert_or_replace_key_value, neither key indexed = DbKeyValues::
                                      insert_or_replace: valid_index, kvs (the slot again, from_storage), the lazy search for
                                      the first pair with an equal key (iter().enumerate().find), replace in place (the old
                                      pair's out-of-line records freed) or reserve + push; invalid index: insert_value
   The undo stack and `self.indexes.index_mut(&key)` are in memory (no storage call).  THEOREM SHAPE: in every state of the
   abstract record map holding d (stored_db_w with its witness w: handles and slot bytes) with the handles of DbImpl being
   those of the witness (so_handles; so_open builds them as try_new_with_storage does: C05_db_open_handles), under the
   explicit side conditions, for EVERY answer sequence the record map allows the program does not die, returns what
   DbModel's function returns, and ends in a state holding DbModel's result; the witness changes in the component
   operated on only (sd_with_graph / sd_with_values: all other handles, slot bytes, tables the SAME), and `frame` confines
   the change to the database's footprint (records outside untouched, records entering it were free, none leaked); the
   transaction depth is the one before (usable inside transaction_mut's storage transaction).
   SIDE CONDITIONS (explicit, nothing else assumed — stored_db demands no invariant of d):
     so_graph_ok G      four arrays of one length n, 1 <= n < 2^60; free-list head from_meta[0] = i64::MIN or of magnitude
                        < n; node count to_meta[0] in [0, 2^63 - 1)          (consequences of C08's wf + capacity bound)
     so_edge_ok G f t   the two degree counters insert_edge increments stay i64 values (under wf: <= number of edges)
     so_index_ok i      |id| < 2^60;   so_kv_fits: 8 + 32 * (len + 1) < 2^64 (u64 sizes);   el_valid law_dbkv x: both values
                        wf_value (i64 range, valid UTF-8, lengths < 2^60 — what a Rust program can hold)
     key not indexed    idx_find (indexes d) key = None (for insert_or_replace also the replaced pair's key) *)
From Agdb Require Import StoredDbOps StoredDbOpsGraph StoredDbOpsGraph2 StoredDbOpsKv StoredDbOpsKv2 StoredDbOpsKv3
  StoredDbOpsDb StoredDbOpsDb2 StoredDbOpsDb3 StoredDbOpsExample.

(* the handles of an existing file: root record, DbGraph::from_storage, DbKeyValues::from_storage; nothing is written *)
Theorem C05_db_open_handles :
  forall (fl : bool) root d w sp (Q : cres so_db -> spec -> Prop),
    stored_db_w (hp sp) root d w ->
    (forall h w', stored_db_w (hp sp) root d w' -> so_handles h w' -> sd_foot root w' = sd_foot root w -> Q (CrOk h) sp) ->
    cwp fl (so_open root) sp Q.
Proof. exact so_open_spec. Qed.
Print Assumptions C05_db_open_handles.

Theorem C05_db_insert_node_preserves_stored_db :
  forall (fl : bool) root d w h sp (Q : cres (so_db * Z) -> spec -> Prop),
    stored_db_w (hp sp) root d w -> so_handles h w -> so_graph_ok (gr d) ->
    (forall h' dg' s' sp',
        stored_db_w (hp sp') root (snd (insert_node_db d)) (sd_with_graph w dg' s') -> so_handles h' (sd_with_graph w dg' s') ->
        sdepth sp' = sdepth sp ->
        frame (hp sp) (hp sp') (sd_foot root w) (sd_foot root (sd_with_graph w dg' s')) ->
        Q (CrOk (h', fst (insert_node_db d))) sp') ->
    cwp fl (so_insert_node h) sp Q.
Proof. exact so_insert_node_stored. Qed.
Print Assumptions C05_db_insert_node_preserves_stored_db.

Theorem C05_db_insert_edge_preserves_stored_db :
  forall (fl : bool) root d w h f t sp (Q : cres (so_db * option Z) -> spec -> Prop),
    stored_db_w (hp sp) root d w -> so_handles h w -> so_graph_ok (gr d) ->
    (insert_edge (gr d) f t <> None -> so_edge_ok (gr d) f t) ->
    match insert_edge_db d f t with
    | DbModel.ROk (e, d') =>
      forall h' dg' s' sp',
        stored_db_w (hp sp') root d' (sd_with_graph w dg' s') -> so_handles h' (sd_with_graph w dg' s') ->
        sdepth sp' = sdepth sp ->
        frame (hp sp) (hp sp') (sd_foot root w) (sd_foot root (sd_with_graph w dg' s')) ->
        Q (CrOk (h', Some e)) sp'
    | DbModel.RErr _ => Q (CrOk (h, None)) sp
    end ->
    cwp fl (so_insert_edge h f t) sp Q.
Proof. exact so_insert_edge_stored. Qed.
Print Assumptions C05_db_insert_edge_preserves_stored_db.

Theorem C05_db_reserve_key_value_capacity_preserves_stored_db :
  forall (fl : bool) root d w h id len sp (Q : cres so_db -> spec -> Prop),
    stored_db_w (hp sp) root d w -> so_handles h w -> so_index_ok (cg_as_u64 id) ->
    (forall h' vh' vs' vi' vw' sp',
        stored_db_w (hp sp') root (reserve_kv d id) (sd_with_values w vh' vs' vi' vw') ->
        so_handles h' (sd_with_values w vh' vs' vi' vw') -> sdepth sp' = sdepth sp ->
        frame (hp sp) (hp sp') (sd_foot root w) (sd_foot root (sd_with_values w vh' vs' vi' vw')) ->
        Q (CrOk h') sp') ->
    cwp fl (so_reserve_key_value_capacity h id len) sp Q.
Proof. exact so_reserve_key_value_capacity_stored. Qed.
Print Assumptions C05_db_reserve_key_value_capacity_preserves_stored_db.

Theorem C05_db_insert_key_value_preserves_stored_db :
  forall (fl : bool) root d w h id x sp (Q : cres so_db -> spec -> Prop),
    stored_db_w (hp sp) root d w -> so_handles h w ->
    idx_find (indexes d) (fst x) = None ->
    so_index_ok (cg_as_u64 id) -> el_valid law_dbkv x ->
    8 + ce_size ce_dbkv * (lenN (kvs_get (vals d) id) + 1) < two64 ->
    (forall h' vh' vs' vi' vw' sp',
        stored_db_w (hp sp') root (insert_key_value d id x) (sd_with_values w vh' vs' vi' vw') ->
        so_handles h' (sd_with_values w vh' vs' vi' vw') -> sdepth sp' = sdepth sp ->
        frame (hp sp) (hp sp') (sd_foot root w) (sd_foot root (sd_with_values w vh' vs' vi' vw')) ->
        Q (CrOk h') sp') ->
    cwp fl (so_insert_key_value h id x) sp Q.
Proof. exact so_insert_key_value_stored. Qed.
Print Assumptions C05_db_insert_key_value_preserves_stored_db.

Theorem C05_db_insert_or_replace_key_value_preserves_stored_db :
  forall (fl : bool) root d w h id x sp (Q : cres (so_db * option kv) -> spec -> Prop),
    stored_db_w (hp sp) root d w -> so_handles h w ->
    so_not_indexed d id x -> so_index_ok (cg_as_u64 id) -> el_valid law_dbkv x -> so_kv_fits d id ->
    (forall h' vh' vs' vi' vw' sp',
        stored_db_w (hp sp') root (insert_or_replace_key_value d id x) (sd_with_values w vh' vs' vi' vw') ->
        so_handles h' (sd_with_values w vh' vs' vi' vw') -> sdepth sp' = sdepth sp ->
        frame (hp sp) (hp sp') (sd_foot root w) (sd_foot root (sd_with_values w vh' vs' vi' vw')) ->
        Q (CrOk (h', fst (kvs_insert_or_replace (vals d) id x))) sp') ->
    cwp fl (so_insert_or_replace_key_value h id x) sp Q.
Proof. exact so_insert_or_replace_key_value_stored. Qed.
Print Assumptions C05_db_insert_or_replace_key_value_preserves_stored_db.

(* COMBINED, for EVERY HISTORY (no bound) of the five core operations (so_op: SoInsertNode, SoInsertEdge f t, SoReserve id len,
   SoInsertKeyValue id x, SoInsertOrReplace id x), transferred to the MODEL OF storage.rs (C04; file-like and memory-like):
   from any storage state refining a record map that holds d, opening the handles (so_open) and running the history
   (so_ops_run) either dies by a panic of the storage (a request beyond 2^64 bytes) or returns the outputs DbModel returns
   (ids, replaced pairs: so_ops_model) in a storage state refining a record map that HOLDS DbModel's final database, at
   the same transaction depth, the change confined to the database's footprint.  so_ops_ok = the side conditions above
   at every intermediate model state.  With C05_db_reload / C05_db_maintenance / C05_db_queries_after_reopen this gives, for
   these histories, "after any history ... reopening / optimizing / backing up yields a database on which the queries
   return the same".
   _partial — STILL MISSING for C05_db_operations_preserve_stored_db: insert_alias / insert_new_alias / remove_alias (the
   multi_map.rs algorithm over the two alias tables: needs C19's PInv as part of the relation), insert_index / remove_index
   and the index updates of insert_key_value / insert_or_replace_key_value / remove_* for an INDEXED key (DbIndexes: a vector
   of (value index, multi-map)), DbImpl's remove_edge / remove_node (their GRAPH part is proved below: GraphImpl::remove_edge in
   full, GraphImpl::remove_node for a node without edges; the cascade over a node's edges and the removal of the element's
   properties and alias are not), remove_keys / remove_all_values,
   transactions + undo (rollback replays the inverse commands: the same operations), shrink_to_fit; and that the side
   conditions hold of every reachable database (C08's wf implies so_graph_ok / so_edge_ok up to the capacity bound). *)
Theorem C05_db_core_operations_preserve_stored_db_partial :
  forall (ops : store_ops cdata) (fl : bool), StorageProofs.kind ops fl ->
  forall s sp root d l, Rel s sp -> stored_db (hp sp) root d -> so_ops_ok d l ->
    let r := cp_run (st_step cdata ops) (h <~ so_open root ;; so_ops_run h l) s in
    snd r = CrDead \/
    exists sp' h' w w', Rel (fst r) sp' /\ snd r = CrOk (h', snd (so_ops_model d l)) /\
                        stored_db_w (hp sp) root d w /\ stored_db_w (hp sp') root (fst (so_ops_model d l)) w' /\
                        so_handles h' w' /\ sdepth sp' = sdepth sp /\
                        frame (hp sp) (hp sp') (sd_foot root w) (sd_foot root w').
Proof. exact so_core_on_storage. Qed.
Print Assumptions C05_db_core_operations_preserve_stored_db_partial.

(* the same on the abstract record map, for every answer sequence it allows *)
Theorem C05_db_core_histories_preserve_stored_db :
  forall (fl : bool) root l d w h sp,
    stored_db_w (hp sp) root d w -> so_handles h w -> so_ops_ok d l ->
    cwp fl (so_ops_run h l) sp
        (fun r sp' => exists h' w', r = CrOk (h', snd (so_ops_model d l)) /\
                                    stored_db_w (hp sp') root (fst (so_ops_model d l)) w' /\ so_handles h' w' /\
                                    sdepth sp' = sdepth sp /\ frame (hp sp) (hp sp') (sd_foot root w) (sd_foot root w')).
Proof. exact so_ops_stored. Qed.
Print Assumptions C05_db_core_histories_preserve_stored_db.

(* non-vacuity, by evaluation ON THE STORAGE MODEL: from the example database of C05_db_sample (the storage state its
   creation ended in) the programs so_open; insert_node; reserve_key_value_capacity(id, 1); insert_key_value(id, ("q", a
   17-byte string: out of line)) are run by cp_run on the model of storage.rs; every answer of the storage model is
   replayed on the abstract record map (so_replay: each accepted by spec_step), so the theorems above apply to THIS run:
   the returned id is 4 = DbModel's, the record store the storage model ends with (sy_store = its live records) satisfies
   stored_db for DbModel's result sy_db = insert_key_value (reserve_kv (insert_node_db sx_db) 4) 4 ("q", ..), and load_db
   returns exactly it (with the empty undo stack). *)
Example C05_db_sample_core_operations :
  sy_id = 4%Z /\
  (exists h, snd sy_run = CrOk (h, 4%Z)) /\
  live_values cdata ops_file (fst sy_run) = sy_store /\
  stored_db (m_get sy_store) 1 sy_db /\
  load_db sy_store 1 = Some (clear_undo sy_db).
Proof. exact sy_sample. Qed.
Print Assumptions C05_db_sample_core_operations.

(* ---- graph.rs REMOVALS, graph component only (theories/StoredDbOpsGraph3/4.v) ----
   GraphImpl::remove_edge and GraphImpl::remove_node as programs over the storage (so_graph_remove_edge,
   so_graph_remove_node: validate_edge / validate_node — an invalid index is a no-op —, one storage transaction,
   remove_from_edge / remove_to_edge = three reads, the head case or the `while` walk to the predecessor (two reads per
   round, as the code), the degree counter; free_index = one read, five writes; node count - 1).  The `while` loops run on
   fuel = capacity, as in Graph.v (running out = CErr, standing for non-termination).  "Graph only": the properties and
   the alias of the removed element are removed by DbImpl (remove_all_values, aliases) — not covered; the statement is about
   with_gr d G' for G' = Graph.remove_edge / Graph.remove_node of gr d.
   remove_edge: FULL algorithm, every edge position in both lists.  Side condition so_remove_edge_ok (explicit; each part
   a consequence of C08's wf): the slots visited are inside the arrays (the edge, its source / target, every slot of the
   walk: prev_ok), the walks end within `capacity` rounds, the decremented counters stay i64 values.
   remove_node: for a node WITHOUT edges (from = to = 0: both unlink loops run zero times) and node count >= 1; the
   cascade over the node's edges (remove_from_edges / remove_to_edges are modelled in StoredDbOps.v) is NOT proved. *)
From Agdb Require Import StoredDbOpsGraph3 StoredDbOpsGraph4.

Theorem C05_db_remove_edge_graph_preserves_stored_db :
  forall (fl : bool) root d w h e sp (Q : cres unit -> spec -> Prop),
    stored_db_w (hp sp) root d w -> so_handles h w -> so_graph_ok (gr d) -> so_remove_edge_ok (gr d) e ->
    (forall G', Graph.remove_edge (gr d) e = Some G' ->
       forall s' sp', stored_db_w (hp sp') root (with_gr d G') (sd_with_graph w (sw_g w) s') -> sdepth sp' = sdepth sp ->
         frame (hp sp) (hp sp') (sd_foot root w) (sd_foot root (sd_with_graph w (sw_g w) s')) -> Q (CrOk tt) sp') ->
    cwp fl (so_graph_remove_edge (so_graph h) e) sp Q.
Proof. exact so_remove_edge_stored. Qed.
Print Assumptions C05_db_remove_edge_graph_preserves_stored_db.

Theorem C05_db_remove_isolated_node_graph_preserves_stored_db :
  forall (fl : bool) root d w h index sp (Q : cres unit -> spec -> Prop),
    stored_db_w (hp sp) root d w -> so_handles h w -> so_graph_ok (gr d) ->
    (is_node (gr d) index = true -> from (gr d) index = 0%Z /\ to (gr d) index = 0%Z /\ (1 <= tmeta (gr d) 0)%Z) ->
    (forall G', remove_node (gr d) index = Some G' ->
       forall s' sp', stored_db_w (hp sp') root (with_gr d G') (sd_with_graph w (sw_g w) s') -> sdepth sp' = sdepth sp ->
         frame (hp sp) (hp sp') (sd_foot root w) (sd_foot root (sd_with_graph w (sw_g w) s')) -> Q (CrOk tt) sp') ->
    cwp fl (so_graph_remove_node (so_graph h) index) sp Q.
Proof. exact so_remove_isolated_node_stored. Qed.
Print Assumptions C05_db_remove_isolated_node_graph_preserves_stored_db.

(* non-vacuity: the hypotheses hold of the example database for its edge -3 (1 -> 2, the head of both lists) and
   Graph.remove_edge computes a result *)
Example C05_db_sample_remove_edge :
  so_graph_ok (gr sx_db) /\ so_remove_edge_ok (gr sx_db) (-3)%Z /\ is_edge (gr sx_db) (-3)%Z = true /\
  exists G', Graph.remove_edge (gr sx_db) (-3)%Z = Some G' /\ g_from G' = [0; 0; 0; 0]%Z /\ g_fmeta G' = [-3; 0; 0; -9223372036854775808]%Z.
Proof. exact sy_remove_edge_sample. Qed.
Print Assumptions C05_db_sample_remove_edge.

(* the side condition so_graph_ok is a consequence of C08's well-formedness (what every history of graph.rs operations from
   graph_new satisfies: C08_history_refines) and the capacity bound; so_edge_ok / so_remove_edge_ok (degree counters within
   i64, visited slots inside the arrays, walks that end) are NOT linked to wf here *)
From Agdb Require GraphSim StoredDbOpsWf.
Theorem C05_db_graph_side_condition_from_wf :
  forall g, GraphSim.wf g -> (Graph.capacity g < 1152921504606846976)%Z -> so_graph_ok g.
Proof. exact StoredDbOpsWf.wf_so_graph_ok. Qed.
Print Assumptions C05_db_graph_side_condition_from_wf.

(* ---- the programs of the correspondence run (theories/StoredDbOpsQuery.v) ----
   so_q_insert_node h l / so_q_insert_values h id l are the core operations as the PUBLIC QUERIES issue them inside
   transaction_mut's storage transaction (insert nodes values [l]: insert_node, reserve_key_value_capacity(id, |l|),
   insert_key_value for each pair; insert values [l] ids id: reserve_key_value_capacity, insert_or_replace_key_value for each
   pair) — the programs `hx_core ops` compares byte for byte with the real database.  They keep the database stored and
   compute the composition of DbModel's functions (mq_*: fold_left of insert_key_value / insert_or_replace_key_value);
   so_kvs_ok / so_iors_ok: the side conditions at every intermediate database. *)
From Agdb Require Import StoredDbOpsQuery.

Theorem C05_db_query_insert_node_preserves_stored_db :
  forall (fl : bool) root d w h l sp,
    stored_db_w (hp sp) root d w -> so_handles h w -> so_graph_ok (gr d) ->
    let id := fst (insert_node_db d) in
    let d2 := reserve_kv (snd (insert_node_db d)) id in
    so_index_ok (cg_as_u64 id) -> so_kvs_ok d2 id l ->
    cwp fl (so_q_insert_node h l) sp
        (fun r sp' => exists h' w', r = CrOk (h', id) /\ stored_db_w (hp sp') root (mq_insert_key_values d2 id l) w' /\
                                    so_handles h' w' /\ sdepth sp' = sdepth sp /\
                                    frame (hp sp) (hp sp') (sd_foot root w) (sd_foot root w')).
Proof. exact so_q_insert_node_stored. Qed.
Print Assumptions C05_db_query_insert_node_preserves_stored_db.

Theorem C05_db_query_insert_values_preserves_stored_db :
  forall (fl : bool) root d w h id l sp,
    stored_db_w (hp sp) root d w -> so_handles h w -> so_index_ok (cg_as_u64 id) ->
    so_iors_ok (reserve_kv d id) id l ->
    cwp fl (so_q_insert_values h id l) sp
        (fun r sp' => exists h' w', r = CrOk h' /\
                                    stored_db_w (hp sp') root (mq_insert_or_replace_key_values (reserve_kv d id) id l) w' /\
                                    so_handles h' w' /\ sdepth sp' = sdepth sp /\
                                    frame (hp sp) (hp sp') (sd_foot root w) (sd_foot root w')).
Proof. exact so_q_insert_values_stored. Qed.
Print Assumptions C05_db_query_insert_values_preserves_stored_db.

(* ---- DbKeyValues::remove and the PUBLIC REMOVAL OF AN EDGE (theories/StoredDbOpsKv4.v, StoredDbOpsRemove.v) ----
   so_kv_remove = DbKeyValues::remove: valid_index, kvs, remove_from_storage of the element's vector (the out-of-line
   records of every pair and the vector record are freed: the footprint shrinks, `frame ... []`), then the slot vector is
   popped (VecImpl::remove) when it was the last slot, else the slot is set to 0.  so_q_remove h e for an edge id e =
   what QueryBuilder::remove().ids(e) issues inside transaction_mut's storage transaction: DbImpl::remove_id =
   graph.remove_edge + remove_all_values (none of the edge's keys indexed).  It keeps the database stored and computes
   DbModel's remove_all_values (remove_edge_db d e).
   so_slot_valid (a condition on the WITNESS, i.e. on the file): the element has a property vector (slot <> 0 — every element
   inserted through the public API, which always reserves capacity) or lies beyond the slot vector.  It is needed: for a
   LAST slot holding 0 the code returns at valid_index and keeps the slot, while DbModel's kvs_remove pops the entry — a
   discrepancy between DbModel's `vals` length and the file that no query observes and no API history reaches. *)
From Agdb Require Import StoredDbOpsKv4 StoredDbOpsRemove.

Theorem C05_db_query_remove_edge_preserves_stored_db :
  forall (fl : bool) root d w h e sp,
    stored_db_w (hp sp) root d w -> so_handles h w -> (e < 0)%Z ->
    so_graph_ok (gr d) -> so_remove_edge_ok (gr d) e ->
    so_slot_valid (sw_vi w) (zabs_nat e) ->
    (forall x, In x (kvs_get (vals d) e) -> idx_find (indexes d) (fst x) = None) ->
    cwp fl (so_q_remove h e) sp
        (fun r sp' => exists G' h' w', Graph.remove_edge (gr d) e = Some G' /\ r = CrOk h' /\
                        stored_db_w (hp sp') root (remove_all_values (fst (remove_edge_db d e)) e) w' /\
                        so_handles h' w' /\ sdepth sp' = sdepth sp /\
                        frame (hp sp) (hp sp') (sd_foot root w) (sd_foot root w')).
Proof. exact so_q_remove_edge_stored. Qed.
Print Assumptions C05_db_query_remove_edge_preserves_stored_db.

(* the public removal of a NODE that has no edges and no alias (so_q_remove h n, n > 0: DbImpl::remove_id = remove_node with an
   empty node_edges list — no cascade —, graph.remove_node, remove_all_values): DbModel's remove_node_db d n None succeeds
   (no error) and the final store holds remove_all_values of its result *)
Theorem C05_db_query_remove_isolated_node_preserves_stored_db :
  forall (fl : bool) root d w h n sp,
    stored_db_w (hp sp) root d w -> so_handles h w -> (0 < n)%Z ->
    so_graph_ok (gr d) -> is_node (gr d) n = true ->
    from (gr d) n = 0%Z -> to (gr d) n = 0%Z -> (1 <= tmeta (gr d) 0)%Z ->
    so_slot_valid (sw_vi w) (zabs_nat n) ->
    (forall x, In x (kvs_get (vals d) n) -> idx_find (indexes d) (fst x) = None) ->
    cwp fl (so_q_remove h n) sp
        (fun r sp' => exists h' w', r = CrOk h' /\
                        stored_db_w (hp sp') root (remove_all_values (fst (remove_node_db d n None)) n) w' /\
                        snd (remove_node_db d n None) = None /\
                        so_handles h' w' /\ sdepth sp' = sdepth sp /\
                        frame (hp sp) (hp sp') (sd_foot root w) (sd_foot root w')).
Proof. exact so_q_remove_isolated_node_stored. Qed.
Print Assumptions C05_db_query_remove_isolated_node_preserves_stored_db.

(* ---- THE LINK TO THE VALIDATED QUERY SEMANTICS Queries.exec (theories/StoredDbOpsLink.v) ----
   The theorems above are stated against compositions of DbModel's functions; here the same programs are stated against
   `Queries.exec` — the query semantics compared with the real database on generated histories (C09-C16 correspondence).
   The query shapes the storage-program correspondence (`hx_core ops`) executes:
     lq_insert_node l      = InsertNodes 1 (Single l) [] (Ids [])                        insert().nodes().values([l])
     lq_insert_values id l = InsertValues (Ids [QId id]) (Single l)                      insert().values([l]).ids(id)
     lq_insert_edge f t    = InsertEdges (Ids [QId f]) (Ids [QId t]) (Single []) false (Ids [])   insert().edges().from(f).to(t)
     lq_remove id          = Remove (Ids [QId id])                                       remove().ids(id)
   C05_db_exec_step_shapes: for these shapes `exec_mut_step rv d q` (every revision rv: no flag matters) IS the composition of
   DbModel functions the so_q_* theorems mention, with result count and element ids; C05_db_exec_commits: a successful
   mutating `exec` = the step followed by commit (the undo stack, which stored_db does not look at, is cleared).
   C05_db_exec_*_preserves_stored_db: the program ends in a store that HOLDS `fst (exec rv d q)` and returns the id / count
   `snd (exec rv d q)` reports (qres_ids: result count and the ids of the result's elements). *)
From Agdb Require Import StoredDbOpsLink.

Theorem C05_db_exec_commits :
  forall rv d q d1 n els,
    is_mutating q = true -> exec_mut_step rv d q = StOk d1 (n, els) ->
    Queries.exec rv d q = (DbModel.commit d1, QOk n els).
Proof. exact exec_of_step. Qed.
Print Assumptions C05_db_exec_commits.

Theorem C05_db_exec_step_shapes :
  forall rv d,
    (forall l, let id := fst (insert_node_db d) in
               let d1 := mq_insert_key_values (reserve_kv (snd (insert_node_db d)) id) id l in
               exec_mut_step rv d (lq_insert_node l) = StOk d1 (1%Z, [elem d1 id []])) /\
    (forall id l, graph_index (gr d) id = true ->
               exec_mut_step rv d (lq_insert_values id l) =
               StOk (mq_insert_or_replace_key_values (reserve_kv d id) id l) (Queries.lenZ l, [])) /\
    (forall f t e d1, graph_index (gr d) f = true -> graph_index (gr d) t = true ->
               insert_edge_db d f t = DbModel.ROk (e, d1) ->
               exec_mut_step rv d (lq_insert_edge f t) = StOk (reserve_kv d1 e) (1%Z, [elem (reserve_kv d1 e) e []])) /\
    (forall e G', (e < 0)%Z -> is_edge (gr d) e = true -> Graph.remove_edge (gr d) e = Some G' ->
               exec_mut_step rv d (lq_remove e) = StOk (remove_all_values (fst (remove_edge_db d e)) e) (1%Z, [])) /\
    (forall n, (0 < n)%Z -> is_node (gr d) n = true -> imap_key (aliases d) n = None ->
               snd (remove_node_db d n None) = None ->
               exec_mut_step rv d (lq_remove n) = StOk (remove_all_values (fst (remove_node_db d n None)) n) (1%Z, [])).
Proof. exact step_shapes. Qed.
Print Assumptions C05_db_exec_step_shapes.

(* insert().edges().from(f).to(t) as a storage program (so_q_insert_edge: insert_edge, reserve_key_value_capacity(e, 0) inside
   one storage transaction): stored, computing DbModel's insert_edge_db followed by reserve_kv; an invalid endpoint: None,
   the database as before *)
Theorem C05_db_query_insert_edge_preserves_stored_db :
  forall (fl : bool) root d w h f t sp,
    stored_db_w (hp sp) root d w -> so_handles h w -> so_graph_ok (gr d) ->
    (insert_edge (gr d) f t <> None -> so_edge_ok (gr d) f t) ->
    (forall e d1, insert_edge_db d f t = DbModel.ROk (e, d1) -> so_index_ok (cg_as_u64 e)) ->
    cwp fl (so_q_insert_edge h f t) sp
        (fun r sp' =>
           match insert_edge_db d f t with
           | DbModel.ROk (e, d1) =>
             exists h' w', r = CrOk (h', Some e) /\ stored_db_w (hp sp') root (reserve_kv d1 e) w' /\ so_handles h' w' /\
                           sdepth sp' = sdepth sp /\ frame (hp sp) (hp sp') (sd_foot root w) (sd_foot root w')
           | DbModel.RErr _ =>
             r = CrOk (h, None) /\ stored_db_w (hp sp') root d w /\ sdepth sp' = sdepth sp /\
             frame (hp sp) (hp sp') (sd_foot root w) (sd_foot root w)
           end).
Proof. exact so_q_insert_edge_stored. Qed.
Print Assumptions C05_db_query_insert_edge_preserves_stored_db.

Theorem C05_db_exec_insert_node_preserves_stored_db :
  forall (fl : bool) rv root d w h l sp,
    stored_db_w (hp sp) root d w -> so_handles h w -> so_graph_ok (gr d) ->
    let id := fst (insert_node_db d) in
    so_index_ok (cg_as_u64 id) -> so_kvs_ok (reserve_kv (snd (insert_node_db d)) id) id l ->
    let q := InsertNodes 1 (Single l) [] (Ids []) in
    cwp fl (so_q_insert_node h l) sp
        (fun r sp' => exists h' w', r = CrOk (h', id) /\ qres_ids (snd (Queries.exec rv d q)) = Some (1%Z, [id]) /\
                        stored_db_w (hp sp') root (fst (Queries.exec rv d q)) w' /\ so_handles h' w' /\
                        sdepth sp' = sdepth sp /\ frame (hp sp) (hp sp') (sd_foot root w) (sd_foot root w')).
Proof. exact so_exec_insert_node_stored. Qed.
Print Assumptions C05_db_exec_insert_node_preserves_stored_db.

Theorem C05_db_exec_insert_values_preserves_stored_db :
  forall (fl : bool) rv root d w h id l sp,
    stored_db_w (hp sp) root d w -> so_handles h w -> graph_index (gr d) id = true ->
    so_index_ok (cg_as_u64 id) -> so_iors_ok (reserve_kv d id) id l ->
    let q := InsertValues (Ids [QId id]) (Single l) in
    cwp fl (so_q_insert_values h id l) sp
        (fun r sp' => exists h' w', r = CrOk h' /\ qres_ids (snd (Queries.exec rv d q)) = Some (Queries.lenZ l, []) /\
                        stored_db_w (hp sp') root (fst (Queries.exec rv d q)) w' /\ so_handles h' w' /\
                        sdepth sp' = sdepth sp /\ frame (hp sp) (hp sp') (sd_foot root w) (sd_foot root w')).
Proof. exact so_exec_insert_values_stored. Qed.
Print Assumptions C05_db_exec_insert_values_preserves_stored_db.

Theorem C05_db_exec_insert_edge_preserves_stored_db :
  forall (fl : bool) rv root d w h f t sp,
    stored_db_w (hp sp) root d w -> so_handles h w -> so_graph_ok (gr d) ->
    is_node (gr d) f = true -> is_node (gr d) t = true -> (0 < f)%Z -> (0 < t)%Z ->
    so_edge_ok (gr d) f t ->
    let e := (- fst (get_free_index (gr d)))%Z in
    so_index_ok (cg_as_u64 e) ->
    let q := InsertEdges (Ids [QId f]) (Ids [QId t]) (Single []) false (Ids []) in
    cwp fl (so_q_insert_edge h f t) sp
        (fun r sp' => exists h' w', r = CrOk (h', Some e) /\ qres_ids (snd (Queries.exec rv d q)) = Some (1%Z, [e]) /\
                        stored_db_w (hp sp') root (fst (Queries.exec rv d q)) w' /\ so_handles h' w' /\
                        sdepth sp' = sdepth sp /\ frame (hp sp) (hp sp') (sd_foot root w) (sd_foot root w')).
Proof. exact so_exec_insert_edge_stored. Qed.
Print Assumptions C05_db_exec_insert_edge_preserves_stored_db.

(* the REJECTED edge insertion: an endpoint (a positive id: a slot beyond the capacity, a removed slot, the slot of an edge) that
   is not a node, on a database at rest (empty undo stack): exec fails (no ids) and returns d itself; the program returns
   None and the store holds d with the SAME witness *)
Theorem C05_db_exec_insert_edge_rejected_preserves_stored_db :
  forall (fl : bool) rv root d w h f t sp,
    stored_db_w (hp sp) root d w -> so_handles h w -> so_graph_ok (gr d) ->
    (0 < f)%Z -> (0 < t)%Z -> is_node (gr d) f && is_node (gr d) t = false -> undo d = [] ->
    let q := InsertEdges (Ids [QId f]) (Ids [QId t]) (Single []) false (Ids []) in
    cwp fl (so_q_insert_edge h f t) sp
        (fun r sp' => r = CrOk (h, None) /\ qres_ids (snd (Queries.exec rv d q)) = None /\
                      fst (Queries.exec rv d q) = d /\
                      stored_db_w (hp sp') root d w /\ sdepth sp' = sdepth sp /\
                      frame (hp sp) (hp sp') (sd_foot root w) (sd_foot root w)).
Proof. exact so_exec_insert_edge_rejected_stored. Qed.
Print Assumptions C05_db_exec_insert_edge_rejected_preserves_stored_db.

Theorem C05_db_exec_remove_edge_preserves_stored_db :
  forall (fl : bool) rv root d w h e sp,
    stored_db_w (hp sp) root d w -> so_handles h w -> (e < 0)%Z -> is_edge (gr d) e = true ->
    so_graph_ok (gr d) -> so_remove_edge_ok (gr d) e ->
    so_slot_valid (sw_vi w) (zabs_nat e) ->
    (forall x, In x (kvs_get (vals d) e) -> idx_find (indexes d) (fst x) = None) ->
    let q := Remove (Ids [QId e]) in
    cwp fl (so_q_remove h e) sp
        (fun r sp' => exists h' w', r = CrOk h' /\ qres_ids (snd (Queries.exec rv d q)) = Some (1%Z, []) /\
                        stored_db_w (hp sp') root (fst (Queries.exec rv d q)) w' /\ so_handles h' w' /\
                        sdepth sp' = sdepth sp /\ frame (hp sp) (hp sp') (sd_foot root w) (sd_foot root w')).
Proof. exact so_exec_remove_edge_stored. Qed.
Print Assumptions C05_db_exec_remove_edge_preserves_stored_db.

Theorem C05_db_exec_remove_isolated_node_preserves_stored_db :
  forall (fl : bool) rv root d w h n sp,
    stored_db_w (hp sp) root d w -> so_handles h w -> (0 < n)%Z ->
    so_graph_ok (gr d) -> is_node (gr d) n = true -> imap_key (aliases d) n = None ->
    from (gr d) n = 0%Z -> to (gr d) n = 0%Z -> (1 <= tmeta (gr d) 0)%Z ->
    so_slot_valid (sw_vi w) (zabs_nat n) ->
    (forall x, In x (kvs_get (vals d) n) -> idx_find (indexes d) (fst x) = None) ->
    let q := Remove (Ids [QId n]) in
    cwp fl (so_q_remove h n) sp
        (fun r sp' => exists h' w', r = CrOk h' /\ qres_ids (snd (Queries.exec rv d q)) = Some (1%Z, []) /\
                        stored_db_w (hp sp') root (fst (Queries.exec rv d q)) w' /\ so_handles h' w' /\
                        sdepth sp' = sdepth sp /\ frame (hp sp) (hp sp') (sd_foot root w) (sd_foot root w')).
Proof. exact so_exec_remove_isolated_node_stored. Qed.
Print Assumptions C05_db_exec_remove_isolated_node_preserves_stored_db.

(* ---- the graph side conditions FROM C08's well-formedness (theories/StoredDbOpsLinkWf.v) ----
   so_edge_ok (the two degree counters insert_edge increments stay i64 values) and so_remove_edge_ok (the edge, its source /
   target and every slot the two unlink walks visit are inside the arrays, the walks end within `capacity` rounds, the
   decremented counters stay i64 values) hold of every graph satisfying C08's wf (what every history of graph.rs operations
   from graph_new satisfies: C08_history_refines; a component of Inv) whose capacity is below 2^60; so do the index bounds of
   the ids insert_node / insert_edge hand out and of every existing id.  With C05_db_graph_side_condition_from_wf nothing
   about the graph is assumed any more beyond wf and the capacity bound. *)
From Agdb Require Import StoredDbOpsLinkWf.

Theorem C05_db_edge_side_conditions_from_wf :
  forall g, GraphSim.wf g -> (Graph.capacity g < 1152921504606846976)%Z ->
    (forall f t, (0 < f)%Z -> (0 < t)%Z -> is_node g f = true -> is_node g t = true -> so_edge_ok g f t) /\
    (forall e, (e < 0)%Z -> so_remove_edge_ok g e) /\
    so_index_ok (cg_as_u64 (fst (insert_node g))) /\ so_index_ok (cg_as_u64 (- fst (get_free_index g))) /\
    (forall id, graph_index g id = true -> so_index_ok (cg_as_u64 id)).
Proof. exact wf_edge_side_conditions. Qed.
Print Assumptions C05_db_edge_side_conditions_from_wf.

(* ---- COVERED QUERIES from the invariant, and their histories (theories/StoredDbOpsLinkHist.v) ----
   so_cq = the covered query shapes: CqInsertNode l (insert().nodes().values([l])), CqInsertValues id l
   (insert().values([l]).ids(id)), CqInsertEdge f t (insert().edges().from(f).to(t)), CqRemove id (remove().ids(id));
   cq_query = the query of Queries.v, cq_run = the storage program (returning the id of the element it created).
   so_covered d c (every clause a decidable statement about d and c alone):
     capacity (gr d) < 2^60;
     CqInsertNode l      so_kvs_ok: at each pair the key is not indexed (idx_find = None), the pair is valid (el_valid law_dbkv:
                         i64 range, valid UTF-8, lengths < 2^60), the element's vector stays below 2^64 bytes
     CqInsertValues id l graph_index (gr d) id = true; so_iors_ok: the same, and a replaced pair's key is not indexed either
     CqInsertEdge f t    f, t > 0, both existing nodes — or (the rejected insertion the correspondence also runs) one of them
                         not a node and the undo stack empty: the query fails, the program writes nothing and returns None
     CqRemove id         id an edge, or a node with from = to = 0 (no edges) and no alias; none of its keys indexed; AT LEAST
                         ONE PROPERTY (then the file provably holds its property vector: so_slot_valid; for an element without
                         properties that fact lives in the witness only and the theorems above do not expose it)
   C05_db_covered_query_preserves_stored_db: wf (gr d) and so_covered d c suffice — the program ends in a store holding
   `fst (exec rv d q)` and returns the id `snd (exec rv d q)` reports (cq_out).
   C05_db_covered_histories_preserve_stored_db_partial: for EVERY list l of queries each covered in the database it runs on
   (so_covered_all: so_covered, query_ok = no key twice in an insert list — the side condition of C09 / C13 —, capacity
   < 2^60 afterwards), from a stored database satisfying HInv (Inv, db_ok, empty undo stack: what every history from
   db_new satisfies, C13_history_invariant) the programs in sequence end in a store holding the fold of `exec rv_fixed`
   (cq_model; cq_model_fold), return the ids exec reports, and HInv holds again.
   _partial — NOT COVERED: aliases (insert nodes / values with aliases, insert / remove aliases, removal of an aliased node),
   indexes (insert / remove index, any indexed key), cascading removals (a node with edges), removal of an element without
   properties, multi-element queries (count > 1, several ids, search-selected ids, Multi values, each), failing queries
   (rollback), transactions of several queries, remove values. *)
From Agdb Require Import StoredDbOpsLinkHist StoredDbOpsLinkExample.
From Agdb Require HistoryAtomicProofs QueryInvProofs.

Theorem C05_db_covered_query_preserves_stored_db :
  forall (fl : bool) rv root d w h c sp,
    stored_db_w (hp sp) root d w -> so_handles h w -> GraphSim.wf (gr d) -> so_covered d c ->
    cwp fl (cq_run h c) sp
        (fun r sp' => exists h' w', r = CrOk (h', cq_out (snd (Queries.exec rv d (cq_query c)))) /\
                        stored_db_w (hp sp') root (fst (Queries.exec rv d (cq_query c))) w' /\ so_handles h' w' /\
                        sdepth sp' = sdepth sp /\ frame (hp sp) (hp sp') (sd_foot root w) (sd_foot root w')).
Proof. exact so_cq_stored. Qed.
Print Assumptions C05_db_covered_query_preserves_stored_db.

Theorem C05_db_covered_histories_preserve_stored_db_partial :
  forall (fl : bool) root l d w h sp,
    stored_db_w (hp sp) root d w -> so_handles h w -> HistoryAtomicProofs.HInv d -> so_covered_all rv_fixed d l ->
    cwp fl (cq_runs h l) sp
        (fun r sp' => exists h' w', r = CrOk (h', snd (cq_model rv_fixed d l)) /\
                        stored_db_w (hp sp') root (fst (cq_model rv_fixed d l)) w' /\ so_handles h' w' /\
                        HistoryAtomicProofs.HInv (fst (cq_model rv_fixed d l)) /\
                        sdepth sp' = sdepth sp /\ frame (hp sp) (hp sp') (sd_foot root w) (sd_foot root w')).
Proof. exact so_cqs_stored. Qed.
Print Assumptions C05_db_covered_histories_preserve_stored_db_partial.

Theorem C05_db_covered_model_is_exec_fold :
  forall rv l d, fst (cq_model rv d l) = fold_left (fun a c => fst (Queries.exec rv a (cq_query c))) l d.
Proof. exact cq_model_fold. Qed.
Print Assumptions C05_db_covered_model_is_exec_fold.

(* non-vacuity on the example database of C05_db_sample (nodes 1, 2, edge -3 from 1 to 2 with one property, an index on a
   key of node 1): its graph is well-formed, the removal of the edge -3 and the insertion of an edge from 2 to 1 are covered,
   so is the two-query history, and exec reports the new edge -4 *)
Example C05_db_sample_covered :
  GraphSim.wf (gr sx_db) /\ so_covered sx_db (CqRemove (-3)) /\ so_covered sx_db (CqInsertEdge 2 1) /\
  so_covered_all rv_fixed sx_db [CqInsertEdge 2 1; CqRemove (-3)] /\
  snd (cq_model rv_fixed sx_db [CqInsertEdge 2 1; CqRemove (-3)]) = [Some (-4)%Z; None].
Proof. exact sx_link_sample. Qed.
Print Assumptions C05_db_sample_covered.

(* the hypotheses of the history theorem hold TOGETHER of the example: sx_db is what four public queries build from db_new
   (insert nodes with an alias and two values; insert nodes; insert edges with a value; insert index — run_items), hence
   HInv sx_db (C13_history_invariant); it lies in the record map sx_g (C05_db_sample) with the witness sx_wit; and the history
   [insert edge 2 -> 1; remove edge -3] is covered *)
Example C05_db_sample_covered_history :
  HistoryAtomicProofs.run_items rv_fixed db_new sx_history = sx_db /\
  HistoryAtomicProofs.HInv sx_db /\ stored_db_w sx_g 1 sx_db sx_wit /\
  so_covered_all rv_fixed sx_db [CqInsertEdge 2 1; CqRemove (-3)].
Proof. exact (conj sx_reached sx_link_sample_hinv). Qed.
Print Assumptions C05_db_sample_covered_history.

(* a rejected insertion is covered too: 3 is the slot of the edge -3, not a node; exec fails and returns sx_db *)
Example C05_db_sample_covered_rejected :
  so_covered sx_db (CqInsertEdge 1 3) /\
  Queries.exec rv_fixed sx_db (cq_query (CqInsertEdge 1 3)) = (sx_db, QErr ENotFound).
Proof. exact sx_covered_rejected. Qed.
Print Assumptions C05_db_sample_covered_rejected.

(* so_covered is decidable: the boolean so_coveredb computes it (theories/StoredDbOpsLinkDec.v) *)
From Agdb Require Import StoredDbOpsLinkDec.
Theorem C05_db_covered_decidable :
  forall d c, so_coveredb d c = true <-> so_covered d c.
Proof. exact so_coveredb_iff. Qed.
Print Assumptions C05_db_covered_decidable.

(* the covered histories on the MODEL OF storage.rs (C04; file-like and memory-like back-ends; theories/
   StoredDbOpsLinkStorage.v): from any storage state refining a record map that holds d, so_open followed by the programs
   of the history either dies by a panic of the storage (a request beyond 2^64 bytes) or returns exec's ids in a storage
   state refining a record map that holds the fold of exec rv_fixed.  _partial as above. *)
From Agdb Require Import StoredDbOpsLinkStorage.
Theorem C05_db_covered_histories_on_storage_partial :
  forall (ops : store_ops cdata) (fl : bool), StorageProofs.kind ops fl ->
  forall s sp root d l, Rel s sp -> stored_db (hp sp) root d -> HistoryAtomicProofs.HInv d -> so_covered_all rv_fixed d l ->
    let r := cp_run (st_step cdata ops) (h <~ so_open root ;; cq_runs h l) s in
    snd r = CrDead \/
    exists sp' h' w w', Rel (fst r) sp' /\ snd r = CrOk (h', snd (cq_model rv_fixed d l)) /\
                        stored_db_w (hp sp) root d w /\ stored_db_w (hp sp') root (fst (cq_model rv_fixed d l)) w' /\
                        so_handles h' w' /\ HistoryAtomicProofs.HInv (fst (cq_model rv_fixed d l)) /\ sdepth sp' = sdepth sp /\
                        frame (hp sp) (hp sp') (sd_foot root w) (sd_foot root w').
Proof. exact so_covered_on_storage. Qed.
Print Assumptions C05_db_covered_histories_on_storage_partial.

(* C05 END TO END for covered histories (theories/StoredDbOpsLinkFinal.v): on the model of storage.rs, from a state (no
   transaction open) refining a record map that holds d (HInv d), run so_open and the programs of a covered history l, then
   a maintenance operation o (optimize_storage / drop + open / backup + open): unless the storage panics, the result is a
   state holding dN = the fold of exec rv_fixed over l, and the database LOADED from it (load_db: what DbImpl::open
   rebuilds) is dN up to sd_eqv and answers every order-independent read-only query (sd_query_ok) EXACTLY as dN does —
   "after any history of mutating queries, reopening / optimizing / backing up yields a database on which the queries
   return the same", for the covered histories.  _partial: as C05_db_covered_histories_preserve_stored_db_partial. *)
From Agdb Require Import StoredDbOpsLinkFinal.
Theorem C05_db_covered_histories_then_reopen_partial :
  forall (ops : store_ops cdata) (fl : bool), StorageProofs.kind ops fl ->
  forall rv s sp root d l o,
    Rel s sp -> sdepth sp = 0 -> stored_db (hp sp) root d -> HistoryAtomicProofs.HInv d -> so_covered_all rv_fixed d l ->
    cv_is_maint o = true ->
    let r := cp_run (st_step cdata ops) (h <~ so_open root ;; cq_runs h l) s in
    let dN := fst (cq_model rv_fixed d l) in
    snd r = CrDead \/
    snd (st_step cdata ops (fst r) o) = ObPanic \/
    exists h' sp2 d1,
      snd r = CrOk (h', snd (cq_model rv_fixed d l)) /\
      Rel (fst (st_step cdata ops (fst r) o)) sp2 /\ sdepth sp2 = 0 /\ stored_db (hp sp2) root dN /\
      load_db (sm sp2) root = Some d1 /\ sd_eqv dN d1 /\
      forall q, sd_query_ok q -> snd (Queries.exec rv d1 q) = snd (Queries.exec rv dN q).
Proof. exact so_covered_then_maintenance. Qed.
Print Assumptions C05_db_covered_histories_then_reopen_partial.

(* ---- COVERED HISTORIES WITHOUT THE PROPERTY RESTRICTION ON REMOVALS (theories/StoredDbOpsLinkKv.v, ..Slots.v, ..Hist2.v,
        ..Final2.v) ----
   The removal of an element WITHOUT properties needs to know that the element's property vector is allocated in the file
   (so_slot_valid: for a LAST slot holding 0 the code keeps the slot while DbModel pops the entry).  That fact is not a
   function of the database d — it is an invariant of the pair (d, witness):
     slots_ok d w   every existing element's slot of the DbKeyValues slot vector is <> 0
   (true of every file the real database writes: every public insertion reserves capacity for the element it creates).
   The DbKeyValues programs and the so_q programs are proved again with the slot vector visible (allocated slots stay
   allocated; insert_value / reserve_capacity / insert_or_replace leave the slot they work on allocated; remove frees the
   removed element's slot only), the set of elements changes by exactly the created / removed element (from C08's
   simulation), hence every covered query PRESERVES slots_ok:
   C05_db_covered2_query_preserves_stored_db: wf (gr d) + slots_ok d w + so_covered2 d c (as so_covered; a removal needs no
     property) => the program ends in a store holding fst (exec rv d q), with exec's id, and slots_ok again.
   C05_db_covered2_histories_preserve_stored_db_partial: every history of so_covered2 queries from a stored database with HInv
     and slots_ok: stored for the fold of exec rv_fixed, exec's ids, HInv and slots_ok again.
   C05_db_covered2_histories_then_reopen_partial: the same END TO END on the model of storage.rs (stored_db_slots g root d =
     exists w, stored_db_w g root d w /\ slots_ok d w): programs of the history, optimize_storage / drop + open / backup +
     open, load_db: the loaded database is the fold of exec up to sd_eqv and answers every sd_query_ok query as it does.
   _partial — NOT COVERED: aliases, indexes, cascading removals (a node with edges), multi-element queries, failing queries
   other than the rejected edge insertion, multi-query transactions, remove values / remove aliases / remove index. *)
From Agdb Require Import StoredDbOpsLinkKv StoredDbOpsLinkSlots StoredDbOpsLinkHist2 StoredDbOpsLinkFinal2 StoredDbOpsLinkDec2
  StoredDbOpsLinkExample2.

Theorem C05_db_covered2_query_preserves_stored_db :
  forall (fl : bool) rv root d w h c sp,
    stored_db_w (hp sp) root d w -> so_handles h w -> GraphSim.wf (gr d) -> slots_ok d w -> so_covered2 d c ->
    cwp fl (cq_run h c) sp
        (fun r sp' => exists h' w', r = CrOk (h', cq_out (snd (Queries.exec rv d (cq_query c)))) /\
                        stored_db_w (hp sp') root (fst (Queries.exec rv d (cq_query c))) w' /\ so_handles h' w' /\
                        slots_ok (fst (Queries.exec rv d (cq_query c))) w' /\
                        sdepth sp' = sdepth sp /\ frame (hp sp) (hp sp') (sd_foot root w) (sd_foot root w')).
Proof. exact so_cq_stored2. Qed.
Print Assumptions C05_db_covered2_query_preserves_stored_db.

Theorem C05_db_covered2_histories_preserve_stored_db_partial :
  forall (fl : bool) root l d w h sp,
    stored_db_w (hp sp) root d w -> so_handles h w -> HistoryAtomicProofs.HInv d -> slots_ok d w ->
    so_covered_all2 rv_fixed d l ->
    cwp fl (cq_runs h l) sp
        (fun r sp' => exists h' w', r = CrOk (h', snd (cq_model rv_fixed d l)) /\
                        stored_db_w (hp sp') root (fst (cq_model rv_fixed d l)) w' /\ so_handles h' w' /\
                        HistoryAtomicProofs.HInv (fst (cq_model rv_fixed d l)) /\ slots_ok (fst (cq_model rv_fixed d l)) w' /\
                        sdepth sp' = sdepth sp /\ frame (hp sp) (hp sp') (sd_foot root w) (sd_foot root w')).
Proof. exact so_cqs_stored2. Qed.
Print Assumptions C05_db_covered2_histories_preserve_stored_db_partial.

Theorem C05_db_covered2_histories_on_storage_partial :
  forall (ops : store_ops cdata) (fl : bool), StorageProofs.kind ops fl ->
  forall s sp root d l, Rel s sp -> stored_db_slots (hp sp) root d -> HistoryAtomicProofs.HInv d -> so_covered_all2 rv_fixed d l ->
    let r := cp_run (st_step cdata ops) (h <~ so_open root ;; cq_runs h l) s in
    snd r = CrDead \/
    exists sp' h', Rel (fst r) sp' /\ snd r = CrOk (h', snd (cq_model rv_fixed d l)) /\
                   stored_db_slots (hp sp') root (fst (cq_model rv_fixed d l)) /\
                   HistoryAtomicProofs.HInv (fst (cq_model rv_fixed d l)) /\ sdepth sp' = sdepth sp.
Proof. exact so_covered_on_storage2. Qed.
Print Assumptions C05_db_covered2_histories_on_storage_partial.

Theorem C05_db_covered2_histories_then_reopen_partial :
  forall (ops : store_ops cdata) (fl : bool), StorageProofs.kind ops fl ->
  forall rv s sp root d l o,
    Rel s sp -> sdepth sp = 0%N -> stored_db_slots (hp sp) root d -> HistoryAtomicProofs.HInv d -> so_covered_all2 rv_fixed d l ->
    cv_is_maint o = true ->
    let r := cp_run (st_step cdata ops) (h <~ so_open root ;; cq_runs h l) s in
    let dN := fst (cq_model rv_fixed d l) in
    snd r = CrDead \/
    snd (st_step cdata ops (fst r) o) = ObPanic \/
    exists h' sp2 d1,
      snd r = CrOk (h', snd (cq_model rv_fixed d l)) /\
      Rel (fst (st_step cdata ops (fst r) o)) sp2 /\ sdepth sp2 = 0%N /\ stored_db (hp sp2) root dN /\
      load_db (sm sp2) root = Some d1 /\ sd_eqv dN d1 /\
      forall q, sd_query_ok q -> snd (Queries.exec rv d1 q) = snd (Queries.exec rv dN q).
Proof. exact so_covered_then_maintenance2. Qed.
Print Assumptions C05_db_covered2_histories_then_reopen_partial.

Theorem C05_db_covered2_decidable :
  forall d c, (so_coveredb2 d c = true <-> so_covered2 d c) /\ (so_covered d c -> so_covered2 d c).
Proof. exact (fun d c => conj (so_coveredb2_iff d c) (so_covered_covered2 d c)). Qed.
Print Assumptions C05_db_covered2_decidable.

(* non-vacuity.  In the HAND-BUILT example file node 2 has no property vector (slot 0): slots_ok fails there — no file written
   by the real database looks like that.  Running `insert values [] ids 2` on it (so_open; so_q_insert_values on the model
   of storage.rs, every answer replayed on the abstract record map) allocates the vector and changes nothing else: the
   record map reached HOLDS sx_db with slots_ok; sx_db satisfies HInv; and the history [insert edge 2 -> 1; remove that edge
   (-4, which has no property)] is covered *)
Example C05_db_sample_covered2_history :
  exists sp w, stored_db_w (hp sp) 1 sx_db w /\ slots_ok sx_db w /\ HistoryAtomicProofs.HInv sx_db /\
               so_covered_all2 rv_fixed sx_db [CqInsertEdge 2 1; CqRemove (-4)] /\
               kvs_get (vals (fst (Queries.exec rv_fixed sx_db (cq_query (CqInsertEdge 2 1))))) (-4) = [].
Proof. exact sz_sample. Qed.
Print Assumptions C05_db_sample_covered2_history.

(* ---- ALIASES: DbImpl::insert_new_alias as a storage program (theories/StoredDbOpsAlias.v, ..Alias2.v, ..Alias3.v) ----
   so_alias_insert_new hs hi x a id alias = DbImpl::insert_new_alias(db_id, alias): the undo push is in memory;
   self.aliases.insert = IndexedMapImpl::insert = keys_to_values.insert(alias, id) then values_to_keys.insert(id, alias),
   each MapImpl::insert = MultiMapImpl::insert_or_replace(|_| true): transaction; the probe loop from hash % capacity over
   data.state / data.key (on fuel = capacity: running out of it is CDead, which the theorem excludes); do_insert =
   set_state(Valid), set_key, set_value, set_len(len + 1); commit.  a = the two DbMapData handles (so_alias_handles: those
   of the witness).
   _partial — ASSUMED / NOT MODELLED:
     * the branches that are not executed under the hypotheses are PARAMETERS of the program (x : so_alias_rest; the theorem
       holds for every x): the grow `len >= max_len => rehash(capacity * 2)`, the in-place rehash after a full probe cycle,
       and the removals IndexedMapImpl::insert performs when an insertion replaced a previous value / key;
     * so_alias_tables_ok: C19's invariant PInv of the two STORED tables (what every history of multi_map.rs operations from
       the empty table satisfies — C19_table_refines_multimap; it is an explicit hypothesis here, and it is RE-ESTABLISHED
       for the new tables), for hash functions hs / hi (every function) and a minimum capacity >= 4 (64 in the code);
     * the alias is NEW (imap_value = None) and the id has NO alias (imap_key = None) — the situation in which db.rs
       calls insert_new_alias after its own lookups;
     * so_alias_new_ok: neither table grows (len < capacity * 15 / 16 — in particular the tables are not empty: the first
       insertion into an empty table always grows), neither probe comes back to its start (stated on OpenMap.v's ior_loop
       at the revision with the wrap guard: no in-place rehash), the alias / the id are valid elements (el_valid
       law_string / law_i64), len + 1 < 2^64.
   Conclusion: the store holds DbModel's insert_new_alias d id alias, the witness changed in the two alias components only
   (the graph / values handles stay valid), both tables satisfy PInv again, depth restored, frame. *)
From Agdb Require Import StoredDbOpsAlias StoredDbOpsAlias2 StoredDbOpsAlias3.

Theorem C05_db_insert_new_alias_preserves_stored_db_partial :
  forall (hs : bytes -> N) (hi : Z -> N) (mincap : nat), (4 <= mincap)%nat ->
  forall (fl : bool) x root d w h a id alias sp,
    stored_db_w (hp sp) root d w -> so_handles h w -> so_alias_handles a w -> so_alias_tables_ok hs hi mincap w ->
    imap_value (aliases d) alias = None -> imap_key (aliases d) id = None ->
    so_alias_new_ok hs hi w id alias ->
    cwp fl (so_alias_insert_new hs hi x a id alias) sp
        (fun r sp' => exists a' w', r = CrOk a' /\ stored_db_w (hp sp') root (insert_new_alias d id alias) w' /\
                        so_handles h w' /\ so_alias_handles a' w' /\ so_alias_tables_ok hs hi mincap w' /\
                        (exists m1 m2, w' = sd_with_a2 (sd_with_a1 w m1) m2) /\
                        sdepth sp' = sdepth sp /\ frame (hp sp) (hp sp') (sd_foot root w) (sd_foot root w')).
Proof. exact so_alias_insert_new_stored. Qed.
Print Assumptions C05_db_insert_new_alias_preserves_stored_db_partial.

(* the generic step: MapImpl::insert of an ABSENT key on ANY represented DbMapData (also the id tables of the indexes), no grow
   and no full probe cycle: the table the program leaves is the one OpenMap.v's insert_or_replace computes — PInv again, the
   pairs are (key, value) :: the old ones as a multiset *)
Theorem C05_map_insert_absent_partial :
  forall (K V : Type) (EK : cv_elem K) (EV : cv_elem V) (LK : elem_law EK) (LV : elem_law EV)
         (keqb : K -> K -> bool) (veqb : V -> V -> bool) (hk : K -> N) (mincap : nat) (fl : bool),
    (forall a b, keqb a b = true <-> a = b) -> (forall a b, veqb a b = true <-> a = b) -> (4 <= mincap)%nat ->
  forall x d ss ks vs t key nv sp,
    mrep K V EK EV LK LV (hp sp) d ss ks vs t -> OpenMapRefineStep.PInv K V hk mincap (ct_omap K V t) ->
    so_key_absent K V keqb (ct_slots K V (ct_states t) (ct_keys t) (ct_values t)) key ->
    so_no_grow K V t -> so_no_full_cycle K V keqb hk t key nv ->
    el_valid LK key -> el_valid LV nv -> (ct_len t + 1 < two64)%N ->
    cwp fl (so_map_insert K V EK EV keqb hk x d key nv) sp
        (fun r sp' => exists d' ss' ks' vs' t',
           r = CrOk (d', None) /\ mrep K V EK EV LK LV (hp sp') d' ss' ks' vs' t' /\ cm_index d' = cm_index d /\
           OpenMapRefineStep.PInv K V hk mincap (ct_omap K V t') /\
           Permutation (sd_table_entries t') ((key, nv) :: sd_table_entries t) /\
           sdepth sp' = sdepth sp /\
           frame (hp sp) (hp sp') (mfoot K V EK EV LK LV d ss ks vs) (mfoot K V EK EV LK LV d' ss' ks' vs')).
Proof.
  intros K V EK EV LK LV keqb veqb hk mincap fl E1 E2 Hm x d ss ks vs t key nv sp HM HP Ha Hg Hf VK VV HL.
  eapply (so_map_insert_absent K V EK EV LK LV keqb veqb hk mincap fl E1 E2 Hm); eauto.
  intros d' ss' ks' vs' t' sp' A B C D E F. exists d', ss', ks', vs', t'. auto 10.
Qed.
Print Assumptions C05_map_insert_absent_partial.

(* non-vacuity (theories/StoredDbOpsAliasExample.v).  The alias tables of the HAND-BUILT example file have capacity 2: below the
   minimum capacity of C19's invariant and full, an insertion would grow them.  Resizing both to capacity 4 (DbMapData::resize
   run on the model of storage.rs, every answer replayed on the abstract record map) gives a record map that HOLDS THE SAME
   database sx_db; for the hash functions sa_hs = (fun _ => 1), sa_hi = (fun _ => 0) and minimum capacity 4 all hypotheses of
   C05_db_insert_new_alias_preserves_stored_db_partial hold TOGETHER for the new alias sa_new = "k" and the id 2 *)
From Agdb Require Import StoredDbOpsAliasExample.
Example C05_db_sample_insert_new_alias :
  exists sp w h a,
    stored_db_w (hp sp) 1 sx_db w /\ so_handles h w /\ so_alias_handles a w /\ so_alias_tables_ok sa_hs sa_hi 4 w /\
    imap_value (aliases sx_db) sa_new = None /\ imap_key (aliases sx_db) 2%Z = None /\
    so_alias_new_ok sa_hs sa_hi w 2%Z sa_new.
Proof. exact sa_sample. Qed.
Print Assumptions C05_db_sample_insert_new_alias.

(* ... and the program RUNS (theories/StoredDbOpsAliasExample2.v): sb_prog = the two resizes, then so_alias_insert_new for the id 2
   and the alias "k" with EVERY unmodelled branch instantiated by CDead (entering one would kill the run).  On the file-like
   model of storage.rs the run ends (so_replay) and the record map it reaches holds insert_new_alias sx_db 2 "k": "k" names
   node 2, node 2 has the alias "k", the old alias still names node 1 *)
From Agdb Require Import StoredDbOpsAliasExample2.
Example C05_db_sample_insert_new_alias_run :
  exists sp w, stored_db_w (hp sp) 1 (insert_new_alias sx_db 2%Z sa_new) w /\
               imap_value (aliases (insert_new_alias sx_db 2%Z sa_new)) sa_new = Some 2%Z /\
               imap_key (aliases (insert_new_alias sx_db 2%Z sa_new)) 2%Z = Some sa_new /\
               imap_value (aliases (insert_new_alias sx_db 2%Z sa_new)) sx_alias = Some 1%Z.
Proof. exact sb_sample. Qed.
Print Assumptions C05_db_sample_insert_new_alias_run.

(* ---- insert_new_alias with the CODE's grow and in-place rehash (theories/StoredDbOpsAlias4.v .. Alias8.v) ----
   so_rehash_loop / so_rehash_values = MultiMapImpl::rehash_values (state(i); Deleted below the new capacity -> set_state Empty;
   Valid not yet placed -> key(i), probe the in-memory occupancy bits from hash % new_capacity, swap(i, pos)), proved against
   OpenMap.v's rehash_loop (so_rehash_loop_spec: the table left has exactly the model's slot list); so_map_rip =
   rehash_in_place; so_map_rehash / so_map_grow = rehash(capacity * 2) = DbMapData::resize(max(2 * capacity, 64)) then
   rehash_values; so_map_code = these two as the so_map_rest of the code.
   C05_map_insert_absent_any_fill_partial: MapImpl::insert of an absent key with so_map_code on ANY represented DbMapData that
     satisfies C19's invariant (minimum capacity 64) — empty (capacity 0: grows to 64), full (grows to twice the capacity), or
     without an Empty slot (full probe cycle: inserts at the first Deleted slot and rehashes in place): the table left is the
     one OpenMap.v's insert_or_replace computes (PInv again, pairs = (key, value) :: old pairs as a multiset).
   C05_db_insert_new_alias_any_fill_preserves_stored_db_partial: so_alias_insert_new with so_alias_code (the code's grow /
     rehash for both tables) keeps the database stored, for ANY fill of the two alias tables.
   _partial — STILL ASSUMED: so_alias_tables_ok (PInv of the two stored tables, explicit hypothesis, re-established); the alias
   is new and the id has no alias (then the two removals of IndexedMapImpl::insert are not executed: they stay parameters rm1,
   rm2); the elements are valid, len + 1 < 2^64, and a table that grows keeps its three vectors below 2^64 bytes
   (so_alias_new_ok2 / so_grow_ok); hash functions: every function. *)
From Agdb Require Import StoredDbOpsAlias4 StoredDbOpsAlias5 StoredDbOpsAlias6 StoredDbOpsAlias7 StoredDbOpsAlias8.

Theorem C05_map_insert_absent_any_fill_partial :
  forall (K V : Type) (EK : cv_elem K) (EV : cv_elem V) (LK : elem_law EK) (LV : elem_law EV)
         (keqb : K -> K -> bool) (veqb : V -> V -> bool) (hk : K -> N) (kdef : K) (vdef : V) (fl : bool),
    (forall a b, keqb a b = true <-> a = b) -> (forall a b, veqb a b = true <-> a = b) ->
    el_valid LK kdef -> el_valid LV vdef ->
  forall d ss ks vs t key nv sp,
    mrep K V EK EV LK LV (hp sp) d ss ks vs t -> OpenMapRefineStep.PInv K V hk 64 (ct_omap K V t) ->
    so_key_absent K V keqb (ct_slots K V (ct_states t) (ct_keys t) (ct_values t)) key ->
    el_valid LK key -> el_valid LV nv -> (ct_len t + 1 < two64)%N ->
    ((so_max_len (lenN (ct_states t)) <= ct_len t)%N -> so_grow_ok K V EK EV t) ->
    cwp fl (so_map_insert K V EK EV keqb hk (so_map_code K V EK EV hk kdef vdef) d key nv) sp
        (fun r sp' => exists d' ss' ks' vs' t',
           r = CrOk (d', None) /\ mrep K V EK EV LK LV (hp sp') d' ss' ks' vs' t' /\ cm_index d' = cm_index d /\
           OpenMapRefineStep.PInv K V hk 64 (ct_omap K V t') /\
           Permutation (sd_table_entries t') ((key, nv) :: sd_table_entries t) /\
           sdepth sp' = sdepth sp /\
           frame (hp sp) (hp sp') (mfoot K V EK EV LK LV d ss ks vs) (mfoot K V EK EV LK LV d' ss' ks' vs')).
Proof.
  intros K V EK EV LK LV keqb veqb hk kdef vdef fl E1 E2 D1 D2 d ss ks vs t key nv sp HM HP Ha VK VV HL HG.
  eapply (so_map_insert_absent_full K V EK EV LK LV keqb veqb hk kdef vdef fl E1 E2 D1 D2); eauto.
  intros d' ss' ks' vs' t' sp' A B C D E F. exists d', ss', ks', vs', t'. auto 10.
Qed.
Print Assumptions C05_map_insert_absent_any_fill_partial.

Theorem C05_db_insert_new_alias_any_fill_preserves_stored_db_partial :
  forall (hs : bytes -> N) (hi : Z -> N) (fl : bool) rm1 rm2 root d w h a id alias sp,
    stored_db_w (hp sp) root d w -> so_handles h w -> so_alias_handles a w -> so_alias_tables_ok hs hi 64 w ->
    imap_value (aliases d) alias = None -> imap_key (aliases d) id = None ->
    so_alias_new_ok2 w id alias ->
    cwp fl (so_alias_insert_new hs hi (so_alias_code hs hi rm1 rm2) a id alias) sp
        (fun r sp' => exists a' w', r = CrOk a' /\ stored_db_w (hp sp') root (insert_new_alias d id alias) w' /\
                        so_handles h w' /\ so_alias_handles a' w' /\ so_alias_tables_ok hs hi 64 w' /\
                        (exists m1 m2, w' = sd_with_a2 (sd_with_a1 w m1) m2) /\
                        sdepth sp' = sdepth sp /\ frame (hp sp) (hp sp') (sd_foot root w) (sd_foot root w')).
Proof. exact so_alias_insert_new_stored_full. Qed.
Print Assumptions C05_db_insert_new_alias_any_fill_preserves_stored_db_partial.

(* non-vacuity of the GROW path (theories/StoredDbOpsAliasExample3.v): sg_prog = DbMapData::new (an EMPTY table, capacity 0: what
   the alias tables of a new database are), then MapImpl::insert("k", 2) with so_map_code.  The run on the file-like model of
   storage.rs from the initial state ENDS (the table is resized to 64 slots, rehashed, the pair inserted) and the record map
   it reaches represents a table that satisfies C19's invariant with minimum capacity 64, has at least 64 slots and holds
   exactly the pair ("k", 2) *)
From Agdb Require Import StoredDbOpsAliasExample3.
Example C05_map_sample_insert_into_empty_grows :
  exists sp d ss ks vs t,
    mrep bytes Z ce_string ce_i64 law_string law_i64 (hp sp) d ss ks vs t /\
    OpenMapRefineStep.PInv bytes Z sa_hs 64 (ct_omap bytes Z t) /\ Permutation (sd_table_entries t) [(sa_new, 2%Z)] /\
    (64 <= lenN (ct_states t))%N.
Proof. exact sg_sample. Qed.
Print Assumptions C05_map_sample_insert_into_empty_grows.

(* the size side conditions from ONE bound (theories/StoredDbOpsAlias9.v): both alias tables have fewer than 2^56 slots
   (so_cap_bound); then len + 1 < 2^64 follows from PInv and the grown vectors fit.  What is left to assume: PInv of the two
   stored tables, the alias is new, the id has no alias, the alias is a valid String element (valid UTF-8, 8 + length < 2^64),
   the id an i64 *)
From Agdb Require Import StoredDbOpsAlias9.
Theorem C05_db_insert_new_alias_bounded_preserves_stored_db_partial :
  forall (hs : bytes -> N) (hi : Z -> N) (fl : bool) rm1 rm2 root d w h a id alias sp,
    stored_db_w (hp sp) root d w -> so_handles h w -> so_alias_handles a w -> so_alias_tables_ok hs hi 64 w ->
    imap_value (aliases d) alias = None -> imap_key (aliases d) id = None ->
    (lenN (ct_states (mw_t (sw_a1 w))) < so_cap_bound)%N -> (lenN (ct_states (mw_t (sw_a2 w))) < so_cap_bound)%N ->
    el_valid law_string alias -> el_valid law_i64 id ->
    cwp fl (so_alias_insert_new hs hi (so_alias_code hs hi rm1 rm2) a id alias) sp
        (fun r sp' => exists a' w', r = CrOk a' /\ stored_db_w (hp sp') root (insert_new_alias d id alias) w' /\
                        so_handles h w' /\ so_alias_handles a' w' /\ so_alias_tables_ok hs hi 64 w' /\
                        (exists m1 m2, w' = sd_with_a2 (sd_with_a1 w m1) m2) /\
                        sdepth sp' = sdepth sp /\ frame (hp sp) (hp sp') (sd_foot root w) (sd_foot root w')).
Proof. exact so_alias_insert_new_stored_caps. Qed.
Print Assumptions C05_db_insert_new_alias_bounded_preserves_stored_db_partial.
