(* C05 — Reopening and maintenance operations preserve the database.
   Pinned statements only; proofs live in theories/Storage*.v (storage layer) and theories/FileWalProofs.v.

   FULL STATEMENT: after any history of queries, closing and reopening, optimizing, shrinking to fit, backing up,
   copying, renaming, or reopening the file with a different file-backed variant yields a database on which every
   query returns exactly the same result as before (ids, result order, properties, aliases, indexes).
   PROVED PART (storage layer, L1): on every reachable storage state (`tiles s rg`: the file is tiled by the
   regions rg) backup + open, drop + open of a committed file and optimize_storage preserve the map
   index |-> bytes of live records EXACTLY (optimize only drops the free regions), and the byte-level reopen of a
   cleanly closed file is the identity (C01 with an empty log).  The collections above (vectors, maps, graph,
   indexes) and DbImpl keep NO state of their own between operations except cached lengths/capacities reloaded
   from those records, so equal records give equal query results: that step is NOT proved as a theorem (it
   would be a verified L2/L3 stack); it is checked on every run by executing each maintenance operation at random
   points of generated histories on DbFile, Db and the DbAny kinds and comparing the full ORDERED dump plus a
   fixed battery of searches (result order included) before and after, and by continuing the history on the
   maintained database side by side with the in-memory one. *)
From Agdb Require Import FileWal FileWalProofs.
From Agdb Require Import Bytes Records RecordsProofs RecordsTableProofs Storage StorageSpec
  StorageLayout StorageWp StorageOps StorageOps2 StorageRefine StorageReopen StorageOptimize StorageProofs StorageSim.
Open Scope N_scope.

Theorem C05_storage_maintenance_partial :
  forall ops, canon ops -> forall s rg, tiles s rg ->
  (* backup + open *)
  (snd (reopen_copy cdata ops s) = ROk tt /\ tiles (fst (reopen_copy cdata ops s)) rg) /\
  (* drop + open *)
  (tx s = 0 -> dur (sdata s) = cur (sdata s) ->
   snd (reopen cdata ops s) = ROk tt /\ tiles (fst (reopen cdata ops s)) rg) /\
  (* optimize *)
  (snd (optimize_storage cdata ops s) = RPanic \/
   (snd (optimize_storage cdata ops s) = ROk tt /\ tiles (fst (optimize_storage cdata ops s)) (lmap rg) /\
    forall j, j <> 0 -> m_get (lmap rg) j = m_get rg j)).
Proof. exact storage_maintenance. Qed.
Print Assumptions C05_storage_maintenance_partial.

(* the byte level: opening a cleanly closed file (empty recovery log) changes nothing *)
Theorem C05_clean_reopen_identity :
  forall d : bytes, FileWal.recover walrev_fixed {| FileWal.data := d; FileWal.wal := [] |} = {| FileWal.data := d; FileWal.wal := [] |}.
Proof. intros d. reflexivity. Qed.
Print Assumptions C05_clean_reopen_identity.

(* ... also with the position guard of apply_wal_record (recover_g; None = error) *)
Theorem C05_clean_reopen_identity_guarded :
  forall d : bytes, FileWal.recover_g walrev_fixed {| FileWal.data := d; FileWal.wal := [] |} = Some {| FileWal.data := d; FileWal.wal := [] |}.
Proof. intros d. reflexivity. Qed.
Print Assumptions C05_clean_reopen_identity_guarded.
