(* C05 — Reopening and maintenance operations preserve the database.
   Pinned statements only; proofs live in theories/Storage*.v (storage layer) and theories/FileWalProofs.v.

   FULL STATEMENT: after any history of queries, closing and reopening, optimizing, shrinking to fit, backing up,
   copying, renaming, or reopening the file with a different file-backed variant yields a database on which every
   query returns exactly the same result as before (ids, result order, properties, aliases, indexes).
   PROVED PART (storage layer, L1): on every reachable storage state (`tiles s rg`: the file is tiled by the
   regions rg) backup + open, drop + open of a committed file and optimize_storage preserve the map
   index |-> bytes of live records EXACTLY (optimize only drops the free regions), and the byte-level reopen of a
   cleanly closed file is the identity (C01 with an empty log).  The collections above (vectors, maps, graph,
   indexes) and DbImpl keep NO state of their own between operations except cached lengths/capacities reloaded
   from those records, so equal records give equal query results: that step is NOT proved as a theorem (it
   would be a verified L2/L3 stack); it is checked on every run by executing each maintenance operation at random
   points of generated histories on DbFile, Db and the DbAny kinds and comparing the full ORDERED dump plus a
   fixed battery of searches (result order included) before and after, and by continuing the history on the
   maintained database side by side with the in-memory one. *)
From Agdb Require Import FileWal FileWalProofs.
From Agdb Require Import Bytes Records RecordsProofs RecordsTableProofs Storage StorageSpec
  StorageLayout StorageWp StorageOps StorageOps2 StorageRefine StorageReopen StorageOptimize StorageProofs StorageSim.
Open Scope N_scope.

Theorem C05_storage_maintenance_partial :
  forall ops, canon ops -> forall s rg, tiles s rg ->
  (* backup + open *)
  (snd (reopen_copy cdata ops s) = ROk tt /\ tiles (fst (reopen_copy cdata ops s)) rg) /\
  (* drop + open *)
  (tx s = 0 -> dur (sdata s) = cur (sdata s) ->
   snd (reopen cdata ops s) = ROk tt /\ tiles (fst (reopen cdata ops s)) rg) /\
  (* optimize *)
  (snd (optimize_storage cdata ops s) = RPanic \/
   (snd (optimize_storage cdata ops s) = ROk tt /\ tiles (fst (optimize_storage cdata ops s)) (lmap rg) /\
    forall j, j <> 0 -> m_get (lmap rg) j = m_get rg j)).
Proof. exact storage_maintenance. Qed.
Print Assumptions C05_storage_maintenance_partial.

(* the byte level: opening a cleanly closed file (empty recovery log) changes nothing *)
Theorem C05_clean_reopen_identity :
  forall d : bytes, FileWal.recover walrev_fixed {| FileWal.data := d; FileWal.wal := [] |} = {| FileWal.data := d; FileWal.wal := [] |}.
Proof. intros d. reflexivity. Qed.
Print Assumptions C05_clean_reopen_identity.

(* ======================= the collection layer (L2): storage-backed vectors =======================
   Model: theories/Collections.v — vec.rs line by line as PROGRAMS over the storage interface (cprog: a tree
   of Storage<D> calls branching on the storage's answers).  `cwp fl p sp Q` (CollWp.v): for every sequence of
   answers the abstract record map of C04 (StorageSpec.spec_step; free only in the u64 index an insert returns)
   accepts, p does not die and ends with a result and a map state satisfying Q.  `cwp_sound` transfers every
   cwp statement to the model of storage.rs over a canonical byte store through C04_step_refines — so nothing
   is assumed of the storage that C04 did not prove (C05_vec_history_on_storage_* below are such transfers).

   vrep g h slots l   (CollVec.v) the representation invariant: the record g(index h) is
                      le64 (len h) ++ concat slots ++ spare  (the spare capacity bytes are UNCONSTRAINED),
                      slot i represents l[i] (for String: the slot is the index of a record le64 len ++ utf8 that
                      the slot owns), len h = |l| <= capacity h, the index of the vector and the records owned by
                      its slots are pairwise distinct
   frame g g' F F'    the exact footprint change: records outside F and F' are untouched, records entering
                      the footprint were free, records leaving it are freed (no leaks)
   elem_law E         what is required of an element class (VecValue); proved for u64, i64, n raw inline bytes,
                      MapValueState, String (CollElems.v) *)
From Agdb Require Import Collections CollWp CollBytes CollVecBase CollVecOps CollVec CollVec2 CollElems CollVecHist.

(* the reload: on every state satisfying the invariant, DbVec::from_storage(index) succeeds and returns a handle
   with the same index and length for which the SAME slots represent the SAME list (its capacity is recomputed
   from the record size — it over-counts by 8 / size elements — and is only required to be >= len) *)
Theorem C05_vec_reload :
  forall (T : Type) (E : cv_elem T) (L : elem_law E) (fl : bool) h slots l sp (Q : cres cv_vec -> spec -> Prop),
    vrep T E L (hp sp) h slots l ->
    (forall h', vrep T E L (hp sp) h' slots l -> cv_index h' = cv_index h -> cv_len h' = cv_len h -> Q (CrOk h') sp) ->
    cwp fl (cv_from_storage T E (cv_index h)) sp Q.
Proof. exact cv_from_storage_spec. Qed.
Print Assumptions C05_vec_reload.

(* EVERY history (no bound): push, replace, remove, swap, resize, reserve, shrink_to_fit, value, iteration, len,
   interleaved at will with reloads (VoReload: the handle is dropped and rebuilt by from_storage) and with
   optimize_storage / drop + open / backup + open of the storage underneath (VoMaint) — started in a state
   satisfying the invariant with no transaction open, with representable values (op_ok) and a payload
   8 + size * len that stays a u64 (ops_ok) — yields exactly the observations of the plain list `cl_run`, in which
   reload and maintenance do nothing: a reloaded vector has the same length, the same elements, and every later
   operation behaves identically.  At the end the invariant holds for the final list, no transaction is open, and
   the history touched exactly its footprint (frame: no other record of the storage is read as changed, none is
   leaked).  Errors: only `Index out of bounds`, exactly when the list operation is out of range. *)
Theorem C05_vec_history :
  forall (T : Type) (E : cv_elem T) (L : elem_law E) (fl : bool) ops h slots l sp
         (Q : cres (cv_vec * list (cv_obs T)) -> spec -> Prop),
    vrep T E L (hp sp) h slots l -> sdepth sp = 0 -> ops_ok T E L l ops ->
    (forall h' slots' sp', vrep T E L (hp sp') h' slots' (fst (cl_run l ops)) -> cv_index h' = cv_index h -> sdepth sp' = 0 ->
        frame (hp sp) (hp sp') (foot T E L h slots) (foot T E L h' slots') -> Q (CrOk (h', snd (cl_run l ops))) sp') ->
    cwp fl (cv_run T E h ops) sp Q.
Proof. exact cv_run_spec. Qed.
Print Assumptions C05_vec_history.

(* the same on the model of storage.rs itself (C04), file-like and memory-like, from a fresh storage: DbVec::new
   followed by any history either dies by a panic of the storage (a request beyond 2^64 bytes) or returns the
   list's observations, in a storage state that refines an abstract map in which the invariant holds *)
Theorem C05_vec_history_on_storage_u64 :
  forall (ops : store_ops cdata) (fl : bool), kind ops fl ->
  forall l : list (cv_op N), ops_ok N ce_u64 law_u64 [] l ->
    let r := cp_run (st_step cdata ops) (h <~ cv_new ;; cv_run N ce_u64 h l) s_init in
    snd r = CrDead \/
    exists h' sp' slots', snd r = CrOk (h', snd (cl_run [] l)) /\ Rel (fst r) sp' /\
                          vrep N ce_u64 law_u64 (hp sp') h' slots' (fst (cl_run [] l)).
Proof. exact (cv_history_on_storage N ce_u64 law_u64). Qed.
Print Assumptions C05_vec_history_on_storage_u64.

Theorem C05_vec_history_on_storage_i64 :
  forall (ops : store_ops cdata) (fl : bool), kind ops fl ->
  forall l : list (cv_op Z), ops_ok Z ce_i64 law_i64 [] l ->
    let r := cp_run (st_step cdata ops) (h <~ cv_new ;; cv_run Z ce_i64 h l) s_init in
    snd r = CrDead \/
    exists h' sp' slots', snd r = CrOk (h', snd (cl_run [] l)) /\ Rel (fst r) sp' /\
                          vrep Z ce_i64 law_i64 (hp sp') h' slots' (fst (cl_run [] l)).
Proof. exact (cv_history_on_storage Z ce_i64 law_i64). Qed.
Print Assumptions C05_vec_history_on_storage_i64.

(* String elements live out of line (one record each, owned by the slot) *)
Theorem C05_vec_history_on_storage_string :
  forall (ops : store_ops cdata) (fl : bool), kind ops fl ->
  forall l : list (cv_op bytes), ops_ok bytes ce_string law_string [] l ->
    let r := cp_run (st_step cdata ops) (h <~ cv_new ;; cv_run bytes ce_string h l) s_init in
    snd r = CrDead \/
    exists h' sp' slots', snd r = CrOk (h', snd (cl_run [] l)) /\ Rel (fst r) sp' /\
                          vrep bytes ce_string law_string (hp sp') h' slots' (fst (cl_run [] l)).
Proof. exact (cv_history_on_storage bytes ce_string law_string). Qed.
Print Assumptions C05_vec_history_on_storage_string.

(* remove_from_storage frees exactly the footprint (the vector record and every record owned by a slot) *)
Theorem C05_vec_remove_from_storage :
  forall (T : Type) (E : cv_elem T) (L : elem_law E) (fl : bool) h slots l sp (Q : cres unit -> spec -> Prop),
    vrep T E L (hp sp) h slots l ->
    (forall sp', sdepth sp' = sdepth sp -> frame (hp sp) (hp sp') (foot T E L h slots) [] -> Q (CrOk tt) sp') ->
    cwp fl (cv_remove_from_storage T E h) sp Q.
Proof. exact cv_remove_from_storage_spec. Qed.
Print Assumptions C05_vec_remove_from_storage.

(* what makes the transfer possible: a cwp statement holds of every run on the storage model that does not panic *)
Theorem C05_cwp_sound :
  forall (ops : store_ops cdata) (fl : bool), kind ops fl ->
  forall (A : Type) (p : cprog A) s sp (Q : cres A -> spec -> Prop),
    Rel s sp -> cwp fl p sp Q ->
    snd (cp_run (st_step cdata ops) p s) = CrDead \/
    exists sp', Rel (fst (cp_run (st_step cdata ops) p s)) sp' /\ Q (snd (cp_run (st_step cdata ops) p s)) sp'.
Proof. exact (fun ops fl K A => cwp_sound ops fl K (A := A)). Qed.
Print Assumptions C05_cwp_sound.

(* ---- non-vacuity: concrete histories on the storage model, by evaluation ---- *)
Example C05_vec_sample_u64 :
  let l := [VoPush 5; VoPush 6; VoPush 7; VoRemove 0; VoValues; VoReload; VoPush 9; VoValues; VoSwap 0 2; VoValues;
            VoMaint SOptimize; VoMaint SReopen; VoReload; VoValues; VoReplace 7 1; VoResize 1 0; VoShrink; VoReload; VoValues] in
  ops_ok N ce_u64 law_u64 [] l /\
  exists h', snd (cp_run (st_step cdata ops_file) (h <~ cv_new ;; cv_run N ce_u64 h l) s_init) = CrOk (h', snd (cl_run [] l)) /\
             snd (cl_run [] l) = [VbUnit; VbUnit; VbUnit; VbVal 5; VbVals [6; 7]; VbUnit; VbUnit; VbVals [6; 7; 9]; VbUnit;
                                  VbVals [9; 7; 6]; VbUnit; VbUnit; VbUnit; VbVals [9; 7; 6]; VbErr CvIndex; VbUnit; VbUnit; VbUnit; VbVals [9]].
Proof.
  split.
  - cbn [ops_ok cl_step fst op_ok law_u64 inline_law el_valid fits ce_size ce_u64]. unfold lenN. cbn. repeat split; lia.
  - eexists. split; vm_compute; reflexivity.
Qed.
Print Assumptions C05_vec_sample_u64.

Example C05_vec_sample_string :
  let l := [VoPush [x41]; VoPush [x42; x43]; VoPush []; VoRemove 0; VoReload; VoPush [x44]; VoSwap 0 2; VoMaint SReopenCopy;
            VoReload; VoReplace 1 [x45]; VoResize 1 []; VoValues] in
  exists h', snd (cp_run (st_step cdata ops_mem) (h <~ cv_new ;; cv_run bytes ce_string h l) s_init) = CrOk (h', snd (cl_run [] l)) /\
             last (snd (cl_run [] l)) VbUnit = VbVals [[x44]].
Proof. eexists. split; vm_compute; reflexivity. Qed.
Print Assumptions C05_vec_sample_string.
