#!/usr/bin/env python3
# gen_user_types.py — C22: one description of a corpus of user types -> Rust definitions with
# #[derive(DbType)] / #[derive(DbElement)] (and custom value types with DbSerialize + DbValue + DbTypeMarker)
# + the `Ut` impls (description and value mapping into the Coq model DeriveType.v, generator, field-wise
# comparison on bit patterns).  Output: hx_core/src/gen_user_types.rs
import os

# ---- custom value types (stored as DbValue::Bytes(serialize(v))) ----
# struct: [(field, type)], enum: [(variant, None | ("tuple", [types]) | ("named", [(field, type)]))]
CUSTOM = [
    ("CV1", "struct", [("a", "u64"), ("s", "String")]),
    ("CV2", "struct", [("x", "i64"), ("items", "Vec<u64>"), ("f", "f64"), ("flag", "bool")]),
    ("CE1", "enum", [("A", None), ("B", ("tuple", ["u64"])), ("C", ("named", [("s", "String"), ("v", "Vec<i64>")]))]),
    ("CE2", "enum", [("On", None), ("Off", None)]),
    ("CV3", "struct", [("inner", "CV1"), ("e", "CE1"), ("raw", "Vec<u8>")]),
]


def F(name, ty, flatten=False, skip=False, rename=None):
    return dict(name=name, ty=ty, flatten=flatten, skip=skip, rename=rename)


# ---- user types.  derive: DbType | DbElement.  `known`: class suffix of a recorded finding this type reproduces ----
USER = [
    # flattened inner structs first (they derive DbType themselves)
    dict(name="I11", derive="DbType", inner=True, fields=[F("ix", "u64"), F("iy", "String")]),
    dict(name="I12", derive="DbType", inner=True, fields=[F("p", "Option<u64>"), F("q", "i64")]),
    dict(name="I13b", derive="DbType", inner=True, fields=[F("dq", "f64"), F("dv", "Vec<String>")]),
    dict(name="I13", derive="DbType", inner=True, fields=[F("bz", "Vec<u64>"), F("deep", "I13b", flatten=True)]),
    dict(name="I21", derive="DbType", inner=True, fields=[F("m", "Option<u64>"), F("n", "Option<String>")]),
    dict(name="I25", derive="DbType", inner=True, fields=[F("only", "I21", flatten=True)]),
    dict(name="I24", derive="DbType", inner=True, fields=[F("cv", "CV1"), F("ocv", "Option<CE1>"), F("w", "u32")]),

    dict(name="U01", derive="DbType", fields=[F("a", "u64"), F("b", "i64"), F("c", "f64")]),
    dict(name="U02", derive="DbType", fields=[F("db_id", "Option<DbId>"), F("name", "String"), F("raw", "Vec<u8>")]),
    dict(name="U03", derive="DbType", fields=[F("db_id", "Option<QueryId>"), F("n32", "u32"), F("i32v", "i32"), F("flag", "bool")]),
    dict(name="U04", derive="DbType", fields=[F("db_id", "Option<DbId>"), F("f", "f32"), F("fs", "Vec<f32>"), F("of", "Option<f32>")]),
    dict(name="U05", derive="DbType", fields=[F("db_id", "Option<DbId>"), F("vi", "Vec<i64>"), F("vu", "Vec<u64>"), F("vf", "Vec<f64>"), F("vs", "Vec<String>")]),
    dict(name="U06", derive="DbType", fields=[F("db_id", "Option<DbId>"), F("vi32", "Vec<i32>"), F("vu32", "Vec<u32>"), F("vb", "Vec<bool>")]),
    dict(name="U07", derive="DbType", fields=[F("db_id", "Option<DbId>"), F("oa", "Option<u64>"), F("ob", "Option<String>"), F("oc", "Option<Vec<i64>>"),
                                              F("od", "Option<bool>"), F("oe", "Option<i32>"), F("req", "i64")]),
    dict(name="U08", derive="DbType", fields=[F("db_id", "Option<DbId>"), F("cv", "CV1"), F("ce", "CE1"), F("cv3", "CV3")]),
    dict(name="U09", derive="DbType", fields=[F("db_id", "Option<DbId>"), F("vcv", "Vec<CV1>"), F("vce", "Vec<CE1>"), F("ovcv", "Option<Vec<CV2>>")]),
    dict(name="U10", derive="DbType", fields=[F("db_id", "Option<DbId>"), F("ocv", "Option<CV2>"), F("oce", "Option<CE2>"), F("e2", "CE2"), F("ve2", "Vec<CE2>")]),
    dict(name="U11", derive="DbType", fields=[F("db_id", "Option<DbId>"), F("top", "i64"), F("inner", "I11", flatten=True)]),
    dict(name="U12", derive="DbType", fields=[F("db_id", "Option<DbId>"), F("t", "u64"), F("inner", "I12", flatten=True)]),
    dict(name="U13", derive="DbType", fields=[F("db_id", "Option<DbId>"), F("a", "I11", flatten=True), F("b", "I13", flatten=True)]),
    dict(name="U14", derive="DbType", fields=[F("db_id", "Option<DbId>"), F("x", "u64"), F("cache", "u64", skip=True), F("note", "Option<String>", skip=True), F("y", "String")]),
    dict(name="U15", derive="DbType", fields=[F("db_id", "Option<DbId>"), F("original", "u64", rename="renamed_key"), F("other", "String", rename="k 2"), F("plain", "i64")]),
    dict(name="U16", derive="DbElement", fields=[F("db_id", "Option<DbId>"), F("title", "String"), F("count", "u64")]),
    dict(name="U17", derive="DbElement", fields=[F("db_id", "Option<DbId>"), F("title", "String"), F("tag", "Option<String>"), F("vs", "Vec<CV1>")]),
    dict(name="U18", derive="DbType", fields=[F("db_id", "DbId"), F("v", "u64"), F("s", "String")]),
    # NOTE: a non-optional `db_id: QueryId` is not expressible either: the derive emits `Some(self.db_id.into())` on `&self`
    # (QueryId is not Copy); U19 uses the alias form of Option<QueryId> instead.
    dict(name="U19", derive="DbType", fields=[F("db_id", "Option<QueryId>"), F("v", "i64"), F("ovs", "Option<Vec<String>>")]),
    # NOTE: `#[agdb(flatten)] inner: Option<Inner>` is not expressible: the derive emits `<Option<Inner> as DbType>::from_db_element`,
    # which does not compile (DbType is not implemented for Option<T>); the macro's Option+flatten branches are dead code.
    dict(name="U20", derive="DbType", fields=[F("db_id", "Option<DbId>"), F("k", "u64"), F("inner", "I21", flatten=True)]),
    dict(name="U21", derive="DbType", fields=[F("db_id", "Option<DbId>"), F("k", "String"), F("inner", "I25", flatten=True)]),
    dict(name="U22", derive="DbType", fields=[F("db_id", "Option<DbId>")]),
    dict(name="U23", derive="DbElement", fields=[F("db_id", "Option<QueryId>"), F("f01", "u64"), F("f02", "i64"), F("f03", "f64"), F("f04", "String"), F("f05", "Vec<u8>"),
                                                 F("f06", "Vec<i64>"), F("f07", "Vec<String>"), F("f08", "bool"), F("f09", "u32"), F("f10", "Option<f64>"),
                                                 F("f11", "CV3"), F("f12", "Vec<CE1>"), F("f13", "Option<Vec<u64>>"), F("f14", "Option<Vec<u8>>"), F("f15", "i32"),
                                                 F("f16", "Vec<bool>"), F("f17", "String"), F("f18", "Option<CV1>")]),
    dict(name="U24", derive="DbType", fields=[F("db_id", "Option<DbId>"), F("inner", "I24", flatten=True), F("z", "Option<Vec<String>>")]),
    # attribute COMBINATIONS (each attribute alone is covered above): rename on optional / vector / custom-value fields, next to skipped ones
    dict(name="U25", derive="DbType", fields=[F("db_id", "Option<DbId>"), F("email", "Option<String>", rename="e-mail"), F("age", "Option<u64>", rename="years"),
                                              F("tags", "Vec<String>", rename="labels"), F("plain", "Option<i64>")]),
    dict(name="U26", derive="DbElement", fields=[F("db_id", "Option<QueryId>"), F("cv", "Option<CV1>", rename="custom"), F("ov", "Option<Vec<u64>>", rename="numbers"),
                                                 F("tmp", "u64", skip=True), F("name", "String", rename="n")]),
]

ID_TYPES = ("Option<DbId>", "Option<QueryId>", "DbId", "QueryId")
NAMES = {u["name"] for u in USER}


def opt_inner(ty):
    return ty[len("Option<"):-1] if ty.startswith("Option<") else None


BY_NAME = {u["name"]: u for u in USER}


def keys_empty(u):
    """T::db_keys() == [] in the FIXED macro: an own Option field, or a flattened struct whose keys are empty"""
    fs = [f for f in u["fields"] if f["name"] != "db_id" and not f["skip"]]
    if any(opt_inner(f["ty"]) for f in fs):
        return True
    if any(f["flatten"] and keys_empty(BY_NAME[f["ty"]]) for f in fs):
        return True
    return False


def known_class(u):
    """KnownClass of the recorded finding: the pinned macro looks only at the type's OWN fields for Option, so a type without an own
    Option field that flattens a struct needing all keys selects too few keys"""
    fs = [f for f in u["fields"] if f["name"] != "db_id" and not f["skip"]]
    own_opt = any(opt_inner(f["ty"]) for f in fs)
    return "flatten-option-keys" if (not own_opt and keys_empty(u)) else ""


def gen_custom(w):
    for name, kind, fields in CUSTOM:
        w("#[derive(Debug, Clone, agdb::DbSerialize, agdb::DbValue, agdb::DbTypeMarker)]")
        if kind == "struct":
            w("pub struct %s { %s }" % (name, ", ".join("pub %s: %s" % f for f in fields)))
            ftys = [f[1] for f in fields]
            facc = [f[0] for f in fields]
            w("impl Corpus for %s {" % name)
            w("    fn ty() -> Ty { Ty::Struct(vec![%s]) }" % ", ".join("<%s as Corpus>::ty()" % t for t in ftys))
            w("    fn to_val(&self) -> Val { Val::Struct(vec![%s]) }" % ", ".join("self.%s.to_val()" % a for a in facc))
            w("    fn generate(r: &mut Rng, d: u32) -> Self { %s { %s } }" % (name, ", ".join("%s: Corpus::generate(r, d + 1)" % a for a in facc)))
            w("}")
        else:
            vs = []
            for vn, vf in fields:
                if vf is None:
                    vs.append(vn)
                elif vf[0] == "tuple":
                    vs.append("%s(%s)" % (vn, ", ".join(vf[1])))
                else:
                    vs.append("%s { %s }" % (vn, ", ".join("%s: %s" % f for f in vf[1])))
            w("pub enum %s { %s }" % (name, ", ".join(vs)))
            w("impl Corpus for %s {" % name)
            vts = []
            for vn, vf in fields:
                ftys = [] if vf is None else ([f[1] for f in vf[1]] if vf[0] == "named" else list(vf[1]))
                vts.append("vec![%s]" % ", ".join("<%s as Corpus>::ty()" % t for t in ftys))
            w("    fn ty() -> Ty { Ty::Enum(vec![%s]) }" % ", ".join(vts))
            w("    fn to_val(&self) -> Val {")
            w("        match self {")
            for i, (vn, vf) in enumerate(fields):
                if vf is None:
                    w("            %s::%s => Val::Enum(%d, vec![])," % (name, vn, i))
                elif vf[0] == "tuple":
                    bs = ["f%d" % k for k in range(len(vf[1]))]
                    w("            %s::%s(%s) => Val::Enum(%d, vec![%s])," % (name, vn, ", ".join(bs), i, ", ".join(b + ".to_val()" for b in bs)))
                else:
                    bs = [f[0] for f in vf[1]]
                    w("            %s::%s { %s } => Val::Enum(%d, vec![%s])," % (name, vn, ", ".join(bs), i, ", ".join(b + ".to_val()" for b in bs)))
            w("        }")
            w("    }")
            w("    fn generate(r: &mut Rng, d: u32) -> Self {")
            w("        match r.below(%d) {" % len(fields))
            for i, (vn, vf) in enumerate(fields):
                pat = "%d" % i if i != len(fields) - 1 else "_"
                if vf is None:
                    w("            %s => %s::%s," % (pat, name, vn))
                elif vf[0] == "tuple":
                    w("            %s => %s::%s(%s)," % (pat, name, vn, ", ".join("Corpus::generate(r, d + 1)" for _ in vf[1])))
                else:
                    w("            %s => %s::%s { %s }," % (pat, name, vn, ", ".join("%s: Corpus::generate(r, d + 1)" % f[0] for f in vf[1])))
            w("        }")
            w("    }")
            w("}")
        w("impl Cv for %s {}" % name)
        w("")


def gen_user(w):
    for u in USER:
        name = u["name"]
        w("#[derive(Debug, Clone, agdb::%s)]" % u["derive"])
        w("pub struct %s {" % name)
        for f in u["fields"]:
            attrs = []
            if f["flatten"]:
                attrs.append("flatten")
            if f["skip"]:
                attrs.append("skip")
            if f["rename"]:
                attrs.append('rename = "%s"' % f["rename"])
            if attrs:
                w("    #[agdb(%s)]" % ", ".join(attrs))
            w("    pub %s: %s," % (f["name"], f["ty"]))
        w("}")
        idf = [f for f in u["fields"] if f["name"] == "db_id"]
        w("impl Ut for %s {" % name)
        w('    const NAME: &\'static str = "%s";' % name)
        w('    const KNOWN: &\'static str = "%s";' % known_class(u))
        w("    const ELEMENT: bool = %s;" % ("true" if u["derive"] == "DbElement" else "false"))
        # in_model / desc / model / diff / gen / skip_default
        inm, desc, model, diff, gen, skipd, merge = [], [], [], [], [], [], []
        for f in u["fields"]:
            n, ty = f["name"], f["ty"]
            key = f["rename"] or n
            if n == "db_id":
                desc.append('"(dbid %s)".to_string()' % ("opt" if ty.startswith("Option<") else "req"))
                model.append("show_id(&self.db_id.clone().into_qid())")
                gen.append("db_id: <%s as IdField>::fresh()" % ty)
                continue
            if f["skip"]:
                desc.append('"(skip %d)".to_string()' % (1 if opt_inner(ty) else 0))
                model.append('"skip".to_string()')
                if opt_inner(ty):
                    gen.append("%s: if r.chance(1, 2) { None } else { Some(Fv::make(r)) }" % n)
                else:
                    gen.append("%s: Fv::make(r)" % n)
                skipd.append("self.%s == <%s as Default>::default()" % (n, ty))
                merge.append("self.%s = Default::default()" % n)
                continue
            if f["flatten"]:
                inner = opt_inner(ty)
                if inner:
                    inm.append("<%s as Ut>::in_model()" % inner)
                    desc.append('format!("(optflatten {})", <%s as Ut>::fields_desc())' % inner)
                    model.append('match &self.%s { Some(x) => format!("(ofl ({}))", x.model()), None => "(ofl none)".to_string() }' % n)
                    diff.append('match (&self.%s, &o.%s) { (Some(a), Some(b)) => a.diff(b, out), (None, None) => {}, (a, _) => out.push(format!("%s: {} expected, {} read", if a.is_some() { "Some" } else { "None" }, if a.is_some() { "None" } else { "Some" })) }' % (n, n, n))
                    gen.append("%s: if r.chance(1, 3) { None } else { Some(Ut::make(r)) }" % n)
                    # nothing is stored for None: the old pairs stay; Some(x) over Some(old): per-field merge
                    merge.append("match (&mut self.%s, &old.%s) { (Some(a), Some(b)) => a.merge_old(b), (None, Some(b)) => self.%s = Some(b.clone()), _ => {} }" % (n, n, n))
                    skipd.append("self.%s.as_ref().map(|x| x.skip_default()).unwrap_or(true)" % n)
                else:
                    inm.append("<%s as Ut>::in_model()" % ty)
                    desc.append('format!("(flatten {})", <%s as Ut>::fields_desc())' % ty)
                    model.append('format!("(fl {})", self.%s.model())' % n)
                    diff.append("self.%s.diff(&o.%s, out)" % (n, n))
                    gen.append("%s: Ut::make(r)" % n)
                    merge.append("self.%s.merge_old(&old.%s)" % (n, n))
                    skipd.append("self.%s.skip_default()" % n)
                continue
            inner = opt_inner(ty)
            if inner:
                inm.append("<%s as Fv>::kind().is_some()" % inner)
                desc.append('format!("(opt {} {})", hex(b"%s"), <%s as Fv>::kind().unwrap_or_default())' % (key, inner))
                model.append('match &self.%s { Some(x) => format!("(o {})", x.model()), None => "(o none)".to_string() }' % n)
                diff.append('match (&self.%s, &o.%s) { (Some(a), Some(b)) => if !a.same(b) { out.push(format!("%s: {:?} expected, {:?} read", a, b)) }, (None, None) => {}, (a, b) => out.push(format!("%s: {:?} expected, {:?} read", a, b)) }' % (n, n, n, n))
                gen.append("%s: if r.chance(1, 3) { None } else { Some(Fv::make(r)) }" % n)
                merge.append("if self.%s.is_none() { self.%s = old.%s.clone(); }" % (n, n, n))
            else:
                inm.append("<%s as Fv>::kind().is_some()" % ty)
                desc.append('format!("(plain {} {})", hex(b"%s"), <%s as Fv>::kind().unwrap_or_default())' % (key, ty))
                model.append('format!("(p {})", self.%s.model())' % n)
                diff.append('if !self.%s.same(&o.%s) { out.push(format!("%s: {:?} expected, {:?} read", self.%s, o.%s)) }' % (n, n, n, n, n))
                gen.append("%s: Fv::make(r)" % n)
        w("    fn in_model() -> bool { %s }" % (" && ".join(inm) if inm else "true"))
        w("    fn fields_desc() -> String { [%s].join(\" \") }" % ", ".join(desc) if desc else '    fn fields_desc() -> String { String::new() }')
        w("    fn model(&self) -> String { let v: Vec<String> = vec![%s]; v.join(\" \") }" % ", ".join(model))
        w("    fn diff(&self, o: &Self, out: &mut Vec<String>) { let _ = (o, &out); %s }" % "; ".join(diff))
        w("    fn make(r: &mut Rng) -> Self { let _ = &r; %s { %s } }" % (name, ", ".join(gen)))
        w("    fn skip_default(&self) -> bool { %s }" % (" && ".join(skipd) if skipd else "true"))
        w("    fn merge_old(&mut self, old: &Self) { let _ = old; %s }" % "; ".join(merge))
        if idf:
            w("    fn get_id(&self) -> Option<QueryId> { self.db_id.clone().into_qid() }")
            w("    fn set_id(&mut self, id: QueryId) { self.db_id = <%s as IdField>::from_qid(id); }" % idf[0]["ty"])
            w("    const HAS_ID: bool = true;")
        else:
            w("    fn get_id(&self) -> Option<QueryId> { None }")
            w("    fn set_id(&mut self, _id: QueryId) {}")
            w("    const HAS_ID: bool = false;")
        w("}")
        w("")


def main():
    out = []
    w = out.append
    w("// GENERATED by /verif/harness/gen_user_types.py — do not edit")
    w("#![allow(dead_code, non_camel_case_types, clippy::all)]")
    w("use crate::corpus::Corpus;")
    w("use crate::rng::Rng;")
    w("use crate::sexp::{hex, Ty, Val};")
    w("use crate::usertypes::{show_id, Cv, Fv, IdField, Ut};")
    w("use agdb::{DbId, QueryId};")
    w("")
    gen_custom(w)
    gen_user(w)
    w("#[macro_export]")
    w("macro_rules! for_each_user_type {")
    w("    ($f:ident, $ctx:expr) => {")
    for u in USER:
        if not u.get("inner"):
            w("        $f::<%s>($ctx);" % u["name"])
    w("    };")
    w("}")
    dst = os.path.join(os.path.dirname(os.path.abspath(__file__)), "hx_core", "src", "gen_user_types.rs")
    txt = "\n".join(out) + "\n"
    if not os.path.exists(dst) or open(dst).read() != txt:
        open(dst, "w").write(txt)
    print("wrote", dst, len(CUSTOM), "custom value types", len(USER), "user types")


if __name__ == "__main__":
    main()
