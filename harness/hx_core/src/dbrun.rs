// dbrun.rs — runs generated query histories on the real database and writes the case
// lines for the model driver, the implementation's observations, and direct oracle
// failures (state invariants C08–C11, rollback equivalence C13, variant equality C06,
// maintenance preservation C05).
use crate::dbdump::*;
use crate::dbgen::*;
use crate::dbq::*;
use crate::rng::Rng;
use agdb::*;
use std::collections::BTreeMap;
use std::panic::{catch_unwind, AssertUnwindSafe};

pub struct Out {
    pub cases: Vec<String>,
    pub imp: Vec<String>,
    pub oracle: Vec<String>,
    pub stats: BTreeMap<String, u64>,
    pub samples: Vec<String>,
    pub nontrivial: u64,
    pub histories: u64,
}

impl Out {
    pub fn new() -> Self {
        Out { cases: vec![], imp: vec![], oracle: vec![], stats: BTreeMap::new(), samples: vec![], nontrivial: 0, histories: 0 }
    }
    fn bump(&mut self, k: &str) { *self.stats.entry(k.to_string()).or_insert(0) += 1; }
}

pub struct Opts {
    pub profile: Profile,
    pub steps: usize,
    pub rev: String,
    pub dump_every: usize,
    pub variants: Vec<String>, // extra variants run side by side: file, mapped, any_mem, any_file, any_mapped
    pub maintenance: bool,
    pub dir: String,
}

pub fn refresh_live<S: StorageData>(db: &DbImpl<S>) -> Live {
    let mut live = Live::default();
    if let Ok(r) = db.exec(SearchQuery { algorithm: SearchQueryAlgorithm::Elements, origin: QueryId::Id(DbId(0)), destination: QueryId::Id(DbId(0)),
                                         limit: 0, offset: 0, order_by: vec![], conditions: vec![] }) {
        for e in r.elements { if e.id.0 > 0 { live.nodes.push(e.id.0) } else { live.edges.push(e.id.0) } }
    }
    if let Ok(r) = db.exec(SelectAllAliasesQuery {}) {
        for e in r.elements { if let Some(kv) = e.values.first() { live.aliases.push(kv.value.to_string()); } }
    }
    if let Ok(r) = db.exec(SelectIndexesQuery {}) {
        if let Some(e) = r.elements.first() { for kv in &e.values { live.index_keys.push(kv.key.clone()); } }
    }
    live
}

pub enum Step { Exec(Q), Txn(bool, Vec<Q>), Dump(bool) }

pub fn show_step(s: &Step) -> String {
    match s {
        Step::Exec(q) => format!("db exec {}", show_q(q)),
        Step::Txn(f, qs) => format!("db txn {}{}", if *f { 1 } else { 0 }, qs.iter().map(|q| format!(" {}", show_q(q))).collect::<String>()),
        Step::Dump(n) => if *n { "db dumpn".into() } else { "db dump".into() },
    }
}

// executes one step on a database; returns the observation line ("panic" on unwind)
pub fn exec_step<S: StorageData>(db: &mut DbImpl<S>, s: &Step) -> String {
    let r = catch_unwind(AssertUnwindSafe(|| match s {
        Step::Exec(q) => show_result(&run_q(db, q), q.is_index_search()),
        Step::Txn(fail, qs) => {
            let mut lines: Vec<String> = vec![];
            let _ = db.transaction_mut(|t| -> Result<(), DbError> {
                for q in qs {
                    let r = run_q_txn(t, q);
                    lines.push(show_result(&r, false));
                    r?;
                }
                if *fail { Err(DbError::query(DbErrorType::NotAllowed, "injected failure")) } else { Ok(()) }
            });
            format!("txn {}", lines.join(" ; "))
        }
        Step::Dump(n) => show_obs(&observe(db), *n),
    }));
    r.unwrap_or_else(|_| "panic".to_string())
}

fn step_failed(line: &str) -> bool {
    line.starts_with("err") || line == "panic" || line.contains(" ; err") || line.starts_with("txn err") || line.ends_with("panic")
}

enum AnyDb { Mem(DbMemory), File(DbFile), Mapped(Db), Any(DbAny) }

impl AnyDb {
    fn open(kind: &str, path: &str) -> Result<AnyDb, DbError> {
        Ok(match kind {
            "file" => AnyDb::File(DbFile::new(path)?),
            "mapped" => AnyDb::Mapped(Db::new(path)?),
            "any_mem" => AnyDb::Any(DbAny::new_memory(path)?),
            "any_file" => AnyDb::Any(DbAny::new_file(path)?),
            "any_mapped" => AnyDb::Any(DbAny::new_mapped(path)?),
            _ => AnyDb::Mem(DbMemory::new(path)?),
        })
    }
    fn exec_step(&mut self, s: &Step) -> String {
        match self {
            AnyDb::Mem(d) => exec_step(d, s), AnyDb::File(d) => exec_step(d, s),
            AnyDb::Mapped(d) => exec_step(d, s), AnyDb::Any(d) => exec_step(d, s),
        }
    }
    fn dump(&self, n: bool) -> String {
        match self {
            AnyDb::Mem(d) => show_obs(&observe(d), n), AnyDb::File(d) => show_obs(&observe(d), n),
            AnyDb::Mapped(d) => show_obs(&observe(d), n), AnyDb::Any(d) => show_obs(&observe(d), n),
        }
    }
    fn battery(&self, rng_seed: u64) -> String {
        // a fixed battery of searches whose result ORDER is part of the observation (C05)
        fn go<S: StorageData>(d: &DbImpl<S>, seed: u64) -> String {
            let live = refresh_live(d);
            let mut r = Rng::new(seed);
            let mut out = vec![];
            for _ in 0..12 {
                let s = gen_search(&mut r, &live, false, false);
                out.push(show_result(&d.exec(to_search(&s)), false));
            }
            out.join(" # ")
        }
        match self {
            AnyDb::Mem(d) => go(d, rng_seed), AnyDb::File(d) => go(d, rng_seed),
            AnyDb::Mapped(d) => go(d, rng_seed), AnyDb::Any(d) => go(d, rng_seed),
        }
    }
    fn maintain(self, op: &str, kind: &str, path: &str, tmp: &str) -> Result<(AnyDb, String), String> {
        // performs one maintenance operation; returns the database to continue with and its kind
        fn e<T>(r: Result<T, DbError>) -> Result<T, String> { r.map_err(|x| x.description) }
        match op {
            "reopen" => { drop(self); Ok((e(AnyDb::open(kind, path))?, kind.to_string())) }
            "optimize" => {
                let mut s = self;
                match &mut s {
                    AnyDb::Mem(d) => e(d.optimize_storage())?, AnyDb::File(d) => e(d.optimize_storage())?,
                    AnyDb::Mapped(d) => e(d.optimize_storage())?, AnyDb::Any(d) => e(d.optimize_storage())?,
                }
                Ok((s, kind.to_string()))
            }
            "shrink" => {
                let mut s = self;
                match &mut s {
                    AnyDb::Mem(d) => e(d.shrink_to_fit())?, AnyDb::File(d) => e(d.shrink_to_fit())?,
                    AnyDb::Mapped(d) => e(d.shrink_to_fit())?, AnyDb::Any(d) => e(d.shrink_to_fit())?,
                }
                Ok((s, kind.to_string()))
            }
            "backup_open" => {
                let _ = std::fs::remove_file(tmp);
                match &self {
                    AnyDb::Mem(d) => e(d.backup(tmp))?, AnyDb::File(d) => e(d.backup(tmp))?,
                    AnyDb::Mapped(d) => e(d.backup(tmp))?, AnyDb::Any(d) => e(d.backup(tmp))?,
                }
                drop(self);
                let k = if kind == "mem" || kind == "any_mem" { "file" } else { kind };
                let _ = std::fs::remove_file(path);
                std::fs::rename(tmp, path).map_err(|x| x.to_string())?;
                Ok((e(AnyDb::open(k, path))?, k.to_string()))
            }
            "copy" => {
                let _ = std::fs::remove_file(tmp);
                let c = match &self {
                    AnyDb::Mem(d) => AnyDb::Mem(e(d.copy(tmp))?), AnyDb::File(d) => AnyDb::File(e(d.copy(tmp))?),
                    AnyDb::Mapped(d) => AnyDb::Mapped(e(d.copy(tmp))?), AnyDb::Any(d) => AnyDb::Any(e(d.copy(tmp))?),
                };
                drop(self);
                // continue with the copy, under the original name
                let mut c = c;
                let _ = std::fs::remove_file(path);
                match &mut c {
                    AnyDb::Mem(d) => e(d.rename(path))?, AnyDb::File(d) => e(d.rename(path))?,
                    AnyDb::Mapped(d) => e(d.rename(path))?, AnyDb::Any(d) => e(d.rename(path))?,
                }
                Ok((c, kind.to_string()))
            }
            "rename" => {
                let mut s = self;
                let _ = std::fs::remove_file(tmp);
                match &mut s {
                    AnyDb::Mem(d) => { e(d.rename(tmp))?; e(d.rename(path))? }
                    AnyDb::File(d) => { e(d.rename(tmp))?; e(d.rename(path))? }
                    AnyDb::Mapped(d) => { e(d.rename(tmp))?; e(d.rename(path))? }
                    AnyDb::Any(d) => { e(d.rename(tmp))?; e(d.rename(path))? }
                }
                Ok((s, kind.to_string()))
            }
            _ => { // switch to another file-backed variant
                if kind == "mem" || kind == "any_mem" { return Ok((self, kind.to_string())); }
                drop(self);
                let k = match kind { "file" => "mapped", "mapped" => "any_file", "any_file" => "any_mapped", _ => "file" };
                Ok((e(AnyDb::open(k, path))?, k.to_string()))
            }
        }
    }
}

pub fn run_history(rng: &mut Rng, o: &Opts, out: &mut Out, hist: usize) {
    out.histories += 1;
    let mut db = DbMemory::new("mem").expect("memory db");
    let mut others: Vec<(String, AnyDb, String)> = vec![];
    for (i, v) in o.variants.iter().enumerate() {
        let path = format!("{}/h{}_{}_{}.agdb", o.dir, hist, i, v);
        let _ = std::fs::remove_file(&path);
        match AnyDb::open(v, &path) {
            Ok(d) => others.push((v.clone(), d, path)),
            Err(e) => out.oracle.push(format!("variant-open variant={} error={}", v, e.description)),
        }
    }
    crate::watch::new_history();
    out.cases.push(format!("db reset {}", o.rev));
    out.imp.push("reset".into());
    let mut log: Vec<String> = vec![];
    let mut triggered = false;
    let mut hash_seen: std::collections::BTreeSet<String> = Default::default();
    let (mut hash_cap, mut hash_up, mut hash_down) = (64u64, 0u64, 0u64);
    let n_steps = 1 + rng.below(o.steps as u64) as usize;
    for si in 0..n_steps {
        crate::watch::begin_aux("harness read: search elements / select all aliases / select indexes");
        let live = refresh_live(&db);
        crate::watch::end();
        let roll = rng.below(100);
        let p = o.profile;
        let txn_share = match p { Profile::Txn => 45, Profile::Search => 0, _ => 8 };
        let select_share = match p { Profile::Search => 55, Profile::Txn => 5, _ => 22 };
        let step = if p == Profile::Big || p == Profile::BigPath {
            if p == Profile::BigPath {
                if si < 6 { Step::Exec(gen_routes_build(rng, &live, si)) }
                else if rng.chance(1, 10) { let st = 1 + rng.below(5) as usize; Step::Exec(gen_routes_build(rng, &live, st)) }
                else { Step::Exec(Q::SearchQ(Box::new(gen_routes_search(rng, &live)))) }
            }
            else if si < 4 { Step::Exec(gen_big_build(rng, &live, si, false)) }
            else if rng.chance(1, 10) { Step::Exec(gen_mut(rng, &live, Profile::Graph)) }
            else { Step::Exec(Q::SearchQ(Box::new(gen_big_search(rng, &live, false)))) }
        } else if p == Profile::Index && si < 5 && (si < 3 || rng.chance(1, 2)) {
            // prologue of the index profile: 3-5 indexes on distinct keys, so that later removals hit the first / a middle / the
            // last entry of the index list (list order in memory vs in the file, C05; back-fill and exactness, C11)
            Step::Exec(Q::InsertIndex(DbValue::String(format!("k{}", si))))
        } else if p == Profile::Index && si >= 5 && !live.index_keys.is_empty() && rng.chance(1, 9) {
            // remove an existing index chosen by POSITION (first, middle, last equally likely)
            Step::Exec(Q::RemoveIndex(rng.pick(&live.index_keys).clone()))
        } else if roll < txn_share {
            let k = rng.range(1, 5) as usize;
            let qs: Vec<Q> = (0..k).map(|_| if rng.chance(1, 6) { gen_select(rng, &live, p) } else { gen_mut(rng, &live, p) }).collect();
            Step::Txn(rng.chance(if p == Profile::Txn { 3 } else { 1 }, 5), qs)
        } else if roll < txn_share + select_share {
            Step::Exec(gen_select(rng, &live, p))
        } else {
            Step::Exec(gen_mut(rng, &live, p))
        };
        let line = show_step(&step);
        let is_txn_or_mut = match &step { Step::Exec(q) => q.is_mut(), Step::Txn(..) => true, _ => false };
        crate::watch::begin_aux("harness read: full dump");
        let before = if is_txn_or_mut { Some(show_obs(&observe(&db), true)) } else { None };
        crate::watch::begin(&line);
        let res = exec_step(&mut db, &step);
        crate::watch::end();
        if o.profile == Profile::Hash {
            // C19 coverage: distinct hashed keys used and (estimated) capacity changes of the alias map
            for a in &live.aliases { hash_seen.insert(a.clone()); }
            let na = live.aliases.len() as u64;
            let before_cap = hash_cap;
            while na > hash_cap * 15 / 16 { hash_cap *= 2; }
            while hash_cap > 64 && na <= hash_cap * 7 / 16 { hash_cap /= 2; }
            if hash_cap > before_cap { hash_up += 1; out.bump("hash:alias-map-grows"); }
            if hash_cap < before_cap { hash_down += 1; out.bump("hash:alias-map-shrinks"); }
        }
        out.cases.push(line.clone());
        out.imp.push(res.clone());
        log.push(line.clone());
        match &step {
            Step::Exec(q) => out.bump(&format!("op:{}", q.name())),
            Step::Txn(f, qs) => { out.bump(if *f { "op:txn-injected-failure" } else { "op:txn" }); for q in qs { out.bump(&format!("txn-op:{}", q.name())); } }
            _ => {}
        }
        let kind = res.split(' ').next().unwrap_or("").to_string();
        out.bump(&format!("result:{}", if kind == "txn" { if step_failed(&res) { "txn-failed" } else { "txn-ok" } } else { &kind }));
        if res.starts_with("err ") { out.bump(&format!("error:{}", &res[4..])); }
        if res == "panic" || res.ends_with("panic") {
            out.oracle.push(format!("panic step={} history=[{}]", line, log.join(" ;; ")));
            break;
        }
        // C13: a failed query / transaction leaves no observable effect
        let failed = match &step {
            Step::Exec(_) => res.starts_with("err"),
            Step::Txn(f, _) => *f || step_failed(&res),
            _ => false,
        };
        if failed {
            if let Some(b) = &before {
                let after = show_obs(&observe(&db), true);
                if matches!(&step, Step::Txn(_, qs) if qs.len() >= 2) { triggered = true; }
                if *b != after {
                    out.oracle.push(format!("rollback-differs step={} before={} after={} history=[{}]", line, b, after, log.join(" ;; ")));
                }
            }
        }
        // side-by-side variants (C06)
        for (v, d, _) in others.iter_mut() {
            let r2 = d.exec_step(&step);
            if r2 != res {
                out.oracle.push(format!("variant-mismatch variant={} step={} mem={} other={} history=[{}]", v, line, res, r2, log.join(" ;; ")));
            }
        }
        // full dumps + state invariants
        let last = si + 1 == n_steps;
        if o.dump_every > 0 && (last || (si + 1) % o.dump_every == 0) {
            let obs = observe(&db);
            for (cls, msg) in invariants(&obs) {
                out.oracle.push(format!("{} {} history=[{}]", cls, msg, log.join(" ;; ")));
            }
            out.cases.push("db dump".into());
            out.imp.push(show_obs(&obs, false));
            if !live.edges.is_empty() && live.nodes.len() >= 2 { triggered = true; }
        }
        // maintenance (C05) on the file-backed side-by-side variants
        if o.maintenance && !others.is_empty() && (last || rng.chance(1, 12)) {
            let ops = ["reopen", "optimize", "shrink", "backup_open", "copy", "rename", "switch"];
            let mut next = vec![];
            for (v, d, path) in others.drain(..) {
                let op = ops[rng.below(ops.len() as u64) as usize];
                let seed = rng.next();
                let before = format!("{} ## {}", d.dump(false), d.battery(seed));
                let tmp = format!("{}.tmp", path);
                match d.maintain(op, &v, &path, &tmp) {
                    Ok((d2, v2)) => {
                        let after = format!("{} ## {}", d2.dump(false), d2.battery(seed));
                        out.bump(&format!("maintenance:{}", op));
                        triggered = true;
                        if before != after {
                            out.oracle.push(format!("maintenance-differs op={} variant={} before={} after={} history=[{}]", op, v, before, after, log.join(" ;; ")));
                        }
                        next.push((v2, d2, path));
                    }
                    Err(e) => out.oracle.push(format!("maintenance-error op={} variant={} error={} history=[{}]", op, v, e, log.join(" ;; "))),
                }
            }
            others = next;
        }
    }
    if o.profile == Profile::Hash {
        // non-trivial for C19 = the history used >= 192 distinct aliases and crossed a capacity boundary both ways
        triggered = hash_seen.len() >= 192 && hash_up >= 1 && hash_down >= 1;
        if hash_seen.len() >= 192 { out.bump("hash:history-with->=192-distinct-aliases"); }
        if hash_up >= 1 && hash_down >= 1 { out.bump("hash:history-crossing-capacity-both-ways"); }
    }
    if triggered { out.nontrivial += 1; }
    if out.samples.len() < 3 && !log.is_empty() {
        out.samples.push(log.iter().take(6).cloned().collect::<Vec<_>>().join(" ;; "));
    }
    for (_, d, path) in others.drain(..) {
        drop(d);
        let _ = std::fs::remove_file(&path);
        let _ = std::fs::remove_file(format!("{}.tmp", path));
        // recovery log
        if let Some((dir, name)) = path.rsplit_once('/') { let _ = std::fs::remove_file(format!("{}/.{}", dir, name)); }
    }
}
