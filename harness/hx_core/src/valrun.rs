// valrun.rs — C12: every stored value reads back bit-for-bit.
//
// Generated values of all nine kinds are inserted as property KEY and as property VALUE
// into DbMemory, DbFile and Db (memory mapped), selected back (all values of the element and
// by key), and read again after drop + reopen of the file backed variants, through every
// other variant opened on the same file, and for DbMemory through backup + reload.
//   oracle*.txt : direct violations (what was read is not bit-identical to what was stored)
//   cases/impl  : model correspondence, compared with extract/m_value.ml:
//       value rt <v>        -> ok <v'>      what the element's value reads back as
//       value kv <k> <v>    -> ok (kv ..)   the pair read back
//       value ix <k> <v>    -> ix <32 index bytes, storage indexes zeroed> <key record|-> <value record|->
//                              the bytes the implementation wrote for the pair (recording StorageData
//                              wrapper) against the model's store_kv
use crate::corpus::{gen_string, Corpus};
use crate::dbq::{show_kv, show_value};
use crate::rng::Rng;
use crate::sexp::hex;
use agdb::*;
use std::cell::RefCell;
use std::collections::{BTreeMap, BTreeSet};
use std::panic::{catch_unwind, AssertUnwindSafe};
use std::rc::Rc;

pub struct Out {
    pub cases: Vec<String>,
    pub imp: Vec<String>,
    pub oracle: Vec<String>,
    pub stats: BTreeMap<String, u64>,
    pub samples: Vec<String>,
    pub nontrivial: u64,
    pub evaluations: u64,
    pub distinct: BTreeSet<String>,
}

impl Out {
    pub fn new() -> Self {
        Out { cases: vec![], imp: vec![], oracle: vec![], stats: BTreeMap::new(), samples: vec![], nontrivial: 0, evaluations: 0, distinct: BTreeSet::new() }
    }
    fn count(&mut self, k: &str, n: u64) { *self.stats.entry(k.to_string()).or_insert(0) += n; }
    fn fail(&mut self, cls: &str, what: String) {
        if self.oracle.len() < 200 { self.oracle.push(format!("{} {}", cls, what)); }
        self.count(&format!("oracle:{}", cls), 1);
    }
}

fn mark() -> DbValue { DbValue::Bytes(vec![0xA5, 0x5A, 0xA5]) }

fn kind(v: &DbValue) -> &'static str {
    match v {
        DbValue::Bytes(_) => "bytes", DbValue::I64(_) => "i64", DbValue::U64(_) => "u64", DbValue::F64(_) => "f64",
        DbValue::String(_) => "string", DbValue::VecI64(_) => "vec_i64", DbValue::VecU64(_) => "vec_u64",
        DbValue::VecF64(_) => "vec_f64", DbValue::VecString(_) => "vec_string",
    }
}

fn padded(target: usize, tail: char) -> String {
    let w = tail.len_utf8();
    let mut s = String::new();
    for i in 0..target.saturating_sub(w) { s.push((b'a' + (i % 26) as u8) as char); }
    s.push(tail);
    s
}

fn float_bits(r: &mut Rng) -> Vec<u64> {
    let mut v = vec![
        0u64, 1u64 << 63, 0x7ff0_0000_0000_0000, 0xfff0_0000_0000_0000, 0x7ff8_0000_0000_0000, 0xfff8_0000_0000_0000,
        0x7ff0_0000_0000_0001, 0xfff0_0000_0000_0001, 0x7fff_ffff_ffff_ffff, 0xffff_ffff_ffff_ffff,
        1, 0x000f_ffff_ffff_ffff, 0x0010_0000_0000_0000, 0x7fef_ffff_ffff_ffff, 0xffef_ffff_ffff_ffff,
        0x3ff0_0000_0000_0000, 0xbff0_0000_0000_0000, 0x7ff4_0000_0000_0000,
    ];
    for _ in 0..24 {
        v.push(0x7ff8_0000_0000_0000 | r.below(1 << 51));          // quiet NaN payloads
        v.push(0x7ff0_0000_0000_0001 | r.below(1 << 51));          // signalling NaN payloads
        v.push(0xfff0_0000_0000_0001 | r.below(1 << 52));          // negative NaNs
        v.push(r.below(1 << 52));                                   // subnormals
        v.push(r.next());
    }
    v
}

/// the deterministic boundary set + `n_random` values from the shared corpus generator
pub fn gen_values(r: &mut Rng, n_random: usize) -> Vec<DbValue> {
    let mut vs: Vec<DbValue> = vec![];
    // bytes and ASCII strings: every length 0..=40, two contents each
    for len in 0..=40usize {
        vs.push(DbValue::Bytes((0..len).map(|_| r.next() as u8).collect()));
        vs.push(DbValue::Bytes(vec![if len % 2 == 0 { 0 } else { 0xff }; len]));
        vs.push(DbValue::String((0..len).map(|_| r.range(0x20, 0x7e) as u8 as char).collect()));
        vs.push(DbValue::String(std::iter::repeat('\0').take(len).collect()));
    }
    // unicode ending exactly at 14..17 bytes with a 2-, 3- and 4-byte sequence; all-multibyte strings
    for target in 13..=18usize {
        for tail in ['\u{e9}', '\u{7ff}', '\u{20ac}', '\u{ffff}', '\u{10000}', '\u{1f600}', '\u{10ffff}'] {
            vs.push(DbValue::String(padded(target, tail)));
        }
    }
    for n in 1..=10usize {
        vs.push(DbValue::String(std::iter::repeat('\u{e9}').take(n).collect()));       // 2n bytes
        vs.push(DbValue::String(std::iter::repeat('\u{20ac}').take(n).collect()));     // 3n bytes
        vs.push(DbValue::String(std::iter::repeat('\u{1f600}').take(n).collect()));    // 4n bytes
    }
    for z in [i64::MIN, i64::MAX, -1, 0, 1, i64::MIN + 1, 255, 256, -256] { vs.push(DbValue::I64(z)); }
    for n in [0u64, 1, u64::MAX, 1 << 63, (1 << 63) - 1, u64::MAX - 1, 0xff, 0x0100_0000_0000_0000] { vs.push(DbValue::U64(n)); }
    for b in float_bits(r) { vs.push(DbValue::F64(DbF64::from(f64::from_bits(b)))); }
    // vectors of every length 0..=20
    for len in 0..=20usize {
        vs.push(DbValue::VecI64((0..len).map(|_| i64::generate(r, 0)).collect()));
        vs.push(DbValue::VecU64((0..len).map(|_| u64::generate(r, 0)).collect()));
        vs.push(DbValue::VecF64((0..len).map(|_| DbF64::generate(r, 0)).collect()));
        vs.push(DbValue::VecString((0..len).map(|_| gen_string(r)).collect()));
    }
    vs.push(DbValue::VecI64(vec![i64::MIN, i64::MAX]));
    vs.push(DbValue::VecU64(vec![u64::MAX, 0]));
    vs.push(DbValue::VecF64(float_bits(r).into_iter().take(18).map(|b| DbF64::from(f64::from_bits(b))).collect()));
    vs.push(DbValue::VecString(vec![String::new(), padded(15, '\u{20ac}'), padded(16, '\u{1f600}'), "x".repeat(300)]));
    vs.push(DbValue::Bytes((0..300).map(|i| i as u8).collect()));
    vs.push(DbValue::String("y".repeat(5000)));
    // payloads beyond 64 KiB, not a multiple of any block size (storage back-ends that write or log in blocks)
    vs.push(DbValue::Bytes((0..70_001u32).map(|i| (i * 7 + (i >> 8)) as u8).collect()));
    vs.push(DbValue::String((0..140_003u32).map(|i| (b'a' + (i % 23) as u8) as char).collect()));
    vs.push(DbValue::VecI64((0..20_011i64).map(|i| i * 1_000_003 - 7).collect()));
    for _ in 0..n_random { vs.push(DbValue::generate(r, 0)); }
    let m = mark();
    vs.retain(|v| *v != m);
    vs
}

fn nontrivial(v: &DbValue) -> bool {
    match v {
        DbValue::Bytes(b) => b.len() >= 8,
        DbValue::String(s) => s.len() >= 8,
        DbValue::I64(z) => z.unsigned_abs() > 0xffff,
        DbValue::U64(n) => *n > 0xffff,
        DbValue::F64(f) => f.to_f64().to_bits() & 0x000f_ffff_ffff_ffff != 0,
        DbValue::VecI64(l) => !l.is_empty(), DbValue::VecU64(l) => !l.is_empty(),
        DbValue::VecF64(l) => !l.is_empty(), DbValue::VecString(l) => !l.is_empty(),
    }
}

fn rm(path: &str) {
    let _ = std::fs::remove_file(path);
    if let Some((dir, name)) = path.rsplit_once('/') { let _ = std::fs::remove_file(format!("{}/.{}", dir, name)); }
}

fn ids1(id: i64) -> QueryIds { QueryIds::Ids(vec![QueryId::Id(DbId(id))]) }

fn insert_batch<S: StorageData>(db: &mut DbImpl<S>, vals: &[DbValue]) -> Result<Vec<i64>, String> {
    let mut ids = vec![];
    for (i, v) in vals.iter().enumerate() {
        let kvs = vec![DbKeyValue { key: v.clone(), value: DbValue::I64(i as i64) }, DbKeyValue { key: mark(), value: v.clone() }];
        let r = db.exec_mut(InsertNodesQuery { count: 1, values: QueryValues::Single(kvs), aliases: vec![], ids: QueryIds::Ids(vec![]) })
            .map_err(|e| format!("insert {}: {}", show_value(v), e.description))?;
        ids.push(r.elements[0].id.0);
    }
    Ok(ids)
}

/// reads every value of the batch back; returns what the VALUE role read as (for the model tie)
fn read_batch<S: StorageData>(db: &DbImpl<S>, vals: &[DbValue], ids: &[i64], phase: &str, o: &mut Out) -> Vec<String> {
    let mut back = vec![];
    for (i, v) in vals.iter().enumerate() {
        o.evaluations += 1;
        o.count(&format!("read:{}", phase.split(':').next().unwrap_or(phase)), 1);
        let want = vec![DbKeyValue { key: v.clone(), value: DbValue::I64(i as i64) }, DbKeyValue { key: mark(), value: v.clone() }];
        let want_s: Vec<String> = want.iter().map(show_kv).collect();
        match db.exec(SelectValuesQuery { keys: vec![], ids: ids1(ids[i]) }) {
            Ok(r) => {
                let got: Vec<String> = r.elements.first().map(|e| e.values.iter().map(show_kv).collect()).unwrap_or_default();
                if got != want_s {
                    o.fail(&format!("value-mismatch-{}", kind(v)), format!("phase={} stored={} read={}", phase, want_s.join(" "), got.join(" ")));
                }
                // derived equality must agree with the bit comparison as well
                if r.elements.first().map(|e| e.values != want).unwrap_or(true) && got == want_s {
                    o.fail(&format!("value-eq-{}", kind(v)), format!("phase={} {} compares unequal to itself after reading", phase, show_value(v)));
                }
                back.push(r.elements.first().and_then(|e| e.values.get(1)).map(|kv| format!("ok {}", show_value(&kv.value))).unwrap_or("missing".into()));
            }
            Err(e) => { o.fail("value-error", format!("phase={} select values of {}: {}", phase, show_value(v), e.description)); back.push("err".into()); }
        }
        // the value as KEY: select by key finds exactly the pair
        match db.exec(SelectValuesQuery { keys: vec![v.clone()], ids: ids1(ids[i]) }) {
            Ok(r) => {
                let got: Vec<String> = r.elements.first().map(|e| e.values.iter().map(show_kv).collect()).unwrap_or_default();
                if got != want_s[0..1] {
                    o.fail(&format!("value-key-lookup-{}", kind(v)), format!("phase={} key={} read={}", phase, show_value(v), got.join(" ")));
                }
            }
            Err(e) => o.fail(&format!("value-key-lookup-{}", kind(v)), format!("phase={} key={} error {}", phase, show_value(v), e.description)),
        }
        match db.exec(SelectKeysQuery(ids1(ids[i]))) {
            Ok(r) => {
                let got: Vec<String> = r.elements.first().map(|e| e.values.iter().map(|kv| show_value(&kv.key)).collect()).unwrap_or_default();
                if got != vec![show_value(v), show_value(&mark())] {
                    o.fail(&format!("value-mismatch-{}", kind(v)), format!("phase={} select keys stored={} read={}", phase, show_value(v), got.join(" ")));
                }
            }
            Err(e) => o.fail("value-error", format!("phase={} select keys: {}", phase, e.description)),
        }
    }
    back
}

fn guarded<T>(o: &mut Out, what: &str, f: impl FnOnce(&mut Out) -> T) -> Option<T> {
    match catch_unwind(AssertUnwindSafe(|| f(o))) {
        Ok(t) => Some(t),
        Err(_) => { o.fail("value-panic", what.to_string()); None }
    }
}

fn run_variant<S: StorageData>(variant: &str, path: &str, vals: &[DbValue], o: &mut Out, open: impl Fn(&str) -> Result<DbImpl<S>, DbError>) -> Option<(Vec<i64>, Vec<String>)> {
    rm(path);
    let what = format!("variant={} batch of {} values starting with {}", variant, vals.len(), vals.first().map(show_value).unwrap_or_default());
    guarded(o, &what, |o| {
        let mut db = match open(path) { Ok(d) => d, Err(e) => { o.fail("value-error", format!("open {}: {}", variant, e.description)); return (vec![], vec![]); } };
        let ids = match insert_batch(&mut db, vals) { Ok(i) => i, Err(e) => { o.fail("value-error", format!("variant={} {}", variant, e)); return (vec![], vec![]); } };
        let back = read_batch(&db, vals, &ids, &format!("live:{}", variant), o);
        if variant == "memory" {
            // persistence of the in-memory variant: backup + load
            if let Err(e) = db.backup(path) { o.fail("value-error", format!("backup: {}", e.description)); }
        }
        (ids, back)
    })
}

fn reopen_as<S: StorageData>(phase: &str, path: &str, vals: &[DbValue], ids: &[i64], o: &mut Out, open: impl Fn(&str) -> Result<DbImpl<S>, DbError>) {
    let what = format!("phase={} batch starting with {}", phase, vals.first().map(show_value).unwrap_or_default());
    guarded(o, &what, |o| {
        match open(path) {
            Ok(db) => { read_batch(&db, vals, ids, phase, o); }
            Err(e) => o.fail("value-error", format!("phase={} reopen: {}", phase, e.description)),
        }
    });
}

// ---------------------------------------------------------------- recording store (index bytes)

#[derive(Clone, Default)]
struct Log(Rc<RefCell<Vec<(u64, Vec<u8>)>>>);

struct RecStore { inner: MemoryStorage, log: Log }

impl StorageData for RecStore {
    fn backup(&self, name: &str) -> Result<(), DbError> { self.inner.backup(name) }
    fn copy(&self, name: &str) -> Result<Self, DbError> { Ok(RecStore { inner: self.inner.copy(name)?, log: self.log.clone() }) }
    fn flush(&mut self) -> Result<(), DbError> { self.inner.flush() }
    fn len(&self) -> u64 { self.inner.len() }
    fn name(&self) -> &str { self.inner.name() }
    fn new(name: &str) -> Result<Self, DbError> {
        Ok(RecStore { inner: MemoryStorage::new(name)?, log: Log::default() })
    }
    fn read(&'_ self, pos: u64, len: u64) -> Result<StorageSlice<'_>, DbError> { self.inner.read(pos, len) }
    fn rename(&mut self, n: &str) -> Result<(), DbError> { self.inner.rename(n) }
    fn resize(&mut self, n: u64) -> Result<(), DbError> { self.inner.resize(n) }
    fn write(&mut self, pos: u64, bytes: &[u8]) -> Result<(), DbError> {
        self.log.0.borrow_mut().push((pos, bytes.to_vec()));
        self.inner.write(pos, bytes)
    }
}

fn out_of_line(ix: &[u8]) -> bool {
    let size = ix[15] & 0x0f;
    size == 0 && ix[0..8] != [0u8; 8]
}

/// the record content written for storage index `idx`: a 16 byte header write (index, size) followed by the data write
fn record_of(writes: &[(u64, Vec<u8>)], idx: u64) -> String {
    for w in (0..writes.len().saturating_sub(1)).rev() {
        let (_, h) = &writes[w];
        if h.len() == 16 && h[0..8] == idx.to_le_bytes() {
            let size = u64::from_le_bytes(h[8..16].try_into().unwrap());
            if size == 0 { return hex(&[]); }
            let (_, d) = &writes[w + 1];
            if d.len() as u64 == size { return hex(d); }
        }
    }
    "?".into()
}

fn index_bytes(k: &DbValue, v: &DbValue) -> (String, String) {
    let log = Log::default();
    let r = (|| -> Result<(String, String), String> {
        let data = RecStore { inner: MemoryStorage::new("c12-rec-no-such-file").map_err(|e| e.description)?, log: log.clone() };
        let mut db: DbImpl<RecStore> = DbImpl::with_data(data).map_err(|e| e.description)?;
        let id = db.exec_mut(InsertNodesQuery { count: 1, values: QueryValues::Single(vec![]), aliases: vec![], ids: QueryIds::Ids(vec![]) })
            .map_err(|e| e.description)?.elements[0].id;
        log.0.borrow_mut().clear();
        db.exec_mut(InsertValuesQuery { ids: QueryIds::Ids(vec![QueryId::Id(id)]), values: QueryValues::Single(vec![DbKeyValue { key: k.clone(), value: v.clone() }]) })
            .map_err(|e| e.description)?;
        let writes = log.0.borrow().clone();
        let pair = writes.iter().rev().find(|(_, b)| b.len() == 32 && (1..=9).contains(&(b[15] >> 4)) && (1..=9).contains(&(b[31] >> 4)))
            .map(|(_, b)| b.clone()).ok_or("no 32 byte pair write".to_string())?;
        let mut norm = pair.clone();
        let mut recs = vec![];
        for half in 0..2 {
            let ix = &pair[16 * half..16 * half + 16];
            if out_of_line(ix) {
                let idx = u64::from_le_bytes(ix[0..8].try_into().unwrap());
                recs.push(record_of(&writes, idx));
                for b in &mut norm[16 * half..16 * half + 8] { *b = 0; }
            } else { recs.push("-".into()); }
        }
        let back = match db.exec(SelectValuesQuery { keys: vec![], ids: QueryIds::Ids(vec![QueryId::Id(id)]) }) {
            Ok(r) => r.elements.first().and_then(|e| e.values.first()).map(|kv| format!("ok {}", show_kv(kv))).unwrap_or("missing".into()),
            Err(e) => format!("err {}", e.description),
        };
        Ok((format!("ix {} {} {}", hex(&norm), recs[0], recs[1]), back))
    })();
    r.unwrap_or_else(|e| (format!("err {}", e), format!("err {}", e)))
}

// ---------------------------------------------------------------- driver

/// every way of building a float value must keep all 64 bits (NaN payloads, signalling and negative NaNs,
/// signed zeros, subnormals): the rest of this run compares DbValues built through these constructors, which
/// would hide a constructor that normalises
fn construction_keeps_bits(r: &mut Rng, o: &mut Out) {
    let mut fr = r.fork();
    for b in float_bits(&mut fr) {
        let x = f64::from_bits(b);
        let ways: [(&str, u64); 4] = [
            ("DbF64::from(f64).to_f64()", DbF64::from(x).to_f64().to_bits()),
            ("DbValue::from(f64)", match DbValue::from(x) { DbValue::F64(f) => f.to_f64().to_bits(), _ => !b }),
            ("DbValue::from(Vec<f64>)", match DbValue::from(vec![x]) { DbValue::VecF64(l) if l.len() == 1 => l[0].to_f64().to_bits(), _ => !b }),
            ("DbValue::F64(..).to_f64()", DbValue::F64(DbF64::from(x)).to_f64().map(|f| f.to_f64().to_bits()).unwrap_or(!b)),
        ];
        for (what, got) in ways {
            o.count("f64:construction-checked", 1);
            if got != b { o.fail("value-f64-bits-changed", format!("{} changed the bit pattern {:016x} into {:016x}", what, b, got)); }
        }
    }
}

// values above this payload size are checked on the implementation only (bit-for-bit oracle through every variant); the extracted
// model evaluates them too slowly for a per-change check and the theorems cover every length anyway
const MODEL_MAX_PAYLOAD: usize = 6000;
fn payload_len(v: &DbValue) -> usize {
    match v {
        DbValue::Bytes(b) => b.len(), DbValue::String(s) => s.len(), DbValue::VecI64(l) => l.len() * 8, DbValue::VecU64(l) => l.len() * 8,
        DbValue::VecF64(l) => l.len() * 8, DbValue::VecString(l) => l.iter().map(|s| s.len() + 8).sum(), _ => 8,
    }
}

pub fn run(r: &mut Rng, n_random: usize, dir: &str, o: &mut Out) {
    construction_keeps_bits(r, o);
    let vals = gen_values(r, n_random);
    for v in &vals {
        o.count(&format!("kind:{}", kind(v)), 1);
        let s = show_value(v);
        if nontrivial(v) && o.distinct.insert(s.clone()) { o.nontrivial += 1; }
        match v {
            DbValue::Bytes(b) => o.count(if b.len() <= 15 { "bytes:inline" } else { "bytes:out-of-line" }, 1),
            DbValue::String(b) => o.count(if b.len() <= 15 { "string:inline" } else { "string:out-of-line" }, 1),
            DbValue::F64(f) if f.to_f64().is_nan() => o.count("f64:nan", 1),
            _ => {}
        }
        if o.samples.len() < 12 && nontrivial(v) && s.len() < 200 { o.samples.push(s); }
    }
    let batch = 64;
    for (b, chunk) in vals.chunks(batch).enumerate() {
        let pm = format!("{}/c12_mem_{}.agdb", dir, b);
        let pf = format!("{}/c12_file_{}.agdb", dir, b);
        let pp = format!("{}/c12_mapped_{}.agdb", dir, b);
        // DbMemory
        let mem = run_variant::<MemoryStorage>("memory", &pm, chunk, o, |p| DbMemory::new(p));
        if let Some((ids, back)) = &mem {
            if !ids.is_empty() {
                reopen_as::<MemoryStorage>("reload:memory", &pm, chunk, ids, o, |p| DbMemory::new(p));
                reopen_as::<FileStorage>("cross:memory->file", &pm, chunk, ids, o, |p| DbFile::new(p));
            }
            for (v, line) in chunk.iter().zip(back.iter()) {
                if payload_len(v) > MODEL_MAX_PAYLOAD { o.count("large-payload:implementation-only", 1); continue; }
                o.cases.push(format!("value rt {}", show_value(v)));
                o.imp.push(line.clone());
            }
        }
        // DbFile
        if let Some((ids, _)) = run_variant::<FileStorage>("file", &pf, chunk, o, |p| DbFile::new(p)) {
            if !ids.is_empty() {
                reopen_as::<FileStorage>("reopen:file", &pf, chunk, &ids, o, |p| DbFile::new(p));
                reopen_as::<FileStorageMemoryMapped>("cross:file->mapped", &pf, chunk, &ids, o, |p| Db::new(p));
                reopen_as::<MemoryStorage>("cross:file->memory", &pf, chunk, &ids, o, |p| DbMemory::new(p));
                reopen_as::<AnyStorage>("cross:file->any_file", &pf, chunk, &ids, o, |p| DbAny::new_file(p));
            }
        }
        // Db (memory mapped)
        if let Some((ids, _)) = run_variant::<FileStorageMemoryMapped>("mapped", &pp, chunk, o, |p| Db::new(p)) {
            if !ids.is_empty() {
                reopen_as::<FileStorageMemoryMapped>("reopen:mapped", &pp, chunk, &ids, o, |p| Db::new(p));
                reopen_as::<FileStorage>("cross:mapped->file", &pp, chunk, &ids, o, |p| DbFile::new(p));
                reopen_as::<AnyStorage>("cross:mapped->any_mapped", &pp, chunk, &ids, o, |p| DbAny::new_mapped(p));
            }
        }
        rm(&pm); rm(&pf); rm(&pp);
    }
    // pairs: model kv round trip and the index bytes actually written
    let n = vals.len();
    for i in 0..n {
        let k = &vals[i];
        let v = &vals[(i * 7 + 3) % n];
        if payload_len(k) > MODEL_MAX_PAYLOAD || payload_len(v) > MODEL_MAX_PAYLOAD { continue; }
        if k == v && matches!(k, DbValue::F64(_)) { /* fine: same value as key and value */ }
        let (line, back) = guarded(o, &format!("index bytes of {} {}", show_value(k), show_value(v)), |_| index_bytes(k, v)).unwrap_or(("panic".into(), "panic".into()));
        o.cases.push(format!("value ix {} {}", show_value(k), show_value(v)));
        o.imp.push(line);
        o.cases.push(format!("value kv {} {}", show_value(k), show_value(v)));
        o.imp.push(back);
        o.evaluations += 1;
        o.count("pair:index-bytes", 1);
    }
}
