// dbgen.rs — structured generator of query histories.  The generator looks at the live
// ids / aliases of the database it is driving (mostly-valid operations) and mixes in a
// smaller stream of invalid ones.  Every choice derives from the one PRNG.
use crate::corpus::Corpus;
use crate::dbq::*;
use crate::rng::Rng;
use agdb::*;

#[derive(Clone, Default)]
pub struct Live {
    pub nodes: Vec<i64>,
    pub edges: Vec<i64>,
    pub aliases: Vec<String>,
    pub index_keys: Vec<DbValue>,
}

#[derive(Clone, Copy, PartialEq)]
pub enum Profile { Graph, Kv, Alias, Index, Txn, Search, All, Hash, Big, BigPath }

pub fn profile_of(s: &str) -> Profile {
    match s { "graph" => Profile::Graph, "kv" => Profile::Kv, "alias" => Profile::Alias, "index" => Profile::Index,
              "txn" => Profile::Txn, "search" => Profile::Search, "big" => Profile::Big, "bigpath" => Profile::BigPath, "hash" => Profile::Hash, _ => Profile::All }
}

pub fn gen_key(r: &mut Rng) -> DbValue {
    match r.below(12) {
        0 => DbValue::I64(r.below(3) as i64),
        1 => DbValue::U64(r.below(2)),
        2 => DbValue::String("a-rather-long-key-name-over-15".into()),
        _ => DbValue::String(format!("k{}", r.below(5))),
    }
}

pub fn gen_small_value(r: &mut Rng) -> DbValue {
    match r.below(16) {
        0 | 1 | 2 => DbValue::I64(r.below(6) as i64 - 2),
        3 | 4 => DbValue::U64(r.below(5)),
        5 => DbValue::F64(DbF64::from([0.0, -0.0, 1.5, -2.25, f64::NAN, f64::INFINITY][r.below(6) as usize])),
        6 | 7 => DbValue::String(["", "a", "ab", "abc", "b", "hello world, longer than fifteen"][r.below(6) as usize].to_string()),
        8 => DbValue::VecI64((0..r.below(4)).map(|_| r.below(4) as i64 - 1).collect()),
        9 => DbValue::VecU64((0..r.below(4)).map(|_| r.below(4)).collect()),
        10 => DbValue::VecString((0..r.below(3)).map(|_| ["a", "b", "ab"][r.below(3) as usize].to_string()).collect()),
        11 => DbValue::VecF64((0..r.below(3)).map(|_| DbF64::from([0.0, 1.5, -2.25][r.below(3) as usize])).collect()),
        12 => DbValue::Bytes((0..r.below(4)).map(|_| r.below(3) as u8).collect()),
        13 => DbValue::generate(r, 0),
        _ => DbValue::I64(r.below(4) as i64),
    }
}

// key-value list with distinct keys
pub fn gen_kvs(r: &mut Rng, max: u64) -> Vec<DbKeyValue> {
    let n = r.below(max + 1);
    let mut out: Vec<DbKeyValue> = vec![];
    for _ in 0..n {
        let k = gen_key(r);
        if !out.iter().any(|x| x.key == k) {
            out.push(DbKeyValue { key: k, value: gen_small_value(r) });
        }
    }
    out
}

pub fn gen_alias(r: &mut Rng, live: &Live, fresh_bias: u64) -> String {
    if !live.aliases.is_empty() && !r.chance(fresh_bias, 10) {
        r.pick(&live.aliases).clone()
    } else {
        match r.below(12) {
            0 => "a-long-alias-name-exceeding-fifteen-bytes".to_string(),
            _ => format!("al{}", r.below(8)),
        }
    }
}

// profile-aware alias: the `hash` profile (C19) draws fresh aliases from a pool of 600 names so that a
// history of a few hundred steps uses several hundred DISTINCT hashed keys; every other profile is
// unchanged (same PRNG consumption as gen_alias).
pub fn gen_alias_p(r: &mut Rng, live: &Live, fresh_bias: u64, p: Profile) -> String {
    if p != Profile::Hash { return gen_alias(r, live, fresh_bias); }
    if !live.aliases.is_empty() && !r.chance(fresh_bias, 10) {
        r.pick(&live.aliases).clone()
    } else {
        hash_alias(r)
    }
}

fn hash_alias(r: &mut Rng) -> String {
    match r.below(10) {
        0 => format!("a-long-alias-name-exceeding-fifteen-bytes-{}", r.below(200)),
        _ => format!("h{}", r.below(400)),
    }
}

fn distinct_sample<T: Clone>(r: &mut Rng, xs: &[T], k: usize) -> Vec<T> {
    let mut v: Vec<T> = xs.to_vec();
    let k = k.min(v.len());
    for i in 0..k {
        let j = i + r.below((v.len() - i) as u64) as usize;
        v.swap(i, j);
    }
    v.truncate(k);
    v
}

// C19 (`hash` profile only): bulk operations that drive the alias maps (String -> DbId, DbId -> String) and
// the index multimap (DbValue -> DbId) across the 64 / 128 / 256 capacity boundaries in both directions
// within one history, with hundreds of distinct hashed keys.
fn gen_hash_bulk(r: &mut Rng, live: &Live) -> Option<Q> {
    if !r.chance(2, 5) { return None; }
    let index_key = || DbValue::String("k0".into());
    Some(match r.below(12) {
        0 | 1 => { // many new nodes with fresh aliases (and an indexed value each, half of the time)
            let n = r.range(8, 90) as usize;
            let mut aliases: Vec<String> = vec![];
            for _ in 0..4 * n {
                if aliases.len() >= n { break; }
                let a = hash_alias(r);
                if !aliases.contains(&a) && !live.aliases.contains(&a) { aliases.push(a); }
            }
            let n = aliases.len();
            let vals = if r.chance(1, 2) {
                Qvalues::Multi((0..n).map(|_| vec![DbKeyValue { key: index_key(), value: DbValue::I64(r.below(1000) as i64) }]).collect())
            } else { Qvalues::Single(vec![]) };
            Q::InsertNodes(0, vals, aliases, Qids::Ids(vec![]))
        }
        2 | 3 => { // remove many aliases (a random subset of the live ones, plus a few unknown)
            if live.aliases.is_empty() { return None; }
            let k = r.range(1, live.aliases.len() as u64) as usize;
            let mut l = distinct_sample(r, &live.aliases, k);
            for _ in 0..r.below(3) { l.push(hash_alias(r)); }
            Q::RemoveAliases(l)
        }
        4 => { // re-alias many existing nodes with fresh names (remove_key twice + insert each)
            if live.nodes.is_empty() { return None; }
            let k = r.range(1, live.nodes.len().min(70) as u64) as usize;
            let ids = distinct_sample(r, &live.nodes, k);
            let mut aliases: Vec<String> = vec![];
            for _ in 0..4 * ids.len() {
                if aliases.len() >= ids.len() { break; }
                let a = hash_alias(r);
                if !aliases.contains(&a) { aliases.push(a); }
            }
            let ids: Vec<i64> = ids.into_iter().take(aliases.len()).collect();
            Q::InsertAliases(Qids::Ids(ids.into_iter().map(Qid::Id).collect()), aliases)
        }
        5 => Q::InsertIndex(index_key()),
        6 | 7 => { // many distinct indexed values
            let mut elems: Vec<i64> = live.nodes.clone();
            elems.extend(live.edges.iter().cloned());
            if elems.is_empty() { return None; }
            let k = r.range(1, elems.len().min(90) as u64) as usize;
            let ids = distinct_sample(r, &elems, k);
            let vals = Qvalues::Multi(ids.iter().map(|_| vec![DbKeyValue { key: index_key(),
                value: if r.chance(1, 6) { DbValue::String(format!("v{}", r.below(300))) } else { DbValue::I64(r.below(1000) as i64) } }]).collect());
            Q::InsertValues(Qids::Ids(ids.into_iter().map(Qid::Id).collect()), vals)
        }
        8 => { // remove the indexed key from many elements
            let mut elems: Vec<i64> = live.nodes.clone();
            elems.extend(live.edges.iter().cloned());
            if elems.is_empty() { return None; }
            let k = r.range(1, elems.len() as u64) as usize;
            let ids = distinct_sample(r, &elems, k);
            Q::RemoveValues(Qids::Ids(ids.into_iter().map(Qid::Id).collect()), vec![index_key()])
        }
        9 | 10 => { // remove many nodes (their aliases, values and index entries go with them)
            if live.nodes.is_empty() { return None; }
            let k = r.range(1, live.nodes.len() as u64) as usize;
            let ids = distinct_sample(r, &live.nodes, k);
            Q::Remove(Qids::Ids(ids.into_iter().map(Qid::Id).collect()))
        }
        _ => if r.chance(1, 3) { Q::RemoveIndex(index_key()) } else { Q::InsertIndex(index_key()) },
    })
}

fn some_node(r: &mut Rng, live: &Live) -> i64 {
    if live.nodes.is_empty() || r.chance(1, 25) { r.below(12) as i64 + 1 } else { *r.pick(&live.nodes) }
}
fn some_edge(r: &mut Rng, live: &Live) -> i64 {
    if live.edges.is_empty() || r.chance(1, 25) { -(r.below(12) as i64 + 1) } else { *r.pick(&live.edges) }
}
fn some_elem(r: &mut Rng, live: &Live) -> i64 {
    if r.chance(2, 3) { some_node(r, live) } else { some_edge(r, live) }
}

pub fn gen_qid(r: &mut Rng, live: &Live, nodes_only: bool) -> Qid {
    if !live.aliases.is_empty() && r.chance(1, 4) { Qid::Alias(r.pick(&live.aliases).clone()) }
    else if r.chance(1, 40) { Qid::Alias(if r.chance(1, 3) { "" } else { "missing" }.into()) }
    else if r.chance(1, 60) { Qid::Id(0) }
    else if nodes_only { Qid::Id(some_node(r, live)) }
    else { Qid::Id(some_elem(r, live)) }
}

fn gen_cc(r: &mut Rng, max: u64) -> CC {
    let n = r.below(max + 1);
    match r.below(6) { 0 => CC::Eq(n), 1 => CC::Gt(n), 2 => CC::Ge(n), 3 => CC::Lt(n), 4 => CC::Le(n), _ => CC::Ne(n) }
}

pub fn gen_cond(r: &mut Rng, live: &Live, depth: u32) -> Cond {
    let data = match r.below(if depth >= 3 { 11 } else { 13 }) {
        0 | 1 => CondData::Distance(gen_cc(r, 5)),
        2 => CondData::Edge,
        3 => CondData::Node,
        4 => CondData::EdgeCount(gen_cc(r, 4)),
        5 => CondData::EdgeCountFrom(gen_cc(r, 3)),
        6 => CondData::EdgeCountTo(gen_cc(r, 3)),
        7 => CondData::Ids((0..r.range(1, 3)).map(|_| gen_qid(r, live, false)).collect()),
        8 | 9 => {
            let ops = ["eq", "gt", "ge", "lt", "le", "ne", "contains", "startswith", "endswith"];
            CondData::KeyValue(gen_key(r), ops[r.below(9) as usize], gen_small_value(r))
        }
        10 => CondData::Keys((0..r.range(0, 2)).map(|_| gen_key(r)).collect()),
        _ => CondData::Where((0..r.range(1, 3)).map(|_| gen_cond(r, live, depth + 1)).collect()),
    };
    Cond { and: r.chance(3, 5), modifier: ["none", "none", "none", "not", "beyond", "notbeyond"][r.below(6) as usize], data }
}

pub fn gen_search(r: &mut Rng, live: &Live, allow_index: bool, simple: bool) -> Search {
    let n = (live.nodes.len() + live.edges.len()) as u64;
    let alg = match r.below(10) { 0 | 1 | 2 | 3 => 'b', 4 | 5 | 6 => 'd', 7 | 8 => 'e', _ => if allow_index { 'i' } else { 'b' } };
    let mode = r.below(10); // from / to / path
    let (origin, dest) = if alg == 'e' || alg == 'i' { (Qid::Id(0), Qid::Id(0)) }
        else if mode < 5 { let n = r.chance(4, 5); (gen_qid(r, live, n), Qid::Id(0)) }
        else if mode < 7 { let n = r.chance(4, 5); (Qid::Id(0), gen_qid(r, live, n)) }
        else { (gen_qid(r, live, true), gen_qid(r, live, true)) };
    let (mut limit, mut offset) = if simple || r.chance(1, 2) { (0, 0) } else { (r.below(n + 4), r.below(n + 4)) };
    if !simple && r.chance(1, 12) {
        // u64 boundary: limit + offset must not overflow / wrap (LimitOffsetHandler::new, SearchQuery::slice)
        let big = [u64::MAX, u64::MAX - 1, 1u64 << 63][r.below(3) as usize];
        match r.below(3) { 0 => limit = big, 1 => offset = big, _ => { limit = big; offset = [u64::MAX, u64::MAX - 1, 1u64 << 63][r.below(3) as usize]; } }
    }
    let order = if simple || r.chance(2, 3) { vec![] } else { (0..r.range(1, 3)).map(|_| (r.chance(1, 2), gen_key(r))).collect() };
    let mut conds: Vec<Cond> = if r.chance(1, 3) { vec![] } else { (0..r.range(1, 3)).map(|_| gen_cond(r, live, 1)).collect() };
    if alg == 'i' {
        let key = if !live.index_keys.is_empty() && r.chance(9, 10) { r.pick(&live.index_keys).clone() } else { gen_key(r) };
        conds = vec![Cond { and: true, modifier: "none", data: CondData::KeyValue(key, "eq", gen_small_value(r)) }];
        if r.chance(1, 30) { conds = vec![]; }
    }
    Search { alg, origin, dest, limit, offset, order, conds }
}

fn gen_ids(r: &mut Rng, live: &Live, nodes_only: bool, max: u64, search_ok: bool) -> Qids {
    if search_ok && r.chance(1, 8) {
        Qids::Search(Box::new(gen_search(r, live, false, true)))
    } else {
        Qids::Ids((0..r.range(1, max)).map(|_| gen_qid(r, live, nodes_only)).collect())
    }
}

fn gen_qvalues(r: &mut Rng, count: usize) -> Qvalues {
    if r.chance(1, 2) { Qvalues::Single(gen_kvs(r, 3)) }
    else {
        let n = if r.chance(1, 12) { count + 1 } else { count };
        Qvalues::Multi((0..n).map(|_| gen_kvs(r, 3)).collect())
    }
}

pub fn gen_mut(r: &mut Rng, live: &Live, p: Profile) -> Q {
    if p == Profile::Hash {
        if let Some(q) = gen_hash_bulk(r, live) { return q; }
    }
    // weights: [insert_nodes, insert_edges, insert_aliases, insert_values, insert_index, remove_index, remove, remove_aliases, remove_values]
    let w: [u64; 9] = match p {
        Profile::Graph => [8, 10, 1, 2, 0, 0, 8, 0, 1],
        Profile::Kv => [4, 3, 0, 12, 0, 0, 3, 0, 8],
        Profile::Alias => [5, 2, 12, 1, 0, 0, 5, 6, 0],
        Profile::Index => [4, 3, 0, 10, 3, 2, 4, 0, 6],
        Profile::Hash => [2, 0, 14, 4, 1, 0, 1, 12, 2],
        _ => [6, 6, 4, 7, 2, 1, 5, 2, 4],
    };
    let total: u64 = w.iter().sum();
    let mut x = r.below(total);
    let mut k = 0;
    while x >= w[k] { x -= w[k]; k += 1; }
    match k {
        0 => {
            match r.below(6) {
                0 => { // insert-or-update through ids
                    let ids = gen_ids(r, live, true, 3, true);
                    let n = if let Qids::Ids(l) = &ids { l.len() } else { 1 };
                    // insert-or-update may also (re)assign aliases of the existing nodes
                    let mut aliases: Vec<String> = if r.chance(1, 2) { (0..r.below(n as u64 + 1)).map(|_| gen_alias_p(r, live, 4, p)).collect() } else { vec![] };
                    // an empty alias must be rejected without effect (C10), at any position
                    if !aliases.is_empty() && r.chance(1, 20) { let k = r.below(aliases.len() as u64) as usize; aliases[k] = String::new(); }
                    Q::InsertNodes(0, gen_qvalues(r, n), aliases, ids)
                }
                1 | 2 => { // with aliases
                    let n = r.range(1, 3) as usize;
                    let mut aliases: Vec<String> = (0..n).map(|_| gen_alias_p(r, live, 7, p)).collect();
                    if r.chance(1, 20) { let k = r.below(aliases.len() as u64) as usize; aliases[k] = String::new(); }
                    let vals = if r.chance(1, 2) { Qvalues::Single(gen_kvs(r, 3)) } else { Qvalues::Multi((0..n + r.below(2) as usize).map(|_| gen_kvs(r, 3)).collect()) };
                    Q::InsertNodes(0, vals, aliases, Qids::Ids(vec![]))
                }
                _ => {
                    let c = r.range(1, 3);
                    let vals = if r.chance(2, 3) { Qvalues::Single(gen_kvs(r, 3)) } else { Qvalues::Multi((0..c).map(|_| gen_kvs(r, 3)).collect()) };
                    Q::InsertNodes(c, vals, vec![], Qids::Ids(vec![]))
                }
            }
        }
        1 => {
            if r.chance(1, 8) && !live.edges.is_empty() { // update edges through ids
                let ids = Qids::Ids((0..r.range(1, 2)).map(|_| Qid::Id(some_edge(r, live))).collect());
                let n = if let Qids::Ids(l) = &ids { l.len() } else { 1 };
                Q::InsertEdges(Qids::Ids(vec![]), Qids::Ids(vec![]), gen_qvalues(r, n), false, ids)
            } else {
                let from = gen_ids(r, live, true, 3, true);
                let to = if r.chance(1, 5) { from.clone() } else { gen_ids(r, live, true, 3, true) };
                let each = r.chance(1, 3);
                let (nf, nt) = (match &from { Qids::Ids(l) => l.len(), _ => 1 }, match &to { Qids::Ids(l) => l.len(), _ => 1 });
                let count = if each || nf != nt { nf * nt } else { nf };
                Q::InsertEdges(from, to, gen_qvalues(r, count), each, Qids::Ids(vec![]))
            }
        }
        2 => {
            let n = r.range(1, 2) as usize;
            let ids: Vec<Qid> = (0..n).map(|_| if r.chance(1, 10) { Qid::Id(some_edge(r, live)) } else { gen_qid(r, live, true) }).collect();
            let mut aliases: Vec<String> = (0..n).map(|_| if r.chance(1, 25) { String::new() } else { gen_alias_p(r, live, 5, p) }).collect();
            if r.chance(1, 20) { aliases.push("extra".into()); }
            Q::InsertAliases(Qids::Ids(ids), aliases)
        }
        3 => {
            let ids = gen_ids(r, live, false, 3, true);
            let n = if let Qids::Ids(l) = &ids { l.len() } else { 1 };
            Q::InsertValues(ids, gen_qvalues(r, n))
        }
        4 => Q::InsertIndex(gen_key(r)),
        5 => Q::RemoveIndex(if !live.index_keys.is_empty() && r.chance(4, 5) { r.pick(&live.index_keys).clone() } else { gen_key(r) }),
        6 => Q::Remove(gen_ids(r, live, false, 2, true)),
        7 => Q::RemoveAliases((0..r.range(1, 2)).map(|_| gen_alias_p(r, live, 2, p)).collect()),
        _ => Q::RemoveValues(gen_ids(r, live, false, 2, true), (0..r.range(1, 2)).map(|_| gen_key(r)).collect()),
    }
}

pub fn gen_select(r: &mut Rng, live: &Live, p: Profile) -> Q {
    if p == Profile::Search {
        return Q::SearchQ(Box::new(gen_search(r, live, true, false)));
    }
    match r.below(12) {
        0 | 1 => Q::SelectValues(if r.chance(1, 2) { vec![] } else { (0..r.range(1, 2)).map(|_| gen_key(r)).collect() }, gen_ids(r, live, false, 3, true)),
        2 => Q::SelectKeys(gen_ids(r, live, false, 3, true)),
        3 => Q::SelectKeyCount(gen_ids(r, live, false, 3, true)),
        4 => Q::SelectAliases(gen_ids(r, live, true, 3, true)),
        5 => Q::SelectAllAliases,
        6 => Q::SelectEdgeCount(gen_ids(r, live, false, 3, true), r.chance(1, 2), r.chance(1, 2)),
        7 => Q::SelectIndexes,
        8 => Q::SelectNodeCount,
        _ => Q::SearchQ(Box::new(gen_search(r, live, true, false))),
    }
}


// ---------------------------------------------------------------------------------------------
// Profile::Big — a few bulk steps build a graph of 15-45 nodes with tie-heavy keys ("g" in 0..3),
// a key "ok" present on part of the elements and many edges; then targeted searches:
// ordering with ties + limit/offset beyond 16 results, path searches whose conditions fail on some
// elements without stopping, and condition lists that chain a traversal-stopping condition with `or`.
pub fn gen_big_build(r: &mut Rng, live: &Live, stage: usize, dense: bool) -> Q {
    let kv = |k: &str, v: DbValue| DbKeyValue { key: DbValue::String(k.into()), value: v };
    let elem_kvs = |r: &mut Rng| {
        let mut l = vec![kv("g", DbValue::I64(r.below(3) as i64))];
        if r.chance(3, 5) { l.push(kv("ok", DbValue::I64(1))); }
        if r.chance(1, 2) { l.push(kv("w", DbValue::I64(r.below(5) as i64))); }
        l
    };
    if stage == 0 || live.nodes.len() < 4 {
        let n = if dense { r.range(5, 9) } else { r.range(12, 30) };
        Q::InsertNodes(0, Qvalues::Multi((0..n).map(|_| elem_kvs(r)).collect()), vec![], Qids::Ids(vec![]))
    } else {
        let pick = |r: &mut Rng, k: u64| -> Vec<Qid> { (0..k).map(|_| Qid::Id(*r.pick(&live.nodes))).collect() };
        if !dense && r.chance(1, 2) {
            let (a, b) = (r.range(3, 6), r.range(3, 6));
            Q::InsertEdges(Qids::Ids(pick(r, a)), Qids::Ids(pick(r, b)), Qvalues::Multi((0..a * b).map(|_| elem_kvs(r)).collect()), true, Qids::Ids(vec![]))
        } else {
            let a = r.range(8, 20);
            Q::InsertEdges(Qids::Ids(pick(r, a)), Qids::Ids(pick(r, a)), Qvalues::Multi((0..a).map(|_| elem_kvs(r)).collect()), false, Qids::Ids(vec![]))
        }
    }
}

fn plain_cond(r: &mut Rng, live: &Live, and: bool) -> Cond {
    let s = |k: &str| DbValue::String(k.into());
    let data = match r.below(6) {
        0 => CondData::Node,
        1 => CondData::Edge,
        2 => CondData::Keys(vec![s("ok")]),
        3 => CondData::KeyValue(s("g"), ["eq", "ne", "lt", "ge"][r.below(4) as usize], DbValue::I64(r.below(3) as i64)),
        4 => CondData::EdgeCountFrom(gen_cc(r, 3)),
        _ => CondData::Ids((0..r.range(1, 3)).map(|_| gen_qid(r, live, false)).collect()),
    };
    Cond { and, modifier: if r.chance(1, 6) { "not" } else { "none" }, data }
}

fn stopping_cond(r: &mut Rng, live: &Live, and: bool) -> Cond {
    match r.below(4) {
        0 => Cond { and, modifier: "none", data: CondData::Distance(CC::Eq(r.range(1, 4))) },
        1 => { let mut c = plain_cond(r, live, and); c.modifier = "notbeyond"; c }
        2 => { let mut c = plain_cond(r, live, and); c.modifier = "beyond"; c }
        _ => Cond { and, modifier: "none", data: CondData::Where(vec![stopping_cond(r, live, true), { let a = r.chance(1, 2); plain_cond(r, live, a) }]) },
    }
}

pub fn gen_big_search(r: &mut Rng, live: &Live, path_only: bool) -> Search {
    let n = (live.nodes.len() + live.edges.len()) as u64;
    let s = |k: &str| DbValue::String(k.into());
    let node = |r: &mut Rng| if live.nodes.is_empty() { Qid::Id(1) } else { Qid::Id(*r.pick(&live.nodes)) };
    match if path_only { 1 } else { r.below(3) } {
        0 => { // ordering with ties and a cut inside a large result
            let alg = ['b', 'd', 'e'][r.below(3) as usize];
            let mut order = vec![(r.chance(1, 2), s(["g", "g", "missing", "w"][r.below(4) as usize]))];
            if r.chance(1, 3) { order.push((r.chance(1, 2), s("w"))); }
            let limit = if r.chance(5, 6) { r.range(1, n.max(2)) } else { 0 };
            let offset = if r.chance(1, 2) { 0 } else { r.below(n / 2 + 1) };
            let conds = if r.chance(1, 2) { vec![] } else { vec![plain_cond(r, live, true)] };
            Search { alg, origin: if alg == 'e' { Qid::Id(0) } else { node(r) }, dest: Qid::Id(0), limit, offset, order, conds }
        }
        1 => { // path search with conditions that fail on some elements without stopping the search
            let conds = match r.below(4) {
                0 => vec![Cond { and: true, modifier: "none", data: CondData::Keys(vec![s("ok")]) }],
                1 => vec![Cond { and: true, modifier: "none", data: CondData::KeyValue(s("g"), "ne", DbValue::I64(r.below(3) as i64)) }],
                2 => vec![plain_cond(r, live, true), { let a = r.chance(1, 2); plain_cond(r, live, a) }],
                _ => vec![],
            };
            let (limit, offset) = if r.chance(3, 4) { (0, 0) } else { (r.below(8), r.below(4)) };
            Search { alg: 'b', origin: node(r), dest: node(r), limit, offset, order: vec![], conds }
        }
        _ => { // a traversal-stopping condition chained with or / and
            let mut conds = vec![stopping_cond(r, live, true)];
            conds.push({ let a = r.chance(1, 3); plain_cond(r, live, a) });
            if r.chance(1, 3) { conds.push({ let a = r.chance(1, 2); plain_cond(r, live, a) }); }
            if r.chance(1, 4) { conds.rotate_left(1); }
            let alg = ['b', 'd'][r.below(2) as usize];
            let (origin, dest) = if r.chance(3, 4) { (node(r), Qid::Id(0)) } else { (Qid::Id(0), node(r)) };
            Search { alg, origin, dest, limit: 0, offset: 0, order: vec![], conds }
        }
    }
}


// BigPath builder: a handful of nodes, two to four routes of different hop counts between the first and the
// last node, and the key "ok" on a random subset of nodes and edges: the cheapest path (pass = 1, fail = 2) is
// often NOT the one with the fewest elements.
pub fn gen_routes_build(r: &mut Rng, live: &Live, stage: usize) -> Q {
    let kv_ok = DbKeyValue { key: DbValue::String("ok".into()), value: DbValue::I64(1) };
    if stage == 0 || live.nodes.len() < 3 {
        return Q::InsertNodes(r.range(5, 8), Qvalues::Single(vec![]), vec![], Qids::Ids(vec![]));
    }
    let first = live.nodes[0];
    let last = *live.nodes.last().unwrap();
    let mids: Vec<i64> = live.nodes[1..live.nodes.len() - 1].to_vec();
    if stage == 1 {
        // route A through the first a intermediate nodes, route B through the next b > a ones
        let a = r.range(1, 2).min(mids.len() as u64) as usize;
        let b = (a + 1 + r.below(2) as usize).min(mids.len().saturating_sub(a));
        let mut from = vec![]; let mut to = vec![];
        for route in [&mids[..a], &mids[a..a + b]] {
            let mut prev = first;
            for m in route { from.push(Qid::Id(prev)); to.push(Qid::Id(*m)); prev = *m; }
            from.push(Qid::Id(prev)); to.push(Qid::Id(last));
        }
        return Q::InsertEdges(Qids::Ids(from), Qids::Ids(to), Qvalues::Single(vec![]), false, Qids::Ids(vec![]));
    }
    if stage == 2 {
        // a random extra route first -> (k distinct intermediate nodes) -> last
        let mut from = vec![]; let mut to = vec![];
        let k = r.below(4).min(mids.len() as u64) as usize;
        let mut pool = mids.clone();
        let mut prev = first;
        for _ in 0..k {
            let i = r.below(pool.len() as u64) as usize;
            let m = pool.remove(i);
            from.push(Qid::Id(prev)); to.push(Qid::Id(m)); prev = m;
        }
        from.push(Qid::Id(prev)); to.push(Qid::Id(last));
        return Q::InsertEdges(Qids::Ids(from), Qids::Ids(to), Qvalues::Single(vec![]), false, Qids::Ids(vec![]));
    }
    if stage == 3 {
        // "ok" on (almost) all elements
        let mut ids: Vec<Qid> = vec![];
        for id in live.nodes.iter().chain(live.edges.iter()) { if r.chance(9, 10) { ids.push(Qid::Id(*id)); } }
        if ids.is_empty() { ids.push(Qid::Id(first)); }
        return Q::InsertValues(Qids::Ids(ids), Qvalues::Single(vec![kv_ok]));
    }
    // stage >= 4: one intermediate node and its outgoing (even stage) / incoming (odd stage) edges lose "ok":
    // every route through it now consists of failing elements
    let m = if mids.is_empty() { first } else if stage <= 5 { mids[0] } else { mids[(r.below(mids.len() as u64)) as usize] };
    let near = Cond { and: true, modifier: "none", data: CondData::Distance(CC::Le(1)) };
    let (o, d) = if stage % 2 == 0 { (Qid::Id(m), Qid::Id(0)) } else { (Qid::Id(0), Qid::Id(m)) };
    Q::RemoveValues(Qids::Search(Box::new(Search { alg: 'b', origin: o, dest: d, limit: 0, offset: 0, order: vec![], conds: vec![near] })),
                    vec![DbValue::String("ok".into())])
}

pub fn gen_routes_search(r: &mut Rng, live: &Live) -> Search {
    let s = |k: &str| DbValue::String(k.into());
    let (o, d) = if live.nodes.len() >= 2 && r.chance(3, 4) { (live.nodes[0], *live.nodes.last().unwrap()) }
                 else if live.nodes.is_empty() { (1, 2) } else { (*r.pick(&live.nodes), *r.pick(&live.nodes)) };
    let conds = match r.below(5) {
        0 | 1 => vec![Cond { and: true, modifier: "none", data: CondData::Keys(vec![s("ok")]) }],
        2 => vec![Cond { and: true, modifier: "not", data: CondData::Keys(vec![s("ok")]) }],
        3 => vec![Cond { and: true, modifier: "none", data: CondData::Keys(vec![s("ok")]) }, Cond { and: false, modifier: "none", data: CondData::Node }],
        _ => vec![],
    };
    let (limit, offset) = if r.chance(4, 5) { (0, 0) } else { (r.below(6), r.below(3)) };
    Search { alg: 'b', origin: Qid::Id(o), dest: Qid::Id(d), limit, offset, order: vec![], conds }
}
