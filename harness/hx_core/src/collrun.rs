// collrun.rs — C05, the collection layer: drives the real storage-backed collections (through the
// cfg(agdb_verif) wrappers of hook H4: agdb::verif::{VDbVecU64, VDbVecI64, VDbVecString, VDbVecValue, VDbVecKeyValue, VMapDataU64,
// VMapDataStr, VMultiMapOn, VGraphData} over a VStorage) on MemoryStorage, FileStorage and
// FileStorageMemoryMapped with generated operation histories in which the handle is dropped and rebuilt
// with from_storage (reload) and the storage underneath is optimized, dropped + reopened, backed up +
// reopened at random points.  After EVERY step it prints the observation, the handle (index, len, capacity)
// and EVERY live record of the storage with its raw bytes; the same line is produced by the extracted Coq
// model (extract/m_coll.ml: the programs of Collections.v run on the model of storage.rs) and the two are
// compared line by line — exactly, including the spare-capacity bytes and the indexes of out-of-line records.
// Direct oracle on the implementation (independent of the Coq model, oracle.txt, classes coll-*): a shadow
// list / table / multimap kept by this file; every read must agree with it, and the full content read through
// a reloaded handle must equal the content read before the reload / maintenance operation.
// Needs the cargo feature `h4_dbvec`.
use crate::rng::Rng;
use crate::sexp::hex;
use crate::dbq::{show_kv, show_value};
use agdb::verif::{VDbVecI64, VDbVecKeyValue, VDbVecString, VDbVecU64, VDbVecValue, VGraphData, VGraphField, VMapDataStr, VMapDataU64, VMultiMapOn, VStorage};
use agdb::{DbError, DbF64, DbKeyValue, DbValue, FileStorage, FileStorageMemoryMapped, MemoryStorage, StorageData};
use std::collections::BTreeMap;

pub struct Out {
    pub cases: Vec<String>, pub imp: Vec<String>, pub oracle: Vec<String>,
    pub stats: BTreeMap<String, u64>, pub samples: Vec<String>, pub nontrivial: u64, pub histories: u64, pub steps: u64,
}
impl Out {
    pub fn new() -> Self { Out { cases: vec![], imp: vec![], oracle: vec![], stats: BTreeMap::new(), samples: vec![], nontrivial: 0, histories: 0, steps: 0 } }
}
fn bump(o: &mut Out, k: &str) { *o.stats.entry(k.to_string()).or_insert(0) += 1; }

fn wal_name(path: &str) -> String {
    match path.rfind('/') { Some(i) => format!("{}/.{}", &path[..i], &path[i + 1..]), None => format!(".{}", path) }
}
fn rm_files(path: &str) { let _ = std::fs::remove_file(path); let _ = std::fs::remove_file(wal_name(path)); }
fn err_kind(e: &DbError) -> String { format!("{:?}", e.ty) }

#[derive(Clone, Copy, PartialEq, Debug)]
pub enum Kind { VecU64, VecI64, VecStr, VecVal, VecKv, MapU64, MapStr, Graph, MultiMap }
impl Kind {
    fn name(&self) -> &'static str {
        match self { Kind::VecU64 => "vec_u64", Kind::VecI64 => "vec_i64", Kind::VecStr => "vec_str", Kind::VecVal => "vec_val", Kind::VecKv => "vec_kv", Kind::MapU64 => "map_u64",
                     Kind::MapStr => "map_str", Kind::Graph => "graph", Kind::MultiMap => "mm_u64" }
    }
}

// the storage with its two file names and the high-water mark of record indexes
struct Store<D: StorageData> { st: Option<VStorage<D>>, path: String, alt: String, hwm: u64, mem: bool }

impl<D: StorageData> Store<D> {
    fn new(dir: &str, tag: &str, mem: bool) -> Result<Self, DbError> {
        let path = format!("{}/c{}_a.agdb", dir, tag);
        let alt = format!("{}/c{}_b.agdb", dir, tag);
        rm_files(&path); rm_files(&alt);
        let st = VStorage::<D>::new(&path)?;
        Ok(Store { st: Some(st), path, alt, hwm: 0, mem })
    }
    fn s(&mut self) -> &mut VStorage<D> { self.st.as_mut().unwrap() }
    fn r(&self) -> &VStorage<D> { self.st.as_ref().unwrap() }
    fn cleanup(&mut self) { self.st = None; rm_files(&self.path); rm_files(&self.alt); }
    // drop + open the same name; MemoryStorage has no persistence of its own: through a backup file
    fn reopen(&mut self) -> Result<(), DbError> {
        if self.mem { return self.copy(); }
        self.st = None;
        self.st = Some(VStorage::<D>::new(&self.path)?);
        Ok(())
    }
    fn copy(&mut self) -> Result<(), DbError> {
        rm_files(&self.alt);
        self.r().backup(&self.alt)?;
        self.st = None;
        rm_files(&self.path);
        std::mem::swap(&mut self.path, &mut self.alt);
        self.st = Some(VStorage::<D>::new(&self.path)?);
        Ok(())
    }
    fn maint(&mut self, m: &str) -> Result<(), DbError> {
        match m { "opt" => self.s().optimize_storage(), "reopen" => self.reopen(), _ => self.copy() }
    }
    // every live record: the table never has more slots than the largest number of records ever alive at once,
    // and every record takes at least 16 bytes of the file
    fn dump(&mut self) -> String {
        let n = self.r().len() / 16;
        if n > self.hwm { self.hwm = n; }
        let mut parts = vec![];
        for i in 1..=self.hwm {
            if let Ok(b) = self.r().value_as_bytes(i) { parts.push(format!("{:x}:{}", i, hex(&b))); }
        }
        format!("[{}]", parts.join(" "))
    }
}

fn ru(r: Result<(), DbError>) -> String { match r { Ok(()) => "u".into(), Err(e) => format!("e {}", err_kind(&e)) } }

// ---------------------------------------------------------------------------------------------------------
// vectors
// ---------------------------------------------------------------------------------------------------------
macro_rules! vec_runner {
    ($fname:ident, $vt:ident, $t:ty, $gen:expr, $show:expr) => {
        fn $fname<D: StorageData>(r: &mut Rng, store: &mut Store<D>, backend: &str, kind: Kind, steps: u64, o: &mut Out) {
            let show = $show;
            let genv = $gen;
            o.cases.push(format!("coll new {} {}", backend, kind.name()));
            let mut v = match $vt::<D>::new(store.s()) { Ok(v) => v, Err(e) => { o.imp.push(format!("error {}", err_kind(&e))); return; } };
            o.imp.push(format!("new | {:x},{:x},{:x} | {}", v.storage_index(), v.len(), v.capacity(), store.dump()));
            let mut shadow: Vec<$t> = vec![];
            let (mut reloads, mut maints, mut removes, mut grows) = (0u64, 0u64, 0u64, 0u64);
            let n = r.range(steps / 3, steps);
            for _ in 0..n {
                let len = shadow.len() as u64;
                let idx = |r: &mut Rng| if len == 0 || r.chance(1, 12) { len + r.below(3) } else { r.below(len) };
                let c = r.below(100);
                let (case, obs): (String, String);
                if c < 30 {
                    let x = genv(r); case = format!("(push {})", show(&x));
                    obs = ru(v.push(store.s(), &x)); shadow.push(x); grows += 1;
                } else if c < 40 {
                    let i = idx(r); let x = genv(r); case = format!("(replace {:x} {})", i, show(&x));
                    obs = match v.replace(store.s(), i, &x) { Ok(old) => { shadow[i as usize] = x; format!("v {}", show(&old)) } Err(e) => format!("e {}", err_kind(&e)) };
                } else if c < 52 {
                    let i = idx(r); case = format!("(remove {:x})", i);
                    obs = match v.remove(store.s(), i) { Ok(old) => { shadow.remove(i as usize); removes += 1; format!("v {}", show(&old)) } Err(e) => format!("e {}", err_kind(&e)) };
                } else if c < 60 {
                    let i = idx(r); let j = idx(r); case = format!("(swap {:x} {:x})", i, j);
                    let res = v.swap(store.s(), i, j);
                    if res.is_ok() && i != j { shadow.swap(i as usize, j as usize); }
                    obs = ru(res);
                } else if c < 66 {
                    let nl = if r.chance(1, 2) { r.below(len + 1) } else { len + r.below(12) }; let x = genv(r);
                    case = format!("(resize {:x} {})", nl, show(&x));
                    obs = ru(v.resize(store.s(), nl, &x)); shadow.resize(nl as usize, x);
                } else if c < 69 {
                    let cap = r.below(len + 20); case = format!("(reserve {:x})", cap); obs = ru(v.reserve(store.s(), cap));
                } else if c < 73 {
                    case = "shrink".into(); obs = ru(v.shrink_to_fit(store.s()));
                } else if c < 79 {
                    let i = idx(r); case = format!("(value {:x})", i);
                    obs = match v.value(store.r(), i) {
                        Ok(x) => { if shadow.get(i as usize) != Some(&x) { o.oracle.push(format!("coll-vec-value {} {} index {:x}: read {} shadow {:?}", backend, kind.name(), i, show(&x), shadow.get(i as usize).map(|y| show(y)))); } format!("v {}", show(&x)) }
                        Err(e) => { if (i as usize) < shadow.len() { o.oracle.push(format!("coll-vec-value {} {} index {:x}: error {} but the shadow has a value", backend, kind.name(), i, err_kind(&e))); } format!("e {}", err_kind(&e)) }
                    };
                } else if c < 84 {
                    case = "values".into(); let vs = v.values(store.r());
                    if vs != shadow { o.oracle.push(format!("coll-vec-values {} {}: read [{}] shadow [{}]", backend, kind.name(), vs.iter().map(|x| show(x)).collect::<Vec<_>>().join(" "), shadow.iter().map(|x| show(x)).collect::<Vec<_>>().join(" "))); }
                    obs = format!("vs [{}]", vs.iter().map(|x| show(x)).collect::<Vec<_>>().join(" "));
                } else if c < 86 {
                    case = "len".into(); obs = format!("n {:x}", v.len());
                    if v.len() != shadow.len() as u64 { o.oracle.push(format!("coll-vec-len {} {}: {} shadow {}", backend, kind.name(), v.len(), shadow.len())); }
                } else {
                    // reload and / or maintenance: the content read before must be the content read after
                    let before = v.values(store.r());
                    if c < 93 {
                        case = "reload".into(); reloads += 1;
                        let index = v.storage_index();
                        obs = match $vt::<D>::from_storage(store.r(), index) { Ok(nv) => { v = nv; "u".into() } Err(e) => { o.oracle.push(format!("coll-reload-error {} {}: from_storage({:x}) -> {}", backend, kind.name(), index, err_kind(&e))); format!("e {}", err_kind(&e)) } };
                    } else {
                        let m = *r.pick(&["opt", "reopen", "copy"]); case = m.into(); maints += 1;
                        obs = ru(store.maint(m));
                    }
                    let after = v.values(store.r());
                    if before != after || after != shadow {
                        o.oracle.push(format!("coll-reload-differs {} {} after {}: before [{}] after [{}] shadow [{}]", backend, kind.name(), case,
                            before.iter().map(|x| show(x)).collect::<Vec<_>>().join(" "), after.iter().map(|x| show(x)).collect::<Vec<_>>().join(" "),
                            shadow.iter().map(|x| show(x)).collect::<Vec<_>>().join(" ")));
                    }
                }
                bump(o, &format!("{} {}", kind.name(), case.trim_start_matches('(').split(' ').next().unwrap_or("")));
                o.cases.push(format!("coll op {}", case));
                o.imp.push(format!("{} | {:x},{:x},{:x} | {}", obs, v.storage_index(), v.len(), v.capacity(), store.dump()));
                o.steps += 1;
            }
            o.histories += 1;
            if reloads > 0 && maints > 0 && removes > 0 && grows > 2 { o.nontrivial += 1; }
            if o.samples.len() < 6 { o.samples.push(format!("{} {}: {} steps, final len {}, {} reloads, {} maintenance operations", backend, kind.name(), n, shadow.len(), reloads, maints)); }
        }
    };
}

fn gen_u64(r: &mut Rng) -> u64 { match r.below(6) { 0 => 0, 1 => u64::MAX, 2 => r.next(), _ => r.below(1000) } }
fn gen_i64(r: &mut Rng) -> i64 { match r.below(6) { 0 => 0, 1 => i64::MIN, 2 => i64::MAX, 3 => r.next() as i64, _ => r.below(1000) as i64 - 500 } }
fn gen_str(r: &mut Rng) -> String {
    let n = match r.below(5) { 0 => 0, 1 => r.range(8, 40), _ => r.range(1, 8) };
    (0..n).map(|_| *r.pick(&['a', 'b', 'Z', '0', ' ', 'é', 'ß', '€', '🙂'])).collect()
}

vec_runner!(run_vec_u64, VDbVecU64, u64, gen_u64, |x: &u64| format!("{:x}", x));
vec_runner!(run_vec_i64, VDbVecI64, i64, gen_i64, |x: &i64| format!("{:x}", *x as u64));
vec_runner!(run_vec_str, VDbVecString, String, gen_str, |x: &String| hex(x.as_bytes()));

// database values: inline up to 15 bytes, one out-of-line record beyond (the boundary lengths are favoured)
fn gen_blob_len(r: &mut Rng) -> usize { match r.below(6) { 0 => 0, 1 => 15, 2 => 16, 3 => r.range(17, 60) as usize, _ => r.range(1, 14) as usize } }
fn gen_dbv(r: &mut Rng) -> DbValue {
    match r.below(10) {
        0 => DbValue::I64(gen_i64(r)),
        1 => DbValue::U64(gen_u64(r)),
        2 => DbValue::F64(DbF64::from(f64::from_bits(match r.below(4) { 0 => 0x7ff8_0000_0000_0001, 1 => 0x8000_0000_0000_0000, _ => r.next() }))),
        3 | 4 => { let n = gen_blob_len(r); DbValue::String((0..n).map(|_| *r.pick(&['a', 'Z', '0', ' '])).collect()) }
        5 => DbValue::String(gen_str(r)),
        6 => { let n = gen_blob_len(r); DbValue::Bytes((0..n).map(|_| r.next() as u8).collect()) }
        7 => DbValue::VecI64((0..r.below(4)).map(|_| gen_i64(r)).collect()),
        8 => DbValue::VecU64((0..r.below(4)).map(|_| gen_u64(r)).collect()),
        _ => DbValue::VecString((0..r.below(3)).map(|_| gen_str(r)).collect()),
    }
}
fn gen_dbkv(r: &mut Rng) -> DbKeyValue { DbKeyValue { key: gen_dbv(r), value: gen_dbv(r) } }

vec_runner!(run_vec_val, VDbVecValue, DbValue, gen_dbv, |x: &DbValue| show_value(x));
vec_runner!(run_vec_kv, VDbVecKeyValue, DbKeyValue, gen_dbkv, |x: &DbKeyValue| show_kv(x));

// ---------------------------------------------------------------------------------------------------------
// DbMapData: the MapData interface (three vectors + the record with len)
// ---------------------------------------------------------------------------------------------------------
macro_rules! map_runner {
    ($fname:ident, $mt:ident, $k:ty, $gen:expr, $show:expr, $kdef:expr) => {
        fn $fname<D: StorageData>(r: &mut Rng, store: &mut Store<D>, backend: &str, kind: Kind, steps: u64, o: &mut Out) {
            let show = $show;
            let genv = $gen;
            o.cases.push(format!("coll new {} {}", backend, kind.name()));
            let mut m = match $mt::<D>::new(store.s()) { Ok(m) => m, Err(e) => { o.imp.push(format!("error {}", err_kind(&e))); return; } };
            o.imp.push(format!("new | {:x},{:x},{:x} | {}", m.storage_index(), m.len(), m.capacity(), store.dump()));
            // the shadow table
            let (mut ss, mut ks, mut vs, mut ln): (Vec<u8>, Vec<$k>, Vec<u64>, u64) = (vec![], vec![], vec![], 0);
            let (mut reloads, mut maints) = (0u64, 0u64);
            let n = r.range(steps / 3, steps);
            macro_rules! table { () => {{
                let mut t = vec![];
                for i in 0..m.capacity() { t.push((m.state(store.r(), i).ok(), m.key(store.r(), i).ok(), m.value(store.r(), i).ok())); }
                (t, m.len(), m.capacity())
            }}; }
            for _ in 0..n {
                let cap = ss.len() as u64;
                let idx = |r: &mut Rng| if cap == 0 || r.chance(1, 12) { cap + r.below(3) } else { r.below(cap) };
                let c = r.below(100);
                let (case, obs): (String, String);
                if c < 12 {
                    let i = idx(r); let s = r.below(3) as u8; case = format!("(set_state {:x} {:x})", i, s);
                    let res = m.set_state(store.s(), i, s); if res.is_ok() { ss[i as usize] = s; } obs = ru(res);
                } else if c < 26 {
                    let i = idx(r); let k = genv(r); case = format!("(set_key {:x} {})", i, show(&k));
                    let res = m.set_key(store.s(), i, &k); if res.is_ok() { ks[i as usize] = k; } obs = ru(res);
                } else if c < 38 {
                    let i = idx(r); let v = gen_u64(r); case = format!("(set_value {:x} {:x})", i, v);
                    let res = m.set_value(store.s(), i, &v); if res.is_ok() { vs[i as usize] = v; } obs = ru(res);
                } else if c < 44 {
                    let l = r.below(100); case = format!("(set_len {:x})", l); let res = m.set_len(store.s(), l); if res.is_ok() { ln = l; } obs = ru(res);
                } else if c < 54 {
                    let nc = if cap == 0 || r.chance(2, 3) { cap + r.range(1, 9) } else { r.below(cap + 1) }; case = format!("(resize {:x})", nc);
                    let res = m.resize(store.s(), nc);
                    if res.is_ok() { ss.resize(nc as usize, 0); ks.resize(nc as usize, $kdef); vs.resize(nc as usize, 0); }
                    obs = ru(res);
                } else if c < 64 {
                    let i = idx(r); let j = idx(r); case = format!("(swap {:x} {:x})", i, j);
                    let res = m.swap(store.s(), i, j);
                    if res.is_ok() && i != j { ss.swap(i as usize, j as usize); ks.swap(i as usize, j as usize); vs.swap(i as usize, j as usize); }
                    obs = ru(res);
                } else if c < 67 {
                    case = "shrink".into(); obs = ru(m.shrink_to_fit(store.s()));
                } else if c < 72 {
                    let i = idx(r); case = format!("(state {:x})", i);
                    obs = match m.state(store.r(), i) { Ok(s) => { if ss.get(i as usize) != Some(&s) { o.oracle.push(format!("coll-map-read {} {} state {:x}: {} shadow {:?}", backend, kind.name(), i, s, ss.get(i as usize))); } format!("s {:x}", s) } Err(e) => format!("e {}", err_kind(&e)) };
                } else if c < 77 {
                    let i = idx(r); case = format!("(key {:x})", i);
                    obs = match m.key(store.r(), i) { Ok(k) => { if ks.get(i as usize) != Some(&k) { o.oracle.push(format!("coll-map-read {} {} key {:x}: {} shadow {:?}", backend, kind.name(), i, show(&k), ks.get(i as usize).map(|y| show(y)))); } format!("k {}", show(&k)) } Err(e) => format!("e {}", err_kind(&e)) };
                } else if c < 82 {
                    let i = idx(r); case = format!("(value {:x})", i);
                    obs = match m.value(store.r(), i) { Ok(v) => { if vs.get(i as usize) != Some(&v) { o.oracle.push(format!("coll-map-read {} {} value {:x}: {:x} shadow {:?}", backend, kind.name(), i, v, vs.get(i as usize))); } format!("v {:x}", v) } Err(e) => format!("e {}", err_kind(&e)) };
                } else if c < 85 {
                    case = "caplen".into(); obs = format!("n {:x} {:x}", m.capacity(), m.len());
                    if m.capacity() != ss.len() as u64 || m.len() != ln { o.oracle.push(format!("coll-map-read {} {} capacity/len {} {} shadow {} {}", backend, kind.name(), m.capacity(), m.len(), ss.len(), ln)); }
                } else {
                    let before = table!();
                    if c < 93 {
                        case = "reload".into(); reloads += 1;
                        let index = m.storage_index();
                        obs = match $mt::<D>::from_storage(store.r(), index) { Ok(nm) => { m = nm; "u".into() } Err(e) => { o.oracle.push(format!("coll-reload-error {} {}: from_storage({:x}) -> {}", backend, kind.name(), index, err_kind(&e))); format!("e {}", err_kind(&e)) } };
                    } else {
                        let mt = *r.pick(&["opt", "reopen", "copy"]); case = mt.into(); maints += 1;
                        obs = ru(store.maint(mt));
                    }
                    let after = table!();
                    if before != after { o.oracle.push(format!("coll-reload-differs {} {} after {}: the table read through the interface changed", backend, kind.name(), case)); }
                }
                bump(o, &format!("{} {}", kind.name(), case.trim_start_matches('(').split(' ').next().unwrap_or("")));
                o.cases.push(format!("coll op {}", case));
                o.imp.push(format!("{} | {:x},{:x},{:x} | {}", obs, m.storage_index(), m.len(), m.capacity(), store.dump()));
                o.steps += 1;
            }
            o.histories += 1;
            if reloads > 0 && maints > 0 && ss.len() > 2 { o.nontrivial += 1; }
            if o.samples.len() < 6 { o.samples.push(format!("{} {}: {} steps, final capacity {}, {} reloads, {} maintenance operations", backend, kind.name(), n, ss.len(), reloads, maints)); }
        }
    };
}

map_runner!(run_map_u64, VMapDataU64, u64, gen_u64, |x: &u64| format!("{:x}", x), 0u64);
map_runner!(run_map_str, VMapDataStr, String, gen_str, |x: &String| hex(x.as_bytes()), String::new());

// ---------------------------------------------------------------------------------------------------------
// GraphDataStorage: the GraphData interface (four vectors of i64 + the record with their indexes)
// ---------------------------------------------------------------------------------------------------------
fn run_graph<D: StorageData>(r: &mut Rng, store: &mut Store<D>, backend: &str, kind: Kind, steps: u64, o: &mut Out) {
    o.cases.push(format!("coll new {} {}", backend, kind.name()));
    let mut g = match VGraphData::<D>::new(store.s()) { Ok(g) => g, Err(e) => { o.imp.push(format!("error {}", err_kind(&e))); return; } };
    o.imp.push(format!("new | {:x},{:x} | {}", g.storage_index(), g.capacity().unwrap_or(0), store.dump()));
    let fields = [(VGraphField::From, "from"), (VGraphField::To, "to"), (VGraphField::FromMeta, "from_meta"), (VGraphField::ToMeta, "to_meta")];
    let mut sh: [Vec<i64>; 4] = [vec![0], vec![0], vec![i64::MIN], vec![0]];
    let (mut reloads, mut maints) = (0u64, 0u64);
    let n = r.range(steps / 3, steps);
    macro_rules! arrays { () => {{
        let mut t = vec![];
        for (f, _) in fields.iter() { for i in 0..g.capacity().unwrap_or(0) { t.push(g.get(store.r(), *f, i as i64).ok()); } }
        t
    }}; }
    for _ in 0..n {
        let cap = sh[0].len() as u64;
        let c = r.below(100);
        let gi = |r: &mut Rng| -> i64 { let i = if r.chance(1, 12) { cap + r.below(3) } else { r.below(cap) } as i64; if r.chance(1, 3) { -i } else { i } };
        let (case, obs): (String, String);
        if c < 30 {
            let fi = r.below(4) as usize; let i = gi(r); let v = gen_i64(r);
            case = format!("(set {} {:x} {:x})", fields[fi].1, i as u64, v as u64);
            let res = g.set(store.s(), fields[fi].0, i, v); if res.is_ok() { sh[fi][i.unsigned_abs() as usize] = v; } obs = ru(res);
        } else if c < 50 {
            let fi = r.below(4) as usize; let i = gi(r); case = format!("(get {} {:x})", fields[fi].1, i as u64);
            obs = match g.get(store.r(), fields[fi].0, i) {
                Ok(v) => { if sh[fi].get(i.unsigned_abs() as usize) != Some(&v) { o.oracle.push(format!("coll-graph-read {} {} {}: {} shadow {:?}", backend, fields[fi].1, i, v, sh[fi].get(i.unsigned_abs() as usize))); } format!("v {:x}", v as u64) }
                Err(e) => format!("e {}", err_kind(&e)) };
        } else if c < 64 {
            case = "grow".into(); let res = g.grow(store.s()); if res.is_ok() { for a in sh.iter_mut() { a.push(0); } } obs = ru(res);
        } else if c < 68 {
            case = "shrink".into(); obs = ru(g.shrink_to_fit(store.s()));
        } else if c < 72 {
            case = "cap".into(); obs = match g.capacity() { Ok(c) => format!("n {:x}", c), Err(e) => format!("e {}", err_kind(&e)) };
        } else if c < 75 {
            case = "free_index".into(); obs = match g.free_index(store.r()) { Ok(v) => format!("v {:x}", v as u64), Err(e) => format!("e {}", err_kind(&e)) };
        } else if c < 78 {
            case = "node_count".into(); obs = match g.node_count(store.r()) { Ok(v) => format!("n {:x}", v), Err(e) => format!("e {}", err_kind(&e)) };
        } else if c < 83 {
            let cnt = gen_u64(r); case = format!("(set_node_count {:x})", cnt);
            let res = g.set_node_count(store.s(), cnt); if res.is_ok() { sh[3][0] = cnt as i64; } obs = ru(res);
        } else {
            let before = arrays!();
            if c < 92 {
                case = "reload".into(); reloads += 1;
                let index = g.storage_index();
                obs = match VGraphData::<D>::from_storage(store.r(), index) { Ok(ng) => { g = ng; "u".into() } Err(e) => { o.oracle.push(format!("coll-reload-error {} graph: from_storage({:x}) -> {}", backend, index, err_kind(&e))); format!("e {}", err_kind(&e)) } };
            } else {
                let mt = *r.pick(&["opt", "reopen", "copy"]); case = mt.into(); maints += 1;
                obs = ru(store.maint(mt));
            }
            let after = arrays!();
            if before != after { o.oracle.push(format!("coll-reload-differs {} graph after {}: the slot arrays read through the interface changed", backend, case)); }
        }
        bump(o, &format!("graph {}", case.trim_start_matches('(').split(' ').next().unwrap_or("")));
        o.cases.push(format!("coll op {}", case));
        o.imp.push(format!("{} | {:x},{:x} | {}", obs, g.storage_index(), g.capacity().unwrap_or(0), store.dump()));
        o.steps += 1;
    }
    o.histories += 1;
    if reloads > 0 && maints > 0 && sh[0].len() > 2 { o.nontrivial += 1; }
    if o.samples.len() < 6 { o.samples.push(format!("{} graph: {} steps, final capacity {}, {} reloads, {} maintenance operations", backend, n, sh[0].len(), reloads, maints)); }
}

// ---------------------------------------------------------------------------------------------------------
// the whole MultiMapStorage<u64,u64> over the storage: implementation-level oracle only (the algorithms of
// multi_map.rs are the subject of C19 / OpenMap.v; here: a reloaded map is the same map)
// ---------------------------------------------------------------------------------------------------------
fn run_multimap<D: StorageData>(r: &mut Rng, store: &mut Store<D>, backend: &str, steps: u64, o: &mut Out) {
    let mut m = match VMultiMapOn::<D>::new(store.s()) { Ok(m) => m, Err(_) => return };
    let mut shadow: BTreeMap<u64, Vec<u64>> = BTreeMap::new();
    let n = r.range(steps / 3, steps);
    let (mut reloads, mut maints) = (0u64, 0u64);
    for _ in 0..n {
        let key = r.below(12);
        let c = r.below(100);
        if c < 40 {
            let v = r.below(50); if m.insert(store.s(), key, v).is_ok() { shadow.entry(key).or_default().push(v); }
            bump(o, "mm_u64 insert");
        } else if c < 50 {
            let v = r.below(50);
            if let Ok(old) = m.insert_or_replace(store.s(), key, None, v) {
                let e = shadow.entry(key).or_default();
                match old { Some(x) => { if let Some(p) = e.iter().position(|y| *y == x) { e[p] = v; } else { o.oracle.push(format!("coll-mm {} insert_or_replace({}) replaced {} which the shadow does not hold", backend, key, x)); } } None => e.push(v) }
            }
            bump(o, "mm_u64 insert_or_replace");
        } else if c < 60 {
            if m.remove_key(store.s(), key).is_ok() { shadow.remove(&key); }
            bump(o, "mm_u64 remove_key");
        } else if c < 70 {
            let v = r.below(50);
            if m.remove_value(store.s(), key, v).is_ok() { if let Some(e) = shadow.get_mut(&key) { if let Some(p) = e.iter().position(|y| *y == v) { e.remove(p); } if e.is_empty() { shadow.remove(&key); } } }
            bump(o, "mm_u64 remove_value");
        } else if c < 82 {
            let mut got = m.values(store.r(), key).unwrap_or_default(); got.sort();
            let mut want = shadow.get(&key).cloned().unwrap_or_default(); want.sort();
            if got != want { o.oracle.push(format!("coll-mm {} values({}) = {:?}, shadow {:?}", backend, key, got, want)); }
            bump(o, "mm_u64 values");
        } else {
            let before = (m.slots(store.r()).ok(), m.len(), m.capacity());
            let what;
            if c < 92 {
                what = "reload"; reloads += 1;
                let index = m.storage_index();
                match VMultiMapOn::<D>::from_storage(store.r(), index) { Ok(nm) => m = nm, Err(e) => o.oracle.push(format!("coll-reload-error {} mm_u64: from_storage({:x}) -> {}", backend, index, err_kind(&e))) }
            } else {
                what = *r.pick(&["opt", "reopen", "copy"]); maints += 1;
                if let Err(e) = store.maint(what) { o.oracle.push(format!("coll-mm {} {} -> {}", backend, what, err_kind(&e))); }
            }
            let after = (m.slots(store.r()).ok(), m.len(), m.capacity());
            if before != after { o.oracle.push(format!("coll-reload-differs {} mm_u64 after {}: slots/len/capacity changed", backend, what)); }
            bump(o, &format!("mm_u64 {}", what));
        }
        let total: usize = shadow.values().map(|v| v.len()).sum();
        if m.len() != total as u64 { o.oracle.push(format!("coll-mm {} len {} shadow {}", backend, m.len(), total)); }
        o.steps += 1;
    }
    o.histories += 1;
    if reloads > 0 && maints > 0 { o.nontrivial += 1; }
}

fn run_on<D: StorageData>(r: &mut Rng, dir: &str, tag: &str, backend: &str, mem: bool, kind: Kind, steps: u64, o: &mut Out) {
    let mut store = match Store::<D>::new(dir, tag, mem) { Ok(s) => s, Err(e) => { o.oracle.push(format!("coll-open {} {}", backend, err_kind(&e))); return; } };
    let res = std::panic::catch_unwind(std::panic::AssertUnwindSafe(|| {
        match kind {
            Kind::VecU64 => run_vec_u64(r, &mut store, backend, kind, steps, o),
            Kind::VecI64 => run_vec_i64(r, &mut store, backend, kind, steps, o),
            Kind::VecStr => run_vec_str(r, &mut store, backend, kind, steps, o),
            Kind::VecVal => run_vec_val(r, &mut store, backend, kind, steps, o),
            Kind::VecKv => run_vec_kv(r, &mut store, backend, kind, steps, o),
            Kind::MapU64 => run_map_u64(r, &mut store, backend, kind, steps, o),
            Kind::MapStr => run_map_str(r, &mut store, backend, kind, steps, o),
            Kind::Graph => run_graph(r, &mut store, backend, kind, steps, o),
            Kind::MultiMap => run_multimap(r, &mut store, backend, steps, o),
        }
    }));
    if res.is_err() {
        o.oracle.push(format!("coll-panic {} {}: {}", backend, kind.name(), crate::LAST_PANIC.lock().map(|s| s.clone()).unwrap_or_default()));
        // keep cases and impl aligned: the model's answer to the step under way cannot be compared
        while o.imp.len() < o.cases.len() { o.imp.push("panic".into()); }
    }
    store.cleanup();
}

pub fn run_history(r: &mut Rng, dir: &str, idx: u64, steps: u64, o: &mut Out) {
    let kinds = [Kind::VecU64, Kind::VecI64, Kind::VecStr, Kind::VecVal, Kind::VecKv, Kind::MapU64, Kind::MapStr, Kind::Graph, Kind::MultiMap, Kind::VecStr, Kind::VecKv];
    let kind = kinds[(idx % kinds.len() as u64) as usize];
    let hs = r.next();
    // the same history on the three back-ends (the model: ops_mem for MemoryStorage, ops_file for the file back-ends)
    run_on::<MemoryStorage>(&mut Rng(hs), dir, &format!("{}m", idx), "mem", true, kind, steps, o);
    run_on::<FileStorage>(&mut Rng(hs), dir, &format!("{}f", idx), "file", false, kind, steps, o);
    run_on::<FileStorageMemoryMapped>(&mut Rng(hs), dir, &format!("{}p", idx), "file", false, kind, steps, o);
}
