// dbsmall.rs — exhaustive enumeration of small multigraphs for the search properties
// (C14 traversals, C17 path searches).  Every graph with n <= N nodes and every ORDERED
// edge list of length <= M over [1..n]x[1..n] (self-loops, parallel edges; the order fixes
// the adjacency order) is built through the query API in its own history, plus id-reuse
// variants (an edge removed and re-inserted, a node with its edges removed and re-created).
// On every built graph all traversals (BFS/DFS, forward/reverse, from every node and every
// edge) and all node-pair path searches are run; the case lines go to the model driver,
// and a direct oracle (reachability / distances computed here from the element list) is
// evaluated on the implementation's answers.
use crate::dbq::*;
use crate::dbrun::Out;
use agdb::*;
use std::collections::{BTreeMap, BTreeSet, VecDeque};
use std::panic::{catch_unwind, AssertUnwindSafe};

pub struct SmallOpts {
    pub nodes: usize,
    pub edges: usize,
    pub rev: String,
    pub paths: bool,
    pub traverse: bool,
    pub reuse_full: usize, // all id-reuse variants for graphs with n <= 2 or n + m <= reuse_full
    pub reuse_k: usize,    // ... and for every reuse_k-th of the remaining graphs
}

#[derive(Clone, Copy)]
enum Variant { Base, EdgeReinsert(usize), NodeReinsert(i64) }

fn show_variant(v: Variant) -> String {
    match v {
        Variant::Base => "base".into(),
        Variant::EdgeReinsert(k) => format!("edge-reinsert#{}", k),
        Variant::NodeReinsert(x) => format!("node-reinsert#{}", x),
    }
}

fn bump(out: &mut Out, k: &str) { *out.stats.entry(k.to_string()).or_insert(0) += 1; }

// the graph as the database reports it (Elements search): live nodes, live edges (id, from, to)
struct G {
    nodes: Vec<i64>,
    edges: Vec<(i64, i64, i64)>,
}

impl G {
    fn is_live(&self, x: i64) -> bool {
        if x > 0 { self.nodes.contains(&x) } else { self.edges.iter().any(|e| e.0 == x) }
    }
    fn edge(&self, id: i64) -> Option<(i64, i64, i64)> { self.edges.iter().find(|e| e.0 == id).cloned() }
    // successor relation of the traversal: node -> its out (reverse: in) edges, edge -> its target (reverse: source)
    fn succ(&self, x: i64, forward: bool) -> Vec<i64> {
        if x > 0 {
            self.edges.iter().filter(|e| if forward { e.1 == x } else { e.2 == x }).map(|e| e.0).collect()
        } else {
            match self.edge(x) { Some(e) => vec![if forward { e.2 } else { e.1 }], None => vec![] }
        }
    }
    // distances (number of successor steps) of everything reachable from x, x itself at 0
    fn dist(&self, x: i64, forward: bool) -> BTreeMap<i64, u64> {
        let mut d = BTreeMap::new();
        let mut q = VecDeque::new();
        d.insert(x, 0u64);
        q.push_back(x);
        while let Some(y) = q.pop_front() {
            let dy = d[&y];
            for z in self.succ(y, forward) {
                if !d.contains_key(&z) { d.insert(z, dy + 1); q.push_back(z); }
            }
        }
        d
    }
    // minimal number of edges of a directed path o -> d (None if unreachable); own BFS over nodes
    fn hops(&self, o: i64, d: i64) -> Option<u64> {
        let mut seen: BTreeMap<i64, u64> = BTreeMap::new();
        let mut q = VecDeque::new();
        seen.insert(o, 0);
        q.push_back(o);
        while let Some(y) = q.pop_front() {
            if y == d { return Some(seen[&y]); }
            let hy = seen[&y];
            for e in self.edges.iter().filter(|e| e.1 == y) {
                if !seen.contains_key(&e.2) { seen.insert(e.2, hy + 1); q.push_back(e.2); }
            }
        }
        None
    }
}

struct Answer {
    case: String,
    line: String,
    els: Option<Vec<(i64, i64, i64)>>, // (id, from, to) of the result elements when the query succeeded
}

fn exec(db: &mut DbMemory, q: &Q, out: &mut Out) -> Answer {
    let case = format!("db exec {}", show_q(q));
    let r = catch_unwind(AssertUnwindSafe(|| run_q(db, q)));
    let (line, els) = match r {
        Err(_) => ("panic".to_string(), None),
        Ok(res) => {
            let l = show_result(&res, false);
            (l, res.ok().map(|x| x.elements.iter().map(|e| (e.id.0, e.from.0, e.to.0)).collect()))
        }
    };
    out.cases.push(case.clone());
    out.imp.push(line.clone());
    Answer { case, line, els }
}

fn ids_q(l: &[i64]) -> Qids { Qids::Ids(l.iter().map(|i| Qid::Id(*i)).collect()) }

fn insert_edge_q(from: i64, to: i64) -> Q {
    Q::InsertEdges(ids_q(&[from]), ids_q(&[to]), Qvalues::Single(vec![]), false, Qids::Ids(vec![]))
}

fn search_q(alg: char, origin: i64, dest: i64, conds: Vec<Cond>) -> Q {
    Q::SearchQ(Box::new(Search { alg, origin: Qid::Id(origin), dest: Qid::Id(dest), limit: 0, offset: 0, order: vec![], conds }))
}

fn show_ids(l: &[i64]) -> String { format!("[{}]", l.iter().map(|x| x.to_string()).collect::<Vec<_>>().join(",")) }

// runs a building query; Some(ids of the result elements) or None after reporting the failure
fn build(db: &mut DbMemory, q: &Q, out: &mut Out, ctx: &str) -> Option<Vec<i64>> {
    let a = exec(db, q, out);
    match a.els {
        Some(els) => Some(els.iter().map(|e| e.0).collect()),
        None => {
            let cls = if a.line == "panic" { "panic" } else { "read-error" };
            out.oracle.push(format!("{} building query failed: {} -> {} {}", cls, a.case, a.line, ctx));
            None
        }
    }
}

fn check_traversal(g: &G, out: &mut Out, ctx: &str, a: &Answer, x: i64, bfs: bool, forward: bool) {
    let kind = format!("{}-{}", if bfs { "bfs" } else { "dfs" }, if forward { "from" } else { "to" });
    let fail = |out: &mut Out, cls: &str, msg: String, ids: &[i64]| {
        out.oracle.push(format!("{} {} search={} origin={} result={} {} query=[{}]", cls, msg, kind, x, show_ids(ids), ctx, a.case));
    };
    if a.line == "panic" { fail(out, "panic", "search panicked".into(), &[]); return; }
    let els = match &a.els {
        Some(e) => e,
        None => { fail(out, "traverse-error", format!("search from an existing element failed: {}", a.line), &[]); return; }
    };
    let ids: Vec<i64> = els.iter().map(|e| e.0).collect();
    bump(out, &format!("result-len:{}", ids.len()));
    if ids.first() != Some(&x) {
        fail(out, "traverse-origin-first", "result of a search from an existing element does not start with it".into(), &ids);
    }
    let mut seen = BTreeSet::new();
    for i in &ids {
        if !seen.insert(*i) { fail(out, "traverse-duplicate", format!("id {} returned twice", i), &ids); break; }
    }
    let d = g.dist(x, forward);
    for i in &ids {
        if !g.is_live(*i) { fail(out, "traverse-unknown-id", format!("returned id {} is not an existing element", i), &ids); }
        else if !d.contains_key(i) { fail(out, "traverse-unreachable", format!("returned id {} is not reachable from the origin", i), &ids); }
    }
    let missing: Vec<i64> = d.keys().filter(|k| !seen.contains(k)).cloned().collect();
    if !missing.is_empty() {
        fail(out, "traverse-incomplete", format!("reachable elements {} are missing", show_ids(&missing)), &ids);
    }
    if bfs {
        let ds: Vec<u64> = ids.iter().filter_map(|i| d.get(i).cloned()).collect();
        if ds.windows(2).any(|w| w[0] > w[1]) {
            fail(out, "traverse-bfs-order", format!("distances {:?} of the returned ids are not non-decreasing", ds), &ids);
        }
    }
    // the elements' from/to fields agree with the element list
    for e in els {
        if e.0 < 0 {
            if let Some(r) = g.edge(e.0) {
                if (r.1, r.2) != (e.1, e.2) { fail(out, "traverse-unknown-id", format!("edge {} reported as {}->{} but is {}->{}", e.0, e.1, e.2, r.1, r.2), &ids); }
            }
        }
    }
}

fn check_path(g: &G, out: &mut Out, ctx: &str, a: &Answer, o: i64, d: i64, with_cond: bool) {
    let kind = if with_cond { "path-even-ids" } else { "path" };
    let fail = |out: &mut Out, cls: &str, msg: String, ids: &[i64]| {
        out.oracle.push(format!("{} {} search={} origin={} destination={} result={} {} query=[{}]", cls, msg, kind, o, d, show_ids(ids), ctx, a.case));
    };
    if a.line == "panic" { fail(out, "panic", "search panicked".into(), &[]); return; }
    let els = match &a.els {
        Some(e) => e,
        None => { fail(out, "path-error", format!("path search between existing nodes failed: {}", a.line), &[]); return; }
    };
    let ids: Vec<i64> = els.iter().map(|e| e.0).collect();
    bump(out, &format!("result-len:{}", ids.len()));
    if with_cond {
        for i in &ids {
            if i.abs() % 2 == 1 { fail(out, "path-unselected", format!("id {} fails the condition but is returned", i), &ids); }
        }
        return;
    }
    let h = g.hops(o, d);
    let expect_empty = o == d || h.is_none();
    if expect_empty != ids.is_empty() {
        fail(out, "path-empty-mismatch", format!("result is {} but origin {} destination (minimal directed path: {:?} edges)",
            if ids.is_empty() { "empty" } else { "non-empty" }, if o == d { "==" } else { "!=" }, h), &ids);
    }
    if ids.is_empty() { return; }
    if ids.first() != Some(&o) || ids.last() != Some(&d) {
        fail(out, "path-endpoints", "path does not start with the origin and end with the destination".into(), &ids);
    }
    let mut connected = ids.len() % 2 == 1;
    for (k, i) in ids.iter().enumerate() {
        if k % 2 == 0 {
            if !(*i > 0 && g.is_live(*i)) { connected = false; }
        } else {
            match g.edge(*i) {
                Some(e) => { if e.1 != ids[k - 1] || ids.get(k + 1) != Some(&e.2) { connected = false; } }
                None => connected = false,
            }
        }
    }
    if !connected {
        fail(out, "path-disconnected", "result is not an alternating node, edge, node ... sequence of connected elements".into(), &ids);
    }
    if let (Some(h), false) = (h, o == d) {
        if ids.len() as u64 != 2 * h + 1 {
            fail(out, "path-not-minimal", format!("path has {} elements but the minimal directed path has {} edges", ids.len(), h), &ids);
        }
    }
}

fn run_graph(o: &SmallOpts, out: &mut Out, n: usize, edges: &[(i64, i64)], var: Variant) {
    out.histories += 1;
    let first = out.cases.len();
    let mut db = DbMemory::new("mem").expect("memory db");
    out.cases.push(format!("db reset {}", o.rev));
    out.imp.push("reset".into());
    let ctx = format!("graph=[{} nodes; edges {}] variant={}", n,
        edges.iter().map(|(f, t)| format!("{}->{}", f, t)).collect::<Vec<_>>().join(","), show_variant(var));
    bump(out, &format!("variant:{}", match var { Variant::Base => "base", Variant::EdgeReinsert(_) => "edge-reinsert", Variant::NodeReinsert(_) => "node-reinsert" }));
    bump(out, &format!("nodes:{}", n));
    bump(out, &format!("edges:{}", edges.len()));
    if n >= 2 && !edges.is_empty() { out.nontrivial += 1; }

    // ---- build; `cur` tracks the expected element list
    let mut nodes: Vec<i64> = match build(&mut db, &Q::InsertNodes(n as u64, Qvalues::Single(vec![]), vec![], Qids::Ids(vec![])), out, &ctx) {
        Some(l) => l, None => return,
    };
    let mut cur: Vec<(i64, i64, i64)> = vec![];
    for (f, t) in edges {
        match build(&mut db, &insert_edge_q(*f, *t), out, &ctx) {
            Some(l) if l.len() == 1 => cur.push((l[0], *f, *t)),
            Some(l) => { out.oracle.push(format!("read-error insert of one edge returned ids {} {}", show_ids(&l), ctx)); return; }
            None => return,
        }
    }
    match var {
        Variant::Base => {}
        Variant::EdgeReinsert(k) => {
            let (id, f, t) = cur[k];
            if build(&mut db, &Q::Remove(ids_q(&[id])), out, &ctx).is_none() { return; }
            cur.remove(k);
            match build(&mut db, &insert_edge_q(f, t), out, &ctx) {
                Some(l) if l.len() == 1 => cur.push((l[0], f, t)),
                _ => { out.oracle.push(format!("read-error re-insert of an edge failed {}", ctx)); return; }
            }
        }
        Variant::NodeReinsert(x) => {
            if build(&mut db, &Q::Remove(ids_q(&[x])), out, &ctx).is_none() { return; }
            let gone: Vec<(i64, i64, i64)> = cur.iter().filter(|e| e.1 == x || e.2 == x).cloned().collect();
            cur.retain(|e| e.1 != x && e.2 != x);
            nodes.retain(|y| *y != x);
            let y = match build(&mut db, &Q::InsertNodes(1, Qvalues::Single(vec![]), vec![], Qids::Ids(vec![])), out, &ctx) {
                Some(l) if l.len() == 1 => l[0],
                _ => { out.oracle.push(format!("read-error re-insert of a node failed {}", ctx)); return; }
            };
            nodes.push(y);
            for (_, f, t) in gone {
                let (f, t) = (if f == x { y } else { f }, if t == x { y } else { t });
                match build(&mut db, &insert_edge_q(f, t), out, &ctx) {
                    Some(l) if l.len() == 1 => cur.push((l[0], f, t)),
                    _ => { out.oracle.push(format!("read-error re-creation of an edge failed {}", ctx)); return; }
                }
            }
        }
    }

    // ---- the element list as the database reports it (also a case for the model)
    let a = exec(&mut db, &search_q('e', 0, 0, vec![]), out);
    let els = match a.els {
        Some(e) => e,
        None => { out.oracle.push(format!("{} elements search failed: {} {}", if a.line == "panic" { "panic" } else { "read-error" }, a.line, ctx)); return; }
    };
    let g = G {
        nodes: els.iter().filter(|e| e.0 > 0).map(|e| e.0).collect(),
        edges: els.iter().filter(|e| e.0 < 0).cloned().collect(),
    };
    {
        let (mut a, mut b) = (g.nodes.clone(), nodes.clone());
        a.sort(); b.sort();
        let (mut c, mut d) = (g.edges.clone(), cur.clone());
        c.sort(); d.sort();
        if a != b || c != d {
            out.oracle.push(format!("read-error element list differs from the built graph: nodes {} expected {}; edges {:?} expected {:?} {}", show_ids(&a), show_ids(&b), c, d, ctx));
        }
    }
    let ctx = format!("{} elements=[nodes {}; edges {}]", ctx, show_ids(&g.nodes),
        g.edges.iter().map(|e| format!("{}:{}->{}", e.0, e.1, e.2)).collect::<Vec<_>>().join(","));

    // ---- traversals from every node and every edge
    if o.traverse {
        let origins: Vec<i64> = g.nodes.iter().cloned().chain(g.edges.iter().map(|e| e.0)).collect();
        for x in origins {
            for (alg, forward) in [('b', true), ('d', true), ('b', false), ('d', false)] {
                let q = if forward { search_q(alg, x, 0, vec![]) } else { search_q(alg, 0, x, vec![]) };
                let a = exec(&mut db, &q, out);
                bump(out, &format!("search:{}-{}-{}", if alg == 'b' { "bfs" } else { "dfs" }, if forward { "from" } else { "to" }, if x > 0 { "node" } else { "edge" }));
                check_traversal(&g, out, &ctx, &a, x, alg == 'b', forward);
            }
        }
    }
    // ---- path searches between all ordered node pairs
    if o.paths {
        let even: Vec<Qid> = g.nodes.iter().cloned().chain(g.edges.iter().map(|e| e.0)).filter(|i| i.abs() % 2 == 0).map(Qid::Id).collect();
        for &s in &g.nodes {
            for &d in &g.nodes {
                let a = exec(&mut db, &search_q('b', s, d, vec![]), out);
                bump(out, "search:path");
                check_path(&g, out, &ctx, &a, s, d, false);
                let c = Cond { and: true, modifier: "none", data: CondData::Ids(even.clone()) };
                let a = exec(&mut db, &search_q('b', s, d, vec![c]), out);
                bump(out, "search:path-even-ids");
                check_path(&g, out, &ctx, &a, s, d, true);
            }
        }
    }
    if out.samples.len() < 3 && n >= 2 && !edges.is_empty() {
        out.samples.push(out.cases[first..].iter().take(8).cloned().collect::<Vec<_>>().join(" ;; "));
    }
}

pub fn run(o: &SmallOpts, out: &mut Out) {
    let mut index: usize = 0;
    for n in 1..=o.nodes {
        let pairs: Vec<(i64, i64)> = (1..=n as i64).flat_map(|f| (1..=n as i64).map(move |t| (f, t))).collect();
        for m in 0..=o.edges {
            // every sequence of m pairs: an m-digit counter in base n*n
            let mut digits = vec![0usize; m];
            loop {
                let edges: Vec<(i64, i64)> = digits.iter().map(|d| pairs[*d]).collect();
                bump(out, "graphs");
                run_graph(o, out, n, &edges, Variant::Base);
                if m >= 1 {
                    let full = n <= 2 || n + m <= o.reuse_full;
                    if full || (o.reuse_k > 0 && index % o.reuse_k == 0) {
                        bump(out, if full { "graphs-with-all-reuse-variants" } else { "graphs-sampled-for-reuse-variants" });
                        for k in 0..m { run_graph(o, out, n, &edges, Variant::EdgeReinsert(k)); }
                        for x in 1..=n as i64 { run_graph(o, out, n, &edges, Variant::NodeReinsert(x)); }
                    }
                }
                index += 1;
                // next sequence
                let mut p = 0;
                while p < m {
                    digits[p] += 1;
                    if digits[p] < pairs.len() { break; }
                    digits[p] = 0;
                    p += 1;
                }
                if p == m { break; }
            }
        }
    }
}
