// crashrun.rs — C02 / C03: crash snapshots (file + recovery log copied before every mutating
// file-system call, plus torn variants) taken while generated query histories run on a real
// file-backed database; every snapshot is reopened with a file-backed variant, fully read, and its
// order-normalised dump must equal the dump before or after the interrupted query / transaction.
use crate::dbdump::*;
use crate::dbgen::*;
use crate::dbrun::{exec_step, show_step, Step};
use crate::rng::Rng;
use crate::walrun::{install_hook, wal_name, Rec, SdOp, OPS};
use agdb::verif::set_fs_hook;
use agdb::*;
use std::collections::BTreeMap;
use std::panic::{catch_unwind, AssertUnwindSafe};

pub struct Out {
    pub oracle: Vec<String>, pub stats: BTreeMap<String, u64>, pub samples: Vec<String>,
    pub nontrivial: u64, pub histories: u64, pub snapshots: u64, pub cases: Vec<String>, pub imp: Vec<String>,
}

fn bump(o: &mut Out, k: &str) { *o.stats.entry(k.to_string()).or_insert(0) += 1; }

fn live_of<S: StorageData>(db: &DbImpl<S>) -> Live {
    let mut live = Live::default();
    if let Ok(r) = db.exec(SearchQuery { algorithm: SearchQueryAlgorithm::Elements, origin: QueryId::Id(DbId(0)), destination: QueryId::Id(DbId(0)),
                                         limit: 0, offset: 0, order_by: vec![], conditions: vec![] }) {
        for e in r.elements { if e.id.0 > 0 { live.nodes.push(e.id.0) } else { live.edges.push(e.id.0) } }
    }
    if let Ok(r) = db.exec(SelectAllAliasesQuery {}) {
        for e in r.elements { if let Some(kv) = e.values.first() { live.aliases.push(kv.value.to_string()); } }
    }
    if let Ok(r) = db.exec(SelectIndexesQuery {}) {
        if let Some(e) = r.elements.first() { for kv in &e.values { live.index_keys.push(kv.key.clone()); } }
    }
    live
}

// opens a snapshot with the given variant and dumps it; Err(class, message)
fn reopen_dump(path: &str, variant: u64) -> Result<String, (String, String)> {
    let r = catch_unwind(|| -> Result<String, DbError> {
        Ok(match variant % 4 {
            0 => { let d = DbFile::new(path)?; let o = observe(&d); fin(o) }
            1 => { let d = Db::new(path)?; let o = observe(&d); fin(o) }
            2 => { let d = DbAny::new_file(path)?; let o = observe(&d); fin(o) }
            _ => { let d = DbAny::new_mapped(path)?; let o = observe(&d); fin(o) }
        })
    });
    fn fin(o: Obs) -> String {
        if !o.errors.is_empty() { return format!("READ-ERRORS {}", o.errors.join(" / ")); }
        let inv = invariants(&o);
        if !inv.is_empty() { return format!("INVARIANT {} {}", inv[0].0, inv[0].1); }
        show_obs(&o, false)
    }
    match r {
        Ok(Ok(s)) if s.starts_with("READ-ERRORS") => Err(("crash-unreadable".into(), s)),
        Ok(Ok(s)) if s.starts_with("INVARIANT") => Err(("crash-inconsistent".into(), s)),
        Ok(Ok(s)) => Ok(s),
        Ok(Err(e)) => Err(("crash-open-error".into(), e.description)),
        Err(_) => Err(("crash-open-panic".into(), "panic while opening or reading".into())),
    }
}

pub fn run_history(rng: &mut Rng, dir: &str, idx: usize, mapped: bool, max_steps: u64, sample_permille: u64, out: &mut Out) {
    let path = format!("{}/c{}.agdb", dir, idx);
    let wal_path = wal_name(&path);
    let _ = std::fs::remove_file(&path);
    let _ = std::fs::remove_file(&wal_path);
    out.histories += 1;
    // snapshots of the creation of the database are checked too: expected = empty db (either side)
    let hs = install_hook(&path, rng.next(), sample_permille);
    let mut dumps: Vec<String> = vec![];           // dump after step k (dumps[0] = after creation)
    let mut bounds: Vec<usize> = vec![];            // number of snapshots taken when step k finished
    let mut log: Vec<String> = vec![];
    let profile = if rng.chance(1, 3) { Profile::Txn } else { Profile::All };
    macro_rules! drive {
        ($db:expr) => {{
            let db = $db;
            dumps.push(show_obs(&observe(&*db), false));
            bounds.push(hs.lock().unwrap().snaps.len());
            let n = 1 + rng.below(max_steps);
            for _ in 0..n {
                let live = live_of(&*db);
                let step = if rng.chance(1, 5) {
                    let k = rng.range(2, 4) as usize;
                    Step::Txn(rng.chance(1, 3), (0..k).map(|_| gen_mut(rng, &live, profile)).collect())
                } else { Step::Exec(gen_mut(rng, &live, profile)) };
                log.push(show_step(&step));
                let ops_before = OPS.lock().unwrap().len();
                let r = exec_step(db, &step);
                {
                    // C03: the byte store sees exactly one flush per query / transaction, as its last call
                    let ops = OPS.lock().unwrap();
                    let mine = &ops[ops_before..];
                    let flushes: Vec<usize> = mine.iter().enumerate().filter(|(_, (o, _))| matches!(o, SdOp::Flush)).map(|(i, _)| i).collect();
                    if !mine.is_empty() && !(flushes.len() == 1 && flushes[0] + 1 == mine.len()) {
                        out.oracle.push(format!("crash-inner-flush flushes_at={:?} of {} storage calls step={} history=[{}]", flushes, mine.len(), show_step(&step), log.join(" ;; ")));
                    }
                    bump(out, &format!("sd-calls-per-step:{}", match mine.len() { 0 => "0", 1..=10 => "1-10", 11..=100 => "11-100", _ => ">100" }));
                }
                if r == "panic" { out.oracle.push(format!("panic step={} history=[{}]", show_step(&step), log.join(" ;; "))); break; }
                dumps.push(show_obs(&observe(&*db), false));
                bounds.push(hs.lock().unwrap().snaps.len());
            }
        }};
    }
    let r = catch_unwind(AssertUnwindSafe(|| -> Result<(), DbError> {
        OPS.lock().unwrap().clear();
        if mapped { let mut db = DbImpl::with_data(Rec::<FileStorageMemoryMapped>::new(&path)?)?; drive!(&mut db); }
        else { let mut db = DbImpl::with_data(Rec::<FileStorage>::new(&path)?)?; drive!(&mut db); }
        Ok(())
    }));
    set_fs_hook(None);
    if let Ok(Err(e)) = &r { out.oracle.push(format!("crash-create-error {} history=[{}]", e.description, log.join(" ;; "))); }
    if r.is_err() { out.oracle.push(format!("panic history=[{}]", log.join(" ;; "))); }
    // after a clean close the file must reopen to the last dump (Drop = optimize)
    if let Some(last) = dumps.last() {
        match reopen_dump(&path, idx as u64) {
            Ok(d) => if &d != last { out.oracle.push(format!("close-reopen-differs history=[{}]", log.join(" ;; "))); },
            Err((c, m)) => out.oracle.push(format!("{} after clean close: {} history=[{}]", c, m, log.join(" ;; "))),
        }
    }
    let st = hs.lock().unwrap();
    let rp = format!("{}/cr{}.agdb", dir, idx);
    let rw = wal_name(&rp);
    let empty_dump = dumps.first().cloned().unwrap_or_default();
    // snapshots taken during the final Drop (optimize on close) must equal the last dump
    for (si, sn) in st.snaps.iter().enumerate() {
        // which step was running?  first k with bounds[k] > si ; snapshots before bounds[0] belong to creation
        let k = bounds.iter().position(|b| *b > si);
        let (before, after): (String, String) = match k {
            Some(0) => (String::from("<absent>"), empty_dump.clone()),
            Some(k) => (dumps[k - 1].clone(), dumps[k].clone()),
            None => { let l = dumps.last().cloned().unwrap_or_default(); (l.clone(), l) }
        };
        out.snapshots += 1;
        std::fs::write(&rp, &sn.data).unwrap();
        std::fs::write(&rw, &sn.wal).unwrap();
        let res = reopen_dump(&rp, (si as u64).wrapping_add(idx as u64));
        let _ = std::fs::remove_file(&rp);
        let _ = std::fs::remove_file(&rw);
        let step_desc = match k { Some(0) => "create".to_string(), Some(k) => log.get(k - 1).cloned().unwrap_or_default(), None => "close".to_string() };
        match res {
            Ok(d) => {
                // a snapshot of a not yet created database reopens as a fresh empty database
                let ok = d == after || d == before || (before == "<absent>" && d == empty_dump);
                if !ok {
                    out.oracle.push(format!("crash-partial call={} torn={} step={} got={} before={} after={} history=[{}]",
                        sn.call, sn.torn, step_desc, d, before, after, log.join(" ;; ")));
                }
                bump(out, if d == after && d != before { "recovered:after" } else if d == before && d != after { "recovered:before" } else { "recovered:same" });
            }
            Err((c, m)) => out.oracle.push(format!("{} call={} torn={} step={} : {} history=[{}]", c, sn.call, sn.torn, step_desc, m, log.join(" ;; "))),
        }
    }
    bump(out, if mapped { "backend:mapped" } else { "backend:file" });
    if st.snaps.len() > 50 && log.iter().any(|l| l.starts_with("db txn")) { out.nontrivial += 1; }
    if out.samples.len() < 3 { out.samples.push(format!("{} steps, {} snapshots: {}", log.len(), st.snaps.len(), log.iter().take(3).cloned().collect::<Vec<_>>().join(" ;; "))); }
    drop(st);
    let _ = std::fs::remove_file(&path);
    let _ = std::fs::remove_file(&wal_path);
}
