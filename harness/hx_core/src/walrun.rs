// walrun.rs — C01: drives Storage<FileStorage> (through agdb::verif::VStorage and a public recording
// StorageData wrapper) with generated programs; the cfg(agdb_verif) file-system hook snapshots both
// files before every mutating call (plus torn variants of the pending call); every snapshot is
// recovered with the real FileStorage::new and compared with (a) the data file content at the last
// completed flush (direct oracle) and (b) the Coq model (trace of calls, recovered content).
use crate::rng::Rng;
use crate::sexp::hex;
use agdb::verif::{set_fs_hook, FsEvent, VStorage};
use agdb::{DbError, FileStorage, FileStorageMemoryMapped, StorageData, StorageSlice};
use std::collections::BTreeMap;
use std::sync::{Arc, Mutex};

#[derive(Clone, Debug)]
pub enum SdOp { Write(u64, Vec<u8>), Resize(u64), Flush }

pub static OPS: Mutex<Vec<(SdOp, u64)>> = Mutex::new(vec![]); // (op, file length before it)

pub struct Rec<D: StorageData>(D);

impl<D: StorageData> StorageData for Rec<D> {
    fn backup(&self, name: &str) -> Result<(), DbError> { self.0.backup(name) }
    fn copy(&self, name: &str) -> Result<Self, DbError> { Ok(Rec(self.0.copy(name)?)) }
    fn flush(&mut self) -> Result<(), DbError> {
        OPS.lock().unwrap().push((SdOp::Flush, self.0.len()));
        self.0.flush()
    }
    fn len(&self) -> u64 { self.0.len() }
    fn name(&self) -> &str { self.0.name() }
    fn new(name: &str) -> Result<Self, DbError> { Ok(Rec(D::new(name)?)) }
    fn read(&'_ self, pos: u64, value_len: u64) -> Result<StorageSlice<'_>, DbError> { self.0.read(pos, value_len) }
    fn rename(&mut self, new_name: &str) -> Result<(), DbError> { self.0.rename(new_name) }
    fn resize(&mut self, new_len: u64) -> Result<(), DbError> {
        OPS.lock().unwrap().push((SdOp::Resize(new_len), self.0.len()));
        self.0.resize(new_len)
    }
    fn write(&mut self, pos: u64, bytes: &[u8]) -> Result<(), DbError> {
        OPS.lock().unwrap().push((SdOp::Write(pos, bytes.to_vec()), self.0.len()));
        self.0.write(pos, bytes)
    }
}

#[derive(Clone)]
pub struct Snap { pub data: Vec<u8>, pub wal: Vec<u8>, pub call: usize, pub torn: usize, pub ops_seen: usize, pub committed: Vec<u8> }

pub struct HookState { pub path: String, pub wal_path: String, pub calls: Vec<String>, pub snaps: Vec<Snap>, pub committed: Vec<u8>, pub torn_seed: u64, pub sample_permille: u64, pub at_mark: Option<(Vec<u8>, Vec<u8>)> }

pub fn wal_name(path: &str) -> String {
    match path.rfind('/') { Some(i) => format!("{}/.{}", &path[..i], &path[i + 1..]), None => format!(".{}", path) }
}

pub fn read_file(p: &str) -> Vec<u8> { std::fs::read(p).unwrap_or_default() }

fn show_call(e: &FsEvent) -> Option<String> {
    match e {
        FsEvent::WalWrite(b) => Some(format!("(wa {})", hex(b))),
        FsEvent::WalSetLen(n) => Some(format!("(ws {:x})", n)),
        FsEvent::DataWrite(p, b) => Some(format!("(dw {:x} {})", p, hex(b))),
        FsEvent::DataSetLen(n) => Some(format!("(ds {:x})", n)),
        _ => None,
    }
}

pub fn install_hook(path: &str, torn_seed: u64, sample_permille: u64) -> Arc<Mutex<HookState>> {
    let wal_path = wal_name(path);
    let hs = Arc::new(Mutex::new(HookState { path: path.to_string(), wal_path: wal_path.clone(), calls: vec![], snaps: vec![], committed: vec![], torn_seed, sample_permille, at_mark: None }));
    let h2 = hs.clone();
    set_fs_hook(Some(Box::new(move |e: &FsEvent| {
        let Some(call) = show_call(e) else { return; };
        let mut s = h2.lock().unwrap();
        // sampling (crash runs on large histories): a skipped call is still recorded in `calls`
        if s.sample_permille < 1000 && !matches!(e, FsEvent::WalSetLen(0)) {
            let k = s.calls.len() as u64;
            let mut sr = Rng::new(s.torn_seed ^ k.wrapping_mul(0xD1B54A32D192ED03));
            if sr.below(1000) >= s.sample_permille { s.calls.push(call); return; }
        }
        let data = read_file(&s.path);
        let wal = read_file(&s.wal_path);
        let k = s.calls.len();
        let ops_seen = OPS.lock().unwrap().len();
        let committed = s.committed.clone();
        s.snaps.push(Snap { data: data.clone(), wal: wal.clone(), call: k, torn: 0, ops_seen, committed: committed.clone() });
        // torn variants of the pending call
        let mut tr = Rng::new(s.torn_seed ^ (k as u64).wrapping_mul(0x9E3779B97F4A7C15));
        match e {
            FsEvent::WalWrite(b) if b.len() > 1 => {
                for j in [1, b.len() / 2, b.len() - 1, tr.range(1, b.len() as u64 - 1) as usize] {
                    if j >= 1 && j < b.len() {
                        let mut w2 = wal.clone(); w2.extend_from_slice(&b[..j]);
                        s.snaps.push(Snap { data: data.clone(), wal: w2, call: k, torn: j, ops_seen, committed: committed.clone() });
                    }
                }
            }
            FsEvent::DataWrite(p, b) if b.len() > 1 => {
                for j in [1, b.len() / 2, b.len() - 1] {
                    if j >= 1 && j < b.len() {
                        let mut d2 = data.clone();
                        let p = *p as usize;
                        if d2.len() < p + j { d2.resize(p + j, 0); }
                        d2[p..p + j].copy_from_slice(&b[..j]);
                        s.snaps.push(Snap { data: d2, wal: wal.clone(), call: k, torn: j, ops_seen, committed: committed.clone() });
                    }
                }
            }
            FsEvent::WalSetLen(0) => {
                // a flush (or the end of a recovery): once it completes the current data is the committed content
                s.committed = data.clone();
            }
            _ => {}
        }
        s.calls.push(call);
    })));

    hs
}

pub struct Out {
    pub cases: Vec<String>, pub imp: Vec<String>, pub oracle: Vec<String>,
    pub stats: BTreeMap<String, u64>, pub samples: Vec<String>, pub nontrivial: u64, pub programs: u64, pub snapshots: u64, pub damaged: u64, pub traced: u64, pub in_recovery: u64,
}

// FileStorage::new on copies of (data, log) with the calls it issues recorded: (recovered bytes | error | panic, calls of new())
fn recover_traced(rp: &str, data: &[u8], wal: &[u8]) -> (String, Vec<String>) {
    let rw = wal_name(rp);
    std::fs::write(rp, data).unwrap();
    std::fs::write(&rw, wal).unwrap();
    let calls: Arc<Mutex<Vec<String>>> = Arc::new(Mutex::new(vec![]));
    let c2 = calls.clone();
    set_fs_hook(Some(Box::new(move |e: &FsEvent| { if let Some(c) = show_call(e) { c2.lock().unwrap().push(c); } })));
    let c3 = calls.clone();
    let r = std::panic::catch_unwind(std::panic::AssertUnwindSafe(move || {
        let s = FileStorage::new(rp);
        let n = c3.lock().unwrap().len();   // what follows is the Drop of the recovered storage
        (s.map(|s| drop(s)), n)
    }));
    set_fs_hook(None);
    let all = calls.lock().unwrap().clone();
    let res = match r {
        Ok((Ok(()), n)) => (hex(&read_file(rp)), all[..n.min(all.len())].to_vec()),
        Ok((Err(_), n)) => ("error".to_string(), all[..n.min(all.len())].to_vec()),
        Err(_) => ("panic".to_string(), all),
    };
    let _ = std::fs::remove_file(rp);
    let _ = std::fs::remove_file(&rw);
    res
}

// the complete records of a log: (offset, position, size)
fn parse_log(w: &[u8]) -> Vec<(usize, u64, u64)> {
    let mut v = vec![];
    let mut o = 0usize;
    while o + 16 <= w.len() {
        let p = u64::from_le_bytes(w[o..o + 8].try_into().unwrap());
        let z = u64::from_le_bytes(w[o + 8..o + 16].try_into().unwrap());
        if z > (w.len() - o - 16) as u64 { break; }
        v.push((o, p, z));
        o += 16 + z as usize;
    }
    v
}

fn bump(o: &mut Out, k: &str) { *o.stats.entry(k.to_string()).or_insert(0) += 1; }

fn show_sdop(o: &SdOp) -> String {
    match o { SdOp::Write(p, b) => format!("(w {:x} {})", p, hex(b)), SdOp::Resize(n) => format!("(r {:x})", n), SdOp::Flush => "f".into() }
}

// one storage-level program on a fresh file
pub fn run_program(rng: &mut Rng, dir: &str, idx: usize, mapped: bool, max_ops: u64, guard: bool, out: &mut Out) {
    let path = format!("{}/w{}.agdb", dir, idx);
    let wal_path = wal_name(&path);
    let _ = std::fs::remove_file(&path);
    let _ = std::fs::remove_file(&wal_path);
    OPS.lock().unwrap().clear();
    let hs = install_hook(&path, rng.next(), 1000);
    let mut program: Vec<String> = vec![];
    let result = std::panic::catch_unwind(std::panic::AssertUnwindSafe(|| -> Result<(), DbError> {
        let mut live: Vec<(u64, u64)> = vec![]; // (index, size)
        let mut depth: Vec<u64> = vec![];
        macro_rules! go {
            ($s:expr, $rng:expr, $program:expr) => {{
                let s = $s;
                let n = 1 + $rng.below(max_ops);
                for _ in 0..n {
                    let size = |r: &mut Rng| match r.below(6) { 0 => 0, 1 => 16, 2 => r.range(15, 17), 3 => r.range(30, 34), _ => r.range(1, 40) };
                    match $rng.below(14) {
                        0 | 1 | 2 => { let z = size($rng); let b: Vec<u8> = (0..z).map(|_| $rng.next() as u8).collect();
                            let i = s.insert_bytes(&b)?; live.push((i, z)); $program.push(format!("insert {}", z)); }
                        3 | 4 if !live.is_empty() => { let k = $rng.below(live.len() as u64) as usize; let z = size($rng);
                            let b: Vec<u8> = (0..z).map(|_| $rng.next() as u8).collect();
                            s.replace_with_bytes(live[k].0, &b)?; live[k].1 = z; $program.push(format!("replace {} {}", live[k].0, z)); }
                        5 | 6 if !live.is_empty() => { let k = $rng.below(live.len() as u64) as usize;
                            let off = $rng.below(live[k].1 + 20); let z = $rng.range(1, 12); let b: Vec<u8> = (0..z).map(|_| $rng.next() as u8).collect();
                            s.insert_bytes_at(live[k].0, off, &b)?; live[k].1 = live[k].1.max(off + z); $program.push(format!("insert_at {} {} {}", live[k].0, off, z)); }
                        7 if !live.is_empty() => { let k = $rng.below(live.len() as u64) as usize; let z = size($rng);
                            s.resize_value(live[k].0, z)?; live[k].1 = z; $program.push(format!("resize {} {}", live[k].0, z)); }
                        8 if !live.is_empty() => { let k = $rng.below(live.len() as u64) as usize;
                            if live[k].1 >= 2 { let z = $rng.range(1, live[k].1 / 2); let from = $rng.below(live[k].1 - z + 1); let to = $rng.below(live[k].1 - z + 1);
                                s.move_at(live[k].0, from, to, z)?; $program.push(format!("move {} {} {} {}", live[k].0, from, to, z)); } }
                        9 if !live.is_empty() => { let k = $rng.below(live.len() as u64) as usize; s.remove(live[k].0)?;
                            $program.push(format!("remove {}", live[k].0)); live.remove(k); }
                        10 => { s.optimize_storage()?; $program.push("optimize".into()); }
                        11 | 12 if depth.len() < 4 => { depth.push(s.transaction()); $program.push("begin".into()); }
                        _ => { if let Some(id) = depth.pop() { s.commit(id)?; $program.push("commit".into()); } }
                    }
                }
                // leave a transaction open half of the time: dropping must roll it back
                if $rng.chance(1, 2) { while let Some(id) = depth.pop() { s.commit(id)?; } $program.push("commit-all".into()); }
                else if depth.is_empty() && $rng.chance(1, 2) { let _ = s.transaction(); $program.push("begin (left open)".into());
                    let b: Vec<u8> = (0..20).map(|_| $rng.next() as u8).collect(); let _ = s.insert_bytes(&b)?; $program.push("insert 20".into()); }
                { let mut h = hs.lock().unwrap(); h.at_mark = Some((read_file(&h.path), read_file(&h.wal_path)));
                  h.calls.push("|".into()); }   // end of the program; what follows is Drop
                Ok(())
            }};
        }
        if mapped {
            let mut s = VStorage::<Rec<FileStorageMemoryMapped>>::new(&path)?;
            go!(&mut s, rng, program)
        } else {
            let mut s = VStorage::<Rec<FileStorage>>::new(&path)?;
            go!(&mut s, rng, program)
        }
    }));
    // the storage has been dropped here (Drop = recovery of an open transaction)
    set_fs_hook(None);
    out.programs += 1;
    let st = hs.lock().unwrap();
    let ops: Vec<(SdOp, u64)> = OPS.lock().unwrap().clone();
    let desc = format!("backend={} program=[{}]", if mapped { "mapped" } else { "file" }, program.join("; "));
    match &result {
        Err(_) => out.oracle.push(format!("wal-panic {}", desc)),
        Ok(Err(e)) => out.oracle.push(format!("wal-error {} error={}", desc, e.description)),
        _ => {}
    }
    // (0) Drop with an unfinished transaction has the effect of recovery
    let final_data = read_file(&path);
    if final_data != st.committed {
        out.oracle.push(format!("wal-drop-differs {} final_len={} committed_len={}", desc, final_data.len(), st.committed.len()));
    }
    // (1) the theorem's hypothesis on the real storage layer: no write starts beyond the end
    for (op, len) in &ops {
        if let SdOp::Write(p, _) = op { if p > len { out.oracle.push(format!("wal-unpositioned-write pos={} len={} {}", p, len, desc)); } }
    }
    // (2) every snapshot recovers the committed content (real FileStorage::new on copies)
    let rp = format!("{}/r{}.agdb", dir, idx);
    let rw = wal_name(&rp);
    let mut distinct = std::collections::HashSet::new();
    for sn in &st.snaps {
        out.snapshots += 1;
        std::fs::write(&rp, &sn.data).unwrap();
        std::fs::write(&rw, &sn.wal).unwrap();
        let r = std::panic::catch_unwind(|| FileStorage::new(&rp).map(|s| drop(s)));
        let got = read_file(&rp);
        let wal_after = read_file(&rw);
        match r {
            Ok(Ok(())) => {
                if got != sn.committed || !wal_after.is_empty() {
                    out.oracle.push(format!("wal-recovery-differs call={} torn={} recovered_len={} committed_len={} wal_left={} calls=[{}] {}",
                        sn.call, sn.torn, got.len(), sn.committed.len(), wal_after.len(), st.calls[..sn.call.min(st.calls.len())].join(" "), desc));
                }
            }
            Ok(Err(e)) => out.oracle.push(format!("wal-recovery-error call={} torn={} error={} {}", sn.call, sn.torn, e.description, desc)),
            Err(_) => out.oracle.push(format!("wal-recovery-panic call={} torn={} {}", sn.call, sn.torn, desc)),
        }
        distinct.insert((sn.data.len(), sn.wal.len(), sn.call, sn.torn));
    }
    let _ = std::fs::remove_file(&rp);
    let _ = std::fs::remove_file(&rw);
    // (3) model correspondence: the calls issued = the model's trace of the recorded StorageData ops;
    //     and the recovered content of a sample of cuts
    let opstr = ops.iter().map(|(o, _)| show_sdop(o)).collect::<Vec<_>>().join(" ");
    // calls made by recovery/Drop at the end are not part of the trace of `ops`: cut the implementation's
    // call list at the number of calls the model predicts (the driver prints its count first)
    let mark = st.calls.iter().position(|c| c == "|").unwrap_or(st.calls.len());
    out.cases.push(format!("wal trace x ({})", opstr));
    out.imp.push(if mark >= 1 { st.calls[1..mark].join(" ") } else { String::new() });
    let mut r2 = Rng::new(st.torn_seed);
    let inside: Vec<&Snap> = st.snaps.iter().filter(|sn| sn.call >= 1 && sn.call < mark).collect();
    for _ in 0..16.min(inside.len()) {
        let sn = inside[r2.below(inside.len() as u64) as usize];
        // on a tree with the position guard of apply_wal_record the model is the guarded recovery
        out.cases.push(format!("wal {} x ({}) {:x} {:x}", if guard { "recoverg" } else { "recover" }, opstr, sn.call - 1, sn.torn));
        out.imp.push(hex(&sn.committed));
    }
    let g = if guard { 1 } else { 0 };
    let tp = format!("{}/t{}.agdb", dir, idx);
    // (3b) recovery as a sequence of calls (FileWal.recovery_calls): the calls the real FileStorage::new issues on sampled
    //      snapshots (repair of a torn tail, the undo calls, on a guarded tree the removal of each undone record, clear)
    let small: Vec<&Snap> = st.snaps.iter().filter(|sn| sn.data.len() <= 4000).collect();
    for _ in 0..6.min(small.len()) {
        let sn = small[r2.below(small.len() as u64) as usize];
        let (res, calls) = recover_traced(&tp, &sn.data, &sn.wal);
        out.cases.push(format!("wal rcalls {} 0 {} {}", g, hex(&sn.data), hex(&sn.wal)));
        out.imp.push(format!("{}{}", calls.join(" "), if res == "error" { " error" } else { "" }));
        out.traced += 1;
    }
    //      ... and the calls of Drop rolling back the open transaction (apply_wal, then flush), from the files at the end of the program
    if let Some((d, w)) = &st.at_mark {
        if d.len() <= 4000 && mark < st.calls.len() {
            out.cases.push(format!("wal rcalls {} 1 {} {}", g, hex(d), hex(w)));
            out.imp.push(st.calls[mark + 1..].join(" "));
            out.traced += 1;
        }
    }
    // (3c) cuts INSIDE the rollback of Drop (recovery itself interrupted): the model recovers these very files
    let in_drop: Vec<&Snap> = st.snaps.iter().filter(|sn| sn.call > mark && sn.data.len() <= 4000).collect();
    for _ in 0..6.min(in_drop.len()) {
        let sn = in_drop[r2.below(in_drop.len() as u64) as usize];
        out.cases.push(format!("wal open {} {} {}", g, hex(&sn.data), hex(&sn.wal)));
        out.imp.push(hex(&sn.committed));
        out.in_recovery += 1;
    }
    // (4) logs the storage did NOT write: snapshots whose log is damaged in the position fields (moved inside the
    //     file, to its end, a little beyond it) or gets a garbage record appended / prepended; the outcome of the real
    //     FileStorage::new (recovered bytes | error) is compared with the model's recovery of these very files
    //     (`wal open`: recover_g on a guarded tree; on an unguarded tree the model answers `beyond` when a record
    //     lies beyond the current end, where FileWal.v does not model the sparse extension — C07's OpenFile.v does)
    let with_log: Vec<&Snap> = st.snaps.iter().filter(|sn| sn.wal.len() >= 16 && sn.data.len() <= 4000).collect();
    let dp = format!("{}/g{}.agdb", dir, idx);
    for _ in 0..6.min(with_log.len()) {
        let sn = with_log[r2.below(with_log.len() as u64) as usize];
        let recs = parse_log(&sn.wal);
        let len = sn.data.len() as u64;
        let mut wal = sn.wal.clone();
        let kind = r2.below(6);
        let near = |r: &mut Rng| match r.below(5) { 0 => len + 1, 1 => len + r.range(1, 16), 2 => len + r.range(1, 300), _ => r.below(len + 40) };
        let what = match kind {
            0 | 1 | 2 if !recs.is_empty() => {
                // overwrite the position of one record
                let (off, _, _) = recs[r2.below(recs.len() as u64) as usize];
                let p = if kind == 2 { len } else { near(&mut r2) };
                wal[off..off + 8].copy_from_slice(&p.to_le_bytes());
                format!("position-of-record@{}:={}", off, p)
            }
            3 => {
                // a garbage record appended (it is the newest: applied first)
                let p = near(&mut r2);
                let z = [0u64, 0, 1, 5][r2.below(4) as usize];
                let cut = recs.last().map(|(o, _, z)| o + 16 + *z as usize).unwrap_or(0);
                wal.truncate(cut);
                wal.extend_from_slice(&p.to_le_bytes()); wal.extend_from_slice(&z.to_le_bytes());
                for _ in 0..z { wal.push(r2.next() as u8); }
                format!("appended-record pos={} size={}", p, z)
            }
            4 => {
                // a garbage record in front (the oldest: applied last)
                let p = near(&mut r2);
                let z = [0u64, 2][r2.below(2) as usize];
                let mut w2: Vec<u8> = vec![]; w2.extend_from_slice(&p.to_le_bytes()); w2.extend_from_slice(&z.to_le_bytes());
                for _ in 0..z { w2.push(r2.next() as u8); }
                w2.extend_from_slice(&wal); wal = w2;
                format!("prepended-record pos={} size={}", p, z)
            }
            _ => {
                // the whole log replaced by one 16-byte record
                let p = near(&mut r2);
                wal = vec![]; wal.extend_from_slice(&p.to_le_bytes()); wal.extend_from_slice(&0u64.to_le_bytes());
                format!("single-record pos={}", p)
            }
        };
        let (res, rcalls) = recover_traced(&dp, &sn.data, &wal);
        if res == "panic" { out.oracle.push(format!("wal-damaged-log-panic {} data_len={} log={} {}", what, len, hex(&wal), desc)); }
        bump(out, &format!("damaged-log:{}", what.split(|c| c == ' ' || c == '@').next().unwrap()));
        bump(out, if res == "error" { "damaged-log-outcome:error" } else { "damaged-log-outcome:recovered" });
        out.damaged += 1;
        out.cases.push(format!("wal open {} {} {}", g, hex(&sn.data), hex(&wal)));
        out.imp.push(res.clone());
        if res != "panic" {
            out.cases.push(format!("wal rcalls {} 0 {} {}", g, hex(&sn.data), hex(&wal)));
            out.imp.push(format!("{}{}", rcalls.join(" "), if res == "error" { " error" } else { "" }));
        }
    }
    bump(out, if mapped { "backend:mapped" } else { "backend:file" });
    bump(out, &format!("calls:{}", match st.calls.len() { 0..=20 => "<=20", 21..=100 => "21-100", _ => ">100" }));
    for p in &program { bump(out, &format!("op:{}", p.split(' ').next().unwrap())); }
    if st.snaps.len() > 20 && program.iter().any(|p| p == "begin") { out.nontrivial += 1; }
    if out.samples.len() < 3 { out.samples.push(format!("{} => {} calls, {} snapshots", desc, st.calls.len(), st.snaps.len())); }
    drop(st);
    let _ = std::fs::remove_file(&path);
    let _ = std::fs::remove_file(&wal_path);
}
