// storrun.rs — C04 (+ storage level of C05/C06): drives the real Storage<D> (through agdb::verif::VStorage)
// on MemoryStorage, FileStorage and FileStorageMemoryMapped with generated operation lists.
// After EVERY operation it prints the observation (result / error kind), the file length and every readable
// index with its bytes; the same line is produced by the extracted Coq model (extract/m_storage.ml) and the
// two are compared line by line (algorithm level: returned indexes, lengths and error kinds are exact).
// Direct oracle on the implementation, independent of the Coq model: a shadow map index -> bytes kept by
// this file (the abstract semantics of each operation written out below); every live value must read back
// exactly, removed indexes must be unreadable, after optimize len == 24 + sum(16 + size), after reopen the
// same map (a file-backed storage dropped with an open transaction: the map at the last point with no
// transaction open).  Violations go to oracle.txt with class names storage-*.
use crate::rng::Rng;
use crate::sexp::hex;
use agdb::verif::VStorage;
use agdb::{DbError, FileStorage, FileStorageMemoryMapped, MemoryStorage};
use std::collections::BTreeMap;

#[derive(Clone, Copy, PartialEq, Debug)]
pub enum Backend { Mem, File, Mapped }

pub enum St { Mem(VStorage<MemoryStorage>), File(VStorage<FileStorage>), Mapped(VStorage<FileStorageMemoryMapped>) }

macro_rules! on {
    ($st:expr, $s:ident => $e:expr) => { match $st { St::Mem($s) => $e, St::File($s) => $e, St::Mapped($s) => $e } };
}

#[derive(Clone, Debug)]
pub enum Op {
    Ins(Vec<u8>), At(u64, u64, Vec<u8>), Rep(u64, Vec<u8>), Rsz(u64, u64), Mov(u64, u64, u64, u64), Rm(u64),
    Opt, Reopen, Copy, Begin, Commit(u64), Val(u64), Vat(u64, u64), Vas(u64, u64, u64), Vsz(u64), Len,
}

impl Op {
    pub fn show(&self) -> String {
        match self {
            Op::Ins(b) => format!("(ins {})", hex(b)),
            Op::At(i, o, b) => format!("(at {:x} {:x} {})", i, o, hex(b)),
            Op::Rep(i, b) => format!("(rep {:x} {})", i, hex(b)),
            Op::Rsz(i, n) => format!("(rsz {:x} {:x})", i, n),
            Op::Mov(i, f, t, n) => format!("(mov {:x} {:x} {:x} {:x})", i, f, t, n),
            Op::Rm(i) => format!("(rm {:x})", i),
            Op::Opt => "opt".into(), Op::Reopen => "reopen".into(), Op::Copy => "copy".into(), Op::Begin => "begin".into(),
            Op::Commit(i) => format!("(commit {:x})", i),
            Op::Val(i) => format!("(val {:x})", i),
            Op::Vat(i, o) => format!("(vat {:x} {:x})", i, o),
            Op::Vas(i, o, n) => format!("(vas {:x} {:x} {:x})", i, o, n),
            Op::Vsz(i) => format!("(vsz {:x})", i),
            Op::Len => "len".into(),
        }
    }
    fn name(&self) -> &'static str {
        match self {
            Op::Ins(_) => "ins", Op::At(..) => "at", Op::Rep(..) => "rep", Op::Rsz(..) => "rsz", Op::Mov(..) => "mov", Op::Rm(_) => "rm",
            Op::Opt => "opt", Op::Reopen => "reopen", Op::Copy => "copy", Op::Begin => "begin", Op::Commit(_) => "commit",
            Op::Val(_) => "val", Op::Vat(..) => "vat", Op::Vas(..) => "vas", Op::Vsz(_) => "vsz", Op::Len => "len",
        }
    }
}

#[derive(Clone, Debug, PartialEq)]
pub enum Obs { Unit, Num(u64), Bytes(Vec<u8>), Err(String), Panic }

impl Obs {
    fn show(&self) -> String {
        match self {
            Obs::Unit => "u".into(), Obs::Num(n) => format!("n {:x}", n), Obs::Bytes(b) => format!("b {}", hex(b)),
            Obs::Err(k) => format!("e {}", k), Obs::Panic => "panic".into(),
        }
    }
}

pub struct Out {
    pub cases: Vec<String>, pub imp: Vec<String>, pub oracle: Vec<String>,
    pub stats: BTreeMap<String, u64>, pub samples: Vec<String>, pub nontrivial: u64, pub histories: u64, pub steps: u64,
}

impl Out {
    pub fn new() -> Self { Out { cases: vec![], imp: vec![], oracle: vec![], stats: BTreeMap::new(), samples: vec![], nontrivial: 0, histories: 0, steps: 0 } }
}

fn bump(o: &mut Out, k: &str) { *o.stats.entry(k.to_string()).or_insert(0) += 1; }

fn wal_name(path: &str) -> String {
    match path.rfind('/') { Some(i) => format!("{}/.{}", &path[..i], &path[i + 1..]), None => format!(".{}", path) }
}
fn rm_files(path: &str) { let _ = std::fs::remove_file(path); let _ = std::fs::remove_file(wal_name(path)); }

fn open(b: Backend, path: &str) -> Result<St, DbError> {
    Ok(match b {
        Backend::Mem => St::Mem(VStorage::<MemoryStorage>::new(path)?),
        Backend::File => St::File(VStorage::<FileStorage>::new(path)?),
        Backend::Mapped => St::Mapped(VStorage::<FileStorageMemoryMapped>::new(path)?),
    })
}

fn err_kind(e: &DbError) -> String { format!("{:?}", e.ty) }
fn ru(r: Result<(), DbError>) -> Obs { match r { Ok(()) => Obs::Unit, Err(e) => Obs::Err(err_kind(&e)) } }
fn rn(r: Result<u64, DbError>) -> Obs { match r { Ok(n) => Obs::Num(n), Err(e) => Obs::Err(err_kind(&e)) } }
fn rb(r: Result<Vec<u8>, DbError>) -> Obs { match r { Ok(b) => Obs::Bytes(b), Err(e) => Obs::Err(err_kind(&e)) } }

pub struct Runner { pub backend: Backend, pub st: Option<St>, pub path: String, pub alt: String, pub max_index: u64 }

impl Runner {
    pub fn new(backend: Backend, dir: &str, idx: usize) -> Result<Runner, DbError> {
        let path = format!("{}/s{}_{:?}_a.agdb", dir, idx, backend);
        let alt = format!("{}/s{}_{:?}_b.agdb", dir, idx, backend);
        rm_files(&path); rm_files(&alt);
        let st = open(backend, &path)?;
        Ok(Runner { backend, st: Some(st), path, alt, max_index: 0 })
    }
    pub fn cleanup(&mut self) { self.st = None; rm_files(&self.path); rm_files(&self.alt); }

    // drop the storage and open the same name again; MemoryStorage has no persistence of its own: through a backup file
    fn reopen(&mut self) -> Result<(), DbError> {
        if self.backend == Backend::Mem { return self.copy(); }
        self.st = None;
        self.st = Some(open(self.backend, &self.path)?);
        Ok(())
    }
    // backup to a new name, open the copy
    fn copy(&mut self) -> Result<(), DbError> {
        rm_files(&self.alt);
        on!(self.st.as_ref().unwrap(), s => s.backup(&self.alt))?;
        self.st = None;
        rm_files(&self.path);
        std::mem::swap(&mut self.path, &mut self.alt);
        self.st = Some(open(self.backend, &self.path)?);
        Ok(())
    }

    pub fn exec(&mut self, op: &Op) -> Obs {
        let r = std::panic::catch_unwind(std::panic::AssertUnwindSafe(|| -> Obs {
            match op {
                Op::Reopen => return ru(self.reopen()),
                Op::Copy => return ru(self.copy()),
                _ => {}
            }
            let st = self.st.as_mut().unwrap();
            match op {
                Op::Ins(b) => rn(on!(st, s => s.insert_bytes(b))),
                Op::At(i, o, b) => ru(on!(st, s => s.insert_bytes_at(*i, *o, b))),
                Op::Rep(i, b) => ru(on!(st, s => s.replace_with_bytes(*i, b))),
                Op::Rsz(i, n) => ru(on!(st, s => s.resize_value(*i, *n))),
                Op::Mov(i, f, t, n) => ru(on!(st, s => s.move_at(*i, *f, *t, *n))),
                Op::Rm(i) => ru(on!(st, s => s.remove(*i))),
                Op::Opt => ru(on!(st, s => s.optimize_storage())),
                Op::Begin => Obs::Num(on!(st, s => s.transaction())),
                Op::Commit(id) => ru(on!(st, s => s.commit(*id))),
                Op::Val(i) => rb(on!(st, s => s.value_as_bytes(*i))),
                Op::Vat(i, o) => rb(on!(st, s => s.value_as_bytes_at(*i, *o))),
                Op::Vas(i, o, n) => rb(on!(st, s => s.value_as_bytes_at_size(*i, *o, *n))),
                Op::Vsz(i) => rn(on!(st, s => s.value_size(*i))),
                Op::Len => Obs::Num(on!(st, s => s.len())),
                Op::Reopen | Op::Copy => unreachable!(),
            }
        }));
        let o = match r { Ok(o) => o, Err(_) => Obs::Panic };
        if let (Op::Ins(_), Obs::Num(i)) = (op, &o) { self.max_index = self.max_index.max(*i); }
        o
    }

    pub fn len(&self) -> u64 { match &self.st { Some(st) => on!(st, s => s.len()), None => 0 } }

    // every readable index (probed from 0 to beyond the largest index ever returned)
    pub fn live(&self) -> Vec<(u64, Vec<u8>)> {
        let mut v = vec![];
        if let Some(st) = &self.st {
            for i in 0..=self.max_index + 2 {
                let r = std::panic::catch_unwind(std::panic::AssertUnwindSafe(|| on!(st, s => s.value_as_bytes(i))));
                if let Ok(Ok(b)) = r { v.push((i, b)); }
            }
        }
        v
    }
}

// ---------------- the abstract semantics (shadow), written independently of the Coq model ----------------
#[derive(Clone, Default)]
pub struct Shadow { pub map: BTreeMap<u64, Vec<u8>>, pub committed: BTreeMap<u64, Vec<u8>>, pub depth: u64 }

fn insert_at(v: &mut Vec<u8>, off: usize, b: &[u8]) {
    if v.len() < off + b.len() { v.resize(off + b.len(), 0); }
    v[off..off + b.len()].copy_from_slice(b);
}

impl Shadow {
    // expected observation (None = any fresh index) and the effect on the map
    fn apply(&mut self, op: &Op, got: &Obs, filelike: bool) -> Result<(), String> {
        let nf = Obs::Err("NotFound".into());
        let oob = Obs::Err("OutOfBounds".into());
        let mut expect = |e: Obs| -> Result<(), String> { if *got == e { Ok(()) } else { Err(format!("expected {} got {}", e.show(), got.show())) } };
        match op {
            Op::Ins(b) => match got {
                Obs::Num(i) if *i != 0 && !self.map.contains_key(i) => { self.map.insert(*i, b.clone()); }
                _ => return Err(format!("insert returned {} (must be an unused non-zero index)", got.show())),
            },
            Op::At(i, o, b) => match self.map.get_mut(i) {
                None => expect(nf)?,
                Some(v) => { expect(Obs::Unit)?; insert_at(v, *o as usize, b); }
            },
            Op::Rep(i, b) => match self.map.get_mut(i) {
                None => expect(nf)?,
                Some(v) => { expect(Obs::Unit)?; *v = b.clone(); }
            },
            Op::Rsz(i, n) => match self.map.get_mut(i) {
                None => expect(nf)?,
                Some(v) => { expect(Obs::Unit)?; v.resize(*n as usize, 0); }
            },
            Op::Mov(i, f, t, n) => match self.map.get_mut(i) {
                None => expect(nf)?,
                Some(v) => {
                    let (f, t, n) = (*f as usize, *t as usize, *n as usize);
                    if f > v.len() || f + n > v.len() { expect(oob)?; }
                    else {
                        expect(Obs::Unit)?;
                        let src = v[f..f + n].to_vec();
                        insert_at(v, t, &src);
                        // the part of the source range not covered by the destination range is zeroed
                        for k in f..f + n { if k < t || k >= t + n { v[k] = 0; } }
                    }
                }
            },
            Op::Rm(i) => if self.map.contains_key(i) { expect(Obs::Unit)?; self.map.remove(i); } else { expect(nf)? },
            Op::Opt => expect(Obs::Unit)?,
            Op::Reopen => {
                expect(Obs::Unit)?;
                if filelike && self.depth != 0 { self.map = self.committed.clone(); }
                self.depth = 0;
            }
            Op::Copy => { expect(Obs::Unit)?; self.depth = 0; }
            Op::Begin => match got { Obs::Num(d) => { self.depth = *d; } _ => return Err(format!("transaction returned {}", got.show())) },
            Op::Commit(id) => match got {
                Obs::Unit => { if *id > 0 { self.depth = id - 1; } }
                Obs::Err(k) if k == "NotAllowed" => {}
                _ => return Err(format!("commit returned {}", got.show())),
            },
            Op::Val(i) => match self.map.get(i) { None => expect(nf)?, Some(v) => expect(Obs::Bytes(v.clone()))? },
            Op::Vat(i, o) => match self.map.get(i) {
                None => expect(nf)?,
                Some(v) => if *o as usize > v.len() { expect(oob)? } else { expect(Obs::Bytes(v[*o as usize..].to_vec()))? }
            },
            Op::Vas(i, o, n) => match self.map.get(i) {
                None => expect(nf)?,
                Some(v) => if *o as usize > v.len() || (*o + *n) as usize > v.len() { expect(oob)? }
                           else { expect(Obs::Bytes(v[*o as usize..(*o + *n) as usize].to_vec()))? }
            },
            Op::Vsz(i) => match self.map.get(i) { None => expect(nf)?, Some(v) => expect(Obs::Num(v.len() as u64))? },
            Op::Len => match got { Obs::Num(_) => {} _ => return Err(format!("len returned {}", got.show())) },
        }
        Ok(())
    }
}

fn gen_size(r: &mut Rng) -> u64 {
    match r.below(10) {
        0 => 0,
        1 | 2 | 3 => { let k = r.range(0, 7) * 16; let d = r.below(3); (k + d).saturating_sub(1).min(120) }   // 16k-1, 16k, 16k+1
        4 => 16,
        5 => r.range(0, 8),
        6 => r.range(0, 120),
        _ => r.range(1, 40),
    }
}
fn gen_bytes(r: &mut Rng, n: u64) -> Vec<u8> { (0..n).map(|_| (r.next() % 255 + 1) as u8).collect() }

pub struct Gen { pub stack: Vec<u64>, pub dead: Vec<u64>, pub max_index: u64 }

impl Gen {
    fn pick_index(&self, r: &mut Rng, sh: &Shadow) -> u64 {
        let live: Vec<u64> = sh.map.keys().cloned().collect();
        if !live.is_empty() && !r.chance(1, 14) { return live[r.below(live.len() as u64) as usize]; }
        match r.below(4) {
            0 => 0,
            1 if !self.dead.is_empty() => self.dead[r.below(self.dead.len() as u64) as usize],
            2 => self.max_index + 1,
            _ => self.max_index + r.range(1, 5),
        }
    }
    pub fn next(&mut self, r: &mut Rng, sh: &Shadow) -> Op {
        let i = self.pick_index(r, sh);
        let sz = sh.map.get(&i).map(|v| v.len() as u64).unwrap_or(r.range(0, 20));
        if sh.map.is_empty() && r.chance(3, 4) { let n = gen_size(r); return Op::Ins(gen_bytes(r, n)); }
        match r.below(100) {
            0..=21 => { let n = gen_size(r); Op::Ins(gen_bytes(r, n)) }
            22..=31 => {
                let n = match r.below(4) { 0 => 0, 1 => r.range(1, 4), _ => gen_size(r).min(48) };
                let off = match r.below(5) { 0 => 0, 1 => sz, 2 => sz + r.range(1, 40), 3 => sz.saturating_sub(r.range(0, 8)), _ => r.below(sz + 1) };
                Op::At(i, off, gen_bytes(r, n))
            }
            32..=41 => { let n = if r.chance(1, 3) { (sz + 15 + r.below(3)).saturating_sub(r.below(2) * 32) } else { gen_size(r) }; Op::Rep(i, gen_bytes(r, n)) }
            42..=51 => {
                let n = match r.below(6) { 0 => sz + 16, 1 => sz + 15, 2 => sz.saturating_sub(16), 3 => sz.saturating_sub(15), 4 => sz + r.range(1, 40), _ => gen_size(r) };
                Op::Rsz(i, n)
            }
            52..=59 => {
                let n = if sz == 0 || r.chance(1, 10) { r.below(4) } else { r.range(0, sz) };
                let from = if r.chance(1, 12) { sz + r.below(3) } else { r.below(sz.saturating_sub(n) + 1) };
                let to = match r.below(4) { 0 => r.below(sz + 1), 1 => sz + r.below(20), 2 => from + r.below(n + 2), _ => from.saturating_sub(r.below(n + 2)) };
                Op::Mov(i, from, to, n)
            }
            60..=71 => Op::Rm(i),
            72..=75 => Op::Opt,
            76..=78 => Op::Reopen,
            79..=80 => Op::Copy,
            81..=84 if self.stack.len() < 4 => Op::Begin,
            81..=89 => match self.stack.last() {
                Some(id) => if r.chance(1, 10) { Op::Commit(id + r.range(1, 2)) } else { Op::Commit(*id) },
                None => if r.chance(1, 2) { Op::Commit(r.below(3)) } else { Op::Len },
            },
            90..=92 => Op::Val(i),
            93..=94 => Op::Vat(i, if r.chance(1, 4) { sz + r.range(1, 3) } else { r.below(sz + 1) }),
            95..=97 => { let o = r.below(sz + 2); let n = if r.chance(1, 4) { sz + 1 } else { r.below(sz.saturating_sub(o) + 1) }; Op::Vas(i, o, n) }
            98 => Op::Vsz(i),
            _ => Op::Len,
        }
    }
}

fn line(obs: &Obs, rn: &Runner) -> String {
    let live = rn.live();
    format!("{} len={:x} live=[{}] spec=ok", obs.show(), rn.len(),
            live.iter().map(|(i, b)| format!("{:x}:{}", i, hex(b))).collect::<Vec<_>>().join(" "))
}

pub fn model_name(b: Backend, raw: bool) -> &'static str {
    match (b, raw) {
        (Backend::Mem, false) => "mem", (Backend::Mem, true) => "rawmem",
        (Backend::File, false) => "file", (Backend::File, true) => "rawfile",
        (Backend::Mapped, false) => "file", (Backend::Mapped, true) => "rawmapped",
    }
}

// executes one operation on the implementation, emits case/impl lines, checks the oracle; false = stop the history
fn do_op(op: &Op, rn: &mut Runner, sh: &mut Shadow, hist: &mut Vec<String>, out: &mut Out, desc: &str) -> (Obs, bool) {
    let filelike = rn.backend != Backend::Mem;
    let obs = rn.exec(op);
    hist.push(op.show());
    out.cases.push(format!("stor op {}", op.show()));
    out.imp.push(line(&obs, rn));
    out.steps += 1;
    bump(out, &format!("op:{}", op.name()));
    if let Obs::Err(k) = &obs { bump(out, &format!("err:{}", k)); }
    let ctx = |hist: &Vec<String>| format!("{} history=[{}]", desc, hist.join(" "));
    if obs == Obs::Panic { out.oracle.push(format!("storage-panic {}", ctx(hist))); return (obs, false); }
    if let Err(m) = sh.apply(op, &obs, filelike) {
        out.oracle.push(format!("storage-result {} {}", m, ctx(hist)));
        return (obs, false);
    }
    // every live value reads back exactly; nothing else is readable
    let live: BTreeMap<u64, Vec<u8>> = rn.live().into_iter().collect();
    if live != sh.map {
        let cls = if matches!(op, Op::Reopen | Op::Copy) { "storage-reopen-differs" }
                  else if live.keys().any(|k| !sh.map.contains_key(k)) { "storage-removed-readable" } else { "storage-value-mismatch" };
        let bad: Vec<String> = sh.map.iter().filter(|(k, v)| live.get(k) != Some(v)).map(|(k, v)| format!("{}: expected {} got {}", k, hex(v), live.get(k).map(|x| hex(x)).unwrap_or("unreadable".into()))).take(3).collect();
        let extra: Vec<String> = live.keys().filter(|k| !sh.map.contains_key(k)).map(|k| k.to_string()).collect();
        out.oracle.push(format!("{} wrong=[{}] readable-but-removed=[{}] {}", cls, bad.join("; "), extra.join(","), ctx(hist)));
        return (obs, false);
    }
    if matches!(op, Op::Opt) {
        let tight: u64 = 24 + sh.map.values().map(|v| 16 + v.len() as u64).sum::<u64>();
        if rn.len() != tight { out.oracle.push(format!("storage-optimize-not-tight len={} expected={} {}", rn.len(), tight, ctx(hist))); return (obs, false); }
    }
    (obs, true)
}

// depth of open transactions of the implementation, measured (begin returns it) — the two probe calls are
// ordinary operations of the history, the model executes them too
fn probe_depth(rn: &mut Runner, sh: &mut Shadow, hist: &mut Vec<String>, out: &mut Out, desc: &str) -> bool {
    let (o, ok) = do_op(&Op::Begin, rn, sh, hist, out, desc);
    if !ok { return false; }
    if let Obs::Num(d) = o {
        let (_, ok) = do_op(&Op::Commit(d), rn, sh, hist, out, desc);
        return ok;
    }
    false
}

pub fn run_history(rng: &mut Rng, backend: Backend, raw_model: bool, dir: &str, idx: usize, max_ops: u64, out: &mut Out) {
    let desc = format!("backend={:?} history#{}", backend, idx);
    let mut rn = match Runner::new(backend, dir, idx) {
        Ok(r) => r,
        Err(e) => { out.oracle.push(format!("storage-open-error {} {}", desc, e.description)); return; }
    };
    out.histories += 1;
    bump(out, &format!("backend:{:?}", backend));
    out.cases.push(format!("stor new {}", model_name(backend, raw_model)));
    out.imp.push(format!("new len={:x}", rn.len()));
    let mut sh = Shadow::default();
    let mut g = Gen { stack: vec![], dead: vec![], max_index: 0 };
    let mut hist: Vec<String> = vec![];
    let n = 1 + rng.below(max_ops);
    let (mut seen_rm, mut seen_grow, mut seen_maint) = (false, false, false);
    let mut k = 0;
    while k < n {
        k += 1;
        let op = g.next(rng, &sh);
        if matches!(op, Op::Reopen) { if !probe_depth(&mut rn, &mut sh, &mut hist, out, &desc) { break; } }
        let before = sh.map.clone();
        let (obs, ok) = do_op(&op, &mut rn, &mut sh, &mut hist, out, &desc);
        if !ok { break; }
        match (&op, &obs) {
            (Op::Ins(_), Obs::Num(i)) => { g.max_index = g.max_index.max(*i); g.dead.retain(|d| d != i); }
            (Op::Rm(i), Obs::Unit) => { g.dead.push(*i); seen_rm = true; }
            (Op::Begin, Obs::Num(d)) => g.stack.push(*d),
            (Op::Commit(id), Obs::Unit) => { while let Some(t) = g.stack.last() { if *t >= *id && *id > 0 { g.stack.pop(); } else { break; } } }
            (Op::Reopen | Op::Copy, _) => { g.stack.clear(); seen_maint = true; g.dead.retain(|d| !sh.map.contains_key(d)); }
            (Op::Opt, _) => seen_maint = true,
            _ => {}
        }
        if let (Op::At(i, ..) | Op::Rep(i, _) | Op::Rsz(i, _) | Op::Mov(i, ..), Obs::Unit) = (&op, &obs) {
            if sh.map.get(i).map(|v| v.len()) > before.get(i).map(|v| v.len()) { seen_grow = true; }
        }
        // a failed `&mut self` call may have left a transaction open: measure the depth (reads take `&self`)
        let reads = matches!(op, Op::Val(_) | Op::Vat(..) | Op::Vas(..) | Op::Vsz(_) | Op::Len);
        if matches!(obs, Obs::Err(_)) && !reads { if !probe_depth(&mut rn, &mut sh, &mut hist, out, &desc) { break; } }
        if sh.depth == 0 { sh.committed = sh.map.clone(); }
    }
    if seen_rm && seen_grow && seen_maint && hist.len() >= 10 { out.nontrivial += 1; }
    bump(out, &format!("ops/history:{}", match hist.len() { 0..=10 => "<=10", 11..=30 => "11-30", 31..=60 => "31-60", _ => ">60" }));
    if out.samples.len() < 3 { out.samples.push(format!("{} [{}]", desc, hist.iter().take(12).cloned().collect::<Vec<_>>().join(" "))); }
    rn.cleanup();
}

// exhaustive small scope: every operation sequence of length <= depth over a small alphabet (sizes 0, 16, 33),
// run on one back-end
pub fn run_exhaustive(backend: Backend, dir: &str, depth: usize, out: &mut Out) {
    let sizes = [0u64, 16, 33];
    // letters are resolved against the current live set: (kind, a, b)
    let mut alphabet: Vec<(u8, u64, u64)> = vec![];
    for s in sizes { alphabet.push((0, s, 0)); }                     // ins size
    for k in 0..2 { alphabet.push((1, k, 0)); }                      // rm k-th live
    for k in 0..2 { for s in sizes { alphabet.push((2, k, s)); } }   // rsz k-th live to s
    for k in 0..2 { alphabet.push((3, k, 17)); }                     // at k-th live, beyond the end
    alphabet.push((4, 0, 0));                                        // opt
    alphabet.push((5, 0, 0));                                        // reopen
    let mut seq = vec![0usize; depth];
    let total = alphabet.len().pow(depth as u32);
    let mut fill = 1u8;
    for code in 0..total {
        let mut c = code;
        for d in 0..depth { seq[d] = c % alphabet.len(); c /= alphabet.len(); }
        let desc = format!("backend={:?} exhaustive#{}", backend, code);
        let mut rn = match Runner::new(backend, dir, 0) { Ok(r) => r, Err(_) => continue };
        out.histories += 1;
        out.cases.push(format!("stor new {}", model_name(backend, false)));
        out.imp.push(format!("new len={:x}", rn.len()));
        let mut sh = Shadow::default();
        let mut hist = vec![];
        for d in 0..depth {
            let (kind, a, b) = alphabet[seq[d]];
            let live: Vec<u64> = sh.map.keys().cloned().collect();
            let pick = |k: u64| -> u64 { live.get(k as usize).cloned().unwrap_or(k + 7) };
            fill = fill.wrapping_add(1).max(1);
            let op = match kind {
                0 => Op::Ins(vec![fill; a as usize]),
                1 => Op::Rm(pick(a)),
                2 => Op::Rsz(pick(a), b),
                3 => { let i = pick(a); let sz = sh.map.get(&i).map(|v| v.len() as u64).unwrap_or(0); Op::At(i, sz + b, vec![fill; 3]) }
                4 => Op::Opt,
                _ => Op::Reopen,
            };
            let (_, ok) = do_op(&op, &mut rn, &mut sh, &mut hist, out, &desc);
            if !ok { break; }
            if sh.depth == 0 { sh.committed = sh.map.clone(); }
        }
        rn.cleanup();
    }
    bump(out, &format!("exhaustive:{:?}:depth{}", backend, depth));
}
