// omaprun.rs — C19 algorithm-level correspondence: random operation histories on the real
// MultiMapStorage<u64, u64> (through the cfg(agdb_verif) wrapper agdb::verif::VMultiMap, hook H1) with the
// whole slot array dumped after every operation; the same lines are run through the extracted
// coq/theories/OpenMap.v model (extract/omap).  Needs the cargo feature `h1_multimap`.
use crate::rng::Rng;
use agdb::verif::VMultiMap;
use std::collections::BTreeMap;

pub struct Out {
    pub cases: Vec<String>,
    pub imp: Vec<String>,
    pub oracle: Vec<String>,
    pub stats: BTreeMap<String, u64>,
    pub samples: Vec<String>,
    pub nontrivial: u64,
    pub histories: u64,
}

fn dump(m: &VMultiMap) -> String {
    match m.slots() {
        Err(e) => format!("err {}", e.description),
        Ok(sl) => {
            let mut s = format!("{:x} {:x}", m.len(), sl.len());
            for (st, k, v) in sl {
                match st {
                    0 => s.push_str(" e"),
                    2 => s.push_str(" d"),
                    _ => s.push_str(&format!(" {:x}:{:x}", k, v)),
                }
            }
            s
        }
    }
}

// keys: small dense ids, colliding families (same residue mod 64/128/256), and arbitrary u64
fn gen_key(r: &mut Rng, pool: &[u64]) -> u64 {
    match r.below(10) {
        0..=3 => r.below(200),
        4 | 5 => r.below(4) + 64 * r.below(12),
        6 | 7 => *r.pick(pool),
        8 => r.below(3) + 256 * r.below(6),
        _ => r.next(),
    }
}

pub fn run_history(rng: &mut Rng, steps: usize, o: &mut Out) {
    o.histories += 1;
    let mut m = VMultiMap::new().expect("map");
    o.cases.push("reset 111".into());
    o.imp.push("ok".into());
    let mut pool: Vec<u64> = vec![0];
    let mut log: Vec<String> = vec![];
    let (mut grew, mut shrank, mut full_cycles) = (false, false, 0u64);
    let n = 1 + rng.below(steps as u64) as usize;
    let mut mode = 0u64; // 0 grow, 1 shrink, 2 churn (insert / remove balanced: fills the table with tombstones)
    for si in 0..n {
        if si % 40 == 0 { mode = rng.below(3); }
        let cap_before = m.capacity();
        let k = gen_key(rng, &pool);
        let v = rng.below(4);
        // weights: ins ior rk rv reserve value values
        let w: [u64; 7] = match mode { 0 => [10, 10, 2, 2, 1, 2, 2], 1 => [2, 3, 9, 9, 0, 2, 2], _ => [5, 9, 7, 7, 0, 1, 1] };
        let mut x = rng.below(w.iter().sum());
        let mut op = 0;
        while x >= w[op] { x -= w[op]; op += 1; }
        let live = !pool.is_empty() && rng.chance(3, 4);
        let k = if (op == 2 || op == 3 || op >= 5) && live { *rng.pick(&pool) } else { k };
        let (line, res) = match op {
            0 => { pool.push(k); (format!("ins {:x} {:x}", k, v), m.insert(k, v).map(|_| "ok".to_string())) }
            1 => {
                pool.push(k);
                let only = if rng.chance(2, 3) { None } else { Some(rng.below(4)) };
                (format!("ior {:x} {} {:x}", k, only.map(|x| format!("{:x}", x)).unwrap_or("-".into()), v),
                 m.insert_or_replace(k, only, v).map(|r| format!("ok {}", r.map(|x| format!("{:x}", x)).unwrap_or("-".into()))))
            }
            2 => (format!("rk {:x}", k), m.remove_key(k).map(|_| "ok".to_string())),
            3 => (format!("rv {:x} {:x}", k, v), m.remove_value(k, v).map(|_| "ok".to_string())),
            4 => { let c = rng.below(300); (format!("reserve {:x}", c), m.reserve(c).map(|_| "ok".to_string())) }
            5 => (format!("value {:x}", k), m.value(k).map(|r| r.map(|x| format!("{:x}", x)).unwrap_or("-".into()))),
            _ => (format!("values {:x}", k), m.values(k).map(|l| format!("[{}]", l.iter().map(|x| format!("{:x}", x)).collect::<Vec<_>>().join(" ")))),
        };
        if pool.len() > 400 { pool.remove(0); }
        let res = res.unwrap_or_else(|e| format!("err {}", e.description));
        *o.stats.entry(format!("op:{}", line.split(' ').next().unwrap())).or_insert(0) += 1;
        log.push(line.clone());
        o.cases.push(line);
        o.imp.push(res);
        o.cases.push("dump".into());
        let d = dump(&m);
        // direct oracle: len = number of valid slots < capacity
        let valid = d.split(' ').skip(2).filter(|s| s.contains(':')).count() as u64;
        if valid != m.len() || (m.capacity() > 0 && m.len() >= m.capacity()) {
            o.oracle.push(format!("omap-invariant len={} valid={} capacity={} history=[{}]", m.len(), valid, m.capacity(), log.join(" ;; ")));
        }
        if !d.split(' ').skip(2).any(|s| s == "e") && m.capacity() > 0 { full_cycles += 1; }
        o.imp.push(d);
        if m.capacity() > cap_before && cap_before >= 64 { grew = true; }
        if m.capacity() < cap_before { shrank = true; }
    }
    if grew { *o.stats.entry("history:grew".into()).or_insert(0) += 1; }
    if shrank { *o.stats.entry("history:shrank".into()).or_insert(0) += 1; }
    if full_cycles > 0 { *o.stats.entry("history:reached-table-without-empty-slot".into()).or_insert(0) += 1; }
    if grew && shrank { o.nontrivial += 1; }
    if o.samples.len() < 3 { o.samples.push(log.iter().take(8).cloned().collect::<Vec<_>>().join(" ;; ")); }
}
