// omaprun.rs — C19 algorithm-level correspondence: random operation histories on the real
// MultiMapStorage<u64, u64> (through the cfg(agdb_verif) wrapper agdb::verif::VMultiMap, hook H1) with the
// whole slot array dumped after every operation; the same lines are run through the extracted
// coq/theories/OpenMap.v model (extract/omap).  Needs the cargo feature `h1_multimap`.
//
// Spec-level oracle (coq/theories/OpenMapSpec.v, the specification OpenMap.v is PROVED to refine): every
// history is also run on a plain shadow multimap (a Vec of (key, value) pairs, no hashing); after every
// operation the result of the operation, `len`, the iteration (Valid slots as a multiset), and `value` /
// `values` of the operation's key and of a second live key must be what the shadow allows
// (values compared as multisets).  Any difference = oracle line of class `map-spec-mismatch` with the history.
use crate::rng::Rng;
use agdb::verif::VMultiMap;
use std::collections::BTreeMap;

pub struct Out {
    pub cases: Vec<String>,
    pub imp: Vec<String>,
    pub oracle: Vec<String>,
    pub stats: BTreeMap<String, u64>,
    pub samples: Vec<String>,
    pub nontrivial: u64,
    pub histories: u64,
}

fn dump(m: &VMultiMap) -> String {
    match m.slots() {
        Err(e) => format!("err {}", e.description),
        Ok(sl) => {
            let mut s = format!("{:x} {:x}", m.len(), sl.len());
            for (st, k, v) in sl {
                match st {
                    0 => s.push_str(" e"),
                    2 => s.push_str(" d"),
                    _ => s.push_str(&format!(" {:x}:{:x}", k, v)),
                }
            }
            s
        }
    }
}

fn hx(s: &str) -> u64 {
    u64::from_str_radix(s, 16).expect("hex")
}

fn sorted(mut v: Vec<u64>) -> Vec<u64> {
    v.sort();
    v
}

/// the abstract multimap of OpenMapSpec.v
#[derive(Default)]
pub struct Shadow(pub Vec<(u64, u64)>);

impl Shadow {
    fn values(&self, k: u64) -> Vec<u64> {
        self.0.iter().filter(|p| p.0 == k).map(|p| p.1).collect()
    }
    fn remove_one(&mut self, k: u64, v: u64) -> bool {
        match self.0.iter().position(|p| *p == (k, v)) {
            Some(i) => { self.0.remove(i); true }
            None => false,
        }
    }
    /// lookups of key k on the real map against the shadow; None = agree
    fn check_lookups(&self, m: &VMultiMap, k: u64) -> Option<String> {
        let want = sorted(self.values(k));
        match m.values(k) {
            Err(e) => return Some(format!("values({:x}) failed: {}", k, e.description)),
            Ok(l) => {
                if sorted(l.clone()) != want {
                    return Some(format!("values({:x}) = {:x?}, stored values of the key = {:x?}", k, l, want));
                }
            }
        }
        match m.value(k) {
            Err(e) => Some(format!("value({:x}) failed: {}", k, e.description)),
            Ok(None) if !want.is_empty() => Some(format!("value({:x}) = None (contains = false), stored values of the key = {:x?}", k, want)),
            Ok(Some(x)) if !want.contains(&x) => Some(format!("value({:x}) = {:x}, stored values of the key = {:x?}", k, x, want)),
            _ => None,
        }
    }
    /// len and iteration of the real map against the shadow
    fn check_whole(&self, m: &VMultiMap) -> Option<String> {
        if m.len() != self.0.len() as u64 {
            return Some(format!("len = {}, the multimap holds {} pairs", m.len(), self.0.len()));
        }
        match m.slots() {
            Err(e) => Some(format!("iteration failed: {}", e.description)),
            Ok(sl) => {
                let mut it: Vec<(u64, u64)> = sl.iter().filter(|s| s.0 == 1).map(|s| (s.1, s.2)).collect();
                it.sort();
                let mut want = self.0.clone();
                want.sort();
                if it != want { Some(format!("iteration yields {:x?}, the multimap holds {:x?}", it, want)) } else { None }
            }
        }
    }
}

/// one operation line on the real map and on the shadow: (implementation result line, spec mismatch)
pub fn exec_line(m: &mut VMultiMap, sh: &mut Shadow, line: &str) -> (String, Option<String>) {
    let t: Vec<&str> = line.split(' ').collect();
    let mut bad: Option<String> = None;
    let res = match t[0] {
        "ins" => {
            let (k, v) = (hx(t[1]), hx(t[2]));
            let r = m.insert(k, v).map(|_| "ok".to_string());
            if r.is_ok() { sh.0.push((k, v)); }
            r
        }
        "ior" => {
            let (k, v) = (hx(t[1]), hx(t[3]));
            let only = if t[2] == "-" { None } else { Some(hx(t[2])) };
            let r = m.insert_or_replace(k, only, v);
            if let Ok(ret) = &r {
                let cand: Vec<u64> = sh.values(k).into_iter().filter(|x| only.is_none_or(|o| *x == o)).collect();
                match ret {
                    Some(old) => {
                        if !cand.contains(old) {
                            bad = Some(format!("insert_or_replace({:x}) returned {:x}, replaceable stored values = {:x?}", k, old, cand));
                        }
                        sh.remove_one(k, *old);
                    }
                    None => {
                        if !cand.is_empty() {
                            bad = Some(format!("insert_or_replace({:x}) returned None, replaceable stored values = {:x?}", k, cand));
                        }
                    }
                }
                sh.0.push((k, v));
            }
            r.map(|r| format!("ok {}", r.map(|x| format!("{:x}", x)).unwrap_or("-".into())))
        }
        "rk" => {
            let k = hx(t[1]);
            let r = m.remove_key(k).map(|_| "ok".to_string());
            if r.is_ok() { sh.0.retain(|p| p.0 != k); }
            r
        }
        "rv" => {
            let (k, v) = (hx(t[1]), hx(t[2]));
            let r = m.remove_value(k, v).map(|_| "ok".to_string());
            if r.is_ok() { sh.remove_one(k, v); }
            r
        }
        "reserve" => m.reserve(hx(t[1])).map(|_| "ok".to_string()),
        "value" => {
            let k = hx(t[1]);
            m.value(k).map(|r| r.map(|x| format!("{:x}", x)).unwrap_or("-".into()))
        }
        "values" => {
            let k = hx(t[1]);
            m.values(k).map(|l| format!("[{}]", l.iter().map(|x| format!("{:x}", x)).collect::<Vec<_>>().join(" ")))
        }
        _ => panic!("omap: bad line {}", line),
    };
    if res.is_ok() && bad.is_none() {
        bad = sh.check_whole(m);
    }
    if res.is_ok() && bad.is_none() && t[0] != "reserve" {
        bad = sh.check_lookups(m, hx(t[1]));
    }
    (res.unwrap_or_else(|e| format!("err {}", e.description)), bad)
}

// keys: small dense ids, colliding families (same residue mod 64/128/256), and arbitrary u64
fn gen_key(r: &mut Rng, pool: &[u64]) -> u64 {
    match r.below(10) {
        0..=3 => r.below(200),
        4 | 5 => r.below(4) + 64 * r.below(12),
        6 | 7 => *r.pick(pool),
        8 => r.below(3) + 256 * r.below(6),
        _ => r.next(),
    }
}

// the colliding family of mode 3: three residues modulo 64 (= modulo every capacity), 40 keys each
fn gen_colliding(r: &mut Rng, a: u64) -> u64 {
    [a, a + 1, 63][r.below(3) as usize] + 64 * r.below(40)
}

pub fn run_history(rng: &mut Rng, steps: usize, o: &mut Out) {
    o.histories += 1;
    let mut m = VMultiMap::new().expect("map");
    let mut sh = Shadow::default();
    o.cases.push("reset 111".into());
    o.imp.push("ok".into());
    let mut pool: Vec<u64> = vec![0];
    let mut log: Vec<String> = vec![];
    let (mut grew, mut shrank, mut full_cycles, mut collide_full) = (false, false, 0u64, 0u64);
    let mut mismatch = false;
    let n = 1 + rng.below(steps as u64) as usize;
    // 0 grow, 1 shrink, 2 churn (insert / remove balanced: fills the table with tombstones),
    // 3 removal-heavy churn over COLLIDING keys that stays at capacity 64 (long probe chains through tombstones)
    let mut mode = 0u64;
    let sticky3 = rng.chance(1, 5); // one history in five is mode 3 throughout
    let resid = rng.below(60);
    for si in 0..n {
        if si % 40 == 0 { mode = if sticky3 { 3 } else { rng.below(4) }; }
        let cap_before = m.capacity();
        let k = if mode == 3 { gen_colliding(rng, resid) } else { gen_key(rng, &pool) };
        let v = rng.below(4);
        // weights: ins ior rk rv reserve value values
        let mut w: [u64; 7] = match mode { 0 => [10, 10, 2, 2, 1, 2, 2], 1 => [2, 3, 9, 9, 0, 2, 2], 2 => [5, 9, 7, 7, 0, 1, 1], _ => [7, 6, 6, 9, 0, 2, 3] };
        if mode == 3 && m.len() >= 56 { w[0] = 0; w[1] = 1; }
        let mut x = rng.below(w.iter().sum());
        let mut op = 0;
        while x >= w[op] { x -= w[op]; op += 1; }
        let live = !pool.is_empty() && rng.chance(3, 4);
        let k = if (op == 2 || op == 3 || op >= 5) && live { *rng.pick(&pool) } else { k };
        // remove_value of a value that is actually stored, most of the time
        let v = if op == 3 && rng.chance(2, 3) { sh.values(k).first().copied().unwrap_or(v) } else { v };
        let line = match op {
            0 => { pool.push(k); format!("ins {:x} {:x}", k, v) }
            1 => {
                pool.push(k);
                let only = if rng.chance(2, 3) { None } else { Some(rng.below(4)) };
                format!("ior {:x} {} {:x}", k, only.map(|x| format!("{:x}", x)).unwrap_or("-".into()), v)
            }
            2 => format!("rk {:x}", k),
            3 => format!("rv {:x} {:x}", k, v),
            4 => format!("reserve {:x}", rng.below(300)),
            5 => format!("value {:x}", k),
            _ => format!("values {:x}", k),
        };
        if pool.len() > 400 { pool.remove(0); }
        let (res, mut bad) = exec_line(&mut m, &mut sh, &line);
        // a second key, untouched by the operation: still found / still absent
        if bad.is_none() && !res.starts_with("err") {
            let k2 = if rng.chance(3, 4) { *rng.pick(&pool) } else { gen_key(rng, &pool) };
            bad = sh.check_lookups(&m, k2);
        }
        *o.stats.entry(format!("op:{}", line.split(' ').next().unwrap())).or_insert(0) += 1;
        *o.stats.entry("spec-checked-steps".into()).or_insert(0) += 1;
        if mode == 3 { *o.stats.entry("step:colliding-removal-heavy".into()).or_insert(0) += 1; }
        log.push(line.clone());
        o.cases.push(line);
        o.imp.push(res);
        o.cases.push("dump".into());
        let d = dump(&m);
        if let Some(b) = bad {
            if !mismatch {
                o.oracle.push(format!("map-spec-mismatch {} history=[{}]", b, log.join(" ;; ")));
            }
            mismatch = true;
        }
        // direct oracle: len = number of valid slots < capacity
        let valid = d.split(' ').skip(2).filter(|s| s.contains(':')).count() as u64;
        if valid != m.len() || (m.capacity() > 0 && m.len() >= m.capacity()) {
            o.oracle.push(format!("omap-invariant len={} valid={} capacity={} history=[{}]", m.len(), valid, m.capacity(), log.join(" ;; ")));
        }
        if !d.split(' ').skip(2).any(|s| s == "e") && m.capacity() > 0 {
            full_cycles += 1;
            if mode == 3 { collide_full += 1; }
        }
        o.imp.push(d);
        if m.capacity() > cap_before && cap_before >= 64 { grew = true; }
        if m.capacity() < cap_before { shrank = true; }
    }
    if grew { *o.stats.entry("history:grew".into()).or_insert(0) += 1; }
    if shrank { *o.stats.entry("history:shrank".into()).or_insert(0) += 1; }
    if full_cycles > 0 { *o.stats.entry("history:reached-table-without-empty-slot".into()).or_insert(0) += 1; }
    if collide_full > 0 { *o.stats.entry("history:colliding-keys-table-without-empty-slot".into()).or_insert(0) += 1; }
    if grew && shrank { o.nontrivial += 1; }
    if o.samples.len() < 3 { o.samples.push(log.iter().take(8).cloned().collect::<Vec<_>>().join(" ;; ")); }
}

/// replay operation lines (one per line; `reset ...` and `dump` lines are skipped) on the real map with the
/// spec-level oracle; prints one line per operation
pub fn replay(lines: &[String], o: &mut Out) {
    let mut m = VMultiMap::new().expect("map");
    let mut sh = Shadow::default();
    let mut log: Vec<String> = vec![];
    o.histories += 1;
    for line in lines {
        let line = line.trim();
        if line.is_empty() || line == "dump" || line.starts_with("reset") || line.starts_with('#') { continue; }
        let (res, bad) = exec_line(&mut m, &mut sh, line);
        log.push(line.to_string());
        o.cases.push(line.to_string());
        o.imp.push(res.clone());
        println!("{} -> {}   [len {} capacity {}]", line, res, m.len(), m.capacity());
        if let Some(b) = bad {
            println!("  map-spec-mismatch: {}", b);
            o.oracle.push(format!("map-spec-mismatch {} history=[{}]", b, log.join(" ;; ")));
        }
        o.cases.push("dump".into());
        o.imp.push(dump(&m));
    }
}
