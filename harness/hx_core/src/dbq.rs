// dbq.rs — query AST shared with the Coq model (text form parsed by extract/m_db.ml),
// conversion to the real agdb query structs, execution and canonical printing.
use crate::sexp::hex;
use agdb::*;

#[derive(Clone, Debug, PartialEq)]
pub enum Qid { Id(i64), Alias(String) }

#[derive(Clone, Debug, PartialEq)]
pub enum CC { Eq(u64), Gt(u64), Ge(u64), Lt(u64), Le(u64), Ne(u64) }

#[derive(Clone, Debug, PartialEq)]
pub enum CondData {
    Distance(CC), Edge, EdgeCount(CC), EdgeCountFrom(CC), EdgeCountTo(CC), Ids(Vec<Qid>),
    KeyValue(DbValue, &'static str, DbValue), Keys(Vec<DbValue>), Node, Where(Vec<Cond>),
}

#[derive(Clone, Debug, PartialEq)]
pub struct Cond { pub and: bool, pub modifier: &'static str, pub data: CondData }

#[derive(Clone, Debug, PartialEq)]
pub struct Search {
    pub alg: char, // b d i e
    pub origin: Qid,
    pub dest: Qid,
    pub limit: u64,
    pub offset: u64,
    pub order: Vec<(bool, DbValue)>, // (asc, key)
    pub conds: Vec<Cond>,
}

#[derive(Clone, Debug, PartialEq)]
pub enum Qids { Ids(Vec<Qid>), Search(Box<Search>) }

#[derive(Clone, Debug, PartialEq)]
pub enum Qvalues { Single(Vec<DbKeyValue>), Multi(Vec<Vec<DbKeyValue>>) }

#[derive(Clone, Debug, PartialEq)]
pub enum Q {
    InsertNodes(u64, Qvalues, Vec<String>, Qids),
    InsertEdges(Qids, Qids, Qvalues, bool, Qids),
    InsertAliases(Qids, Vec<String>),
    InsertValues(Qids, Qvalues),
    InsertIndex(DbValue),
    RemoveIndex(DbValue),
    Remove(Qids),
    RemoveAliases(Vec<String>),
    RemoveValues(Qids, Vec<DbValue>),
    SelectValues(Vec<DbValue>, Qids),
    SelectKeys(Qids),
    SelectKeyCount(Qids),
    SelectAliases(Qids),
    SelectAllAliases,
    SelectEdgeCount(Qids, bool, bool),
    SelectIndexes,
    SelectNodeCount,
    SearchQ(Box<Search>),
}

impl Q {
    pub fn is_mut(&self) -> bool {
        matches!(self, Q::InsertNodes(..) | Q::InsertEdges(..) | Q::InsertAliases(..) | Q::InsertValues(..)
            | Q::InsertIndex(..) | Q::RemoveIndex(..) | Q::Remove(..) | Q::RemoveAliases(..) | Q::RemoveValues(..))
    }
    pub fn is_index_search(&self) -> bool {
        matches!(self, Q::SearchQ(s) if s.alg == 'i')
    }
    pub fn name(&self) -> &'static str {
        match self {
            Q::InsertNodes(..) => "insert_nodes", Q::InsertEdges(..) => "insert_edges", Q::InsertAliases(..) => "insert_aliases",
            Q::InsertValues(..) => "insert_values", Q::InsertIndex(..) => "insert_index", Q::RemoveIndex(..) => "remove_index",
            Q::Remove(..) => "remove", Q::RemoveAliases(..) => "remove_aliases", Q::RemoveValues(..) => "remove_values",
            Q::SelectValues(..) => "select_values", Q::SelectKeys(..) => "select_keys", Q::SelectKeyCount(..) => "select_key_count",
            Q::SelectAliases(..) => "select_aliases", Q::SelectAllAliases => "select_all_aliases",
            Q::SelectEdgeCount(..) => "select_edge_count", Q::SelectIndexes => "select_indexes",
            Q::SelectNodeCount => "select_node_count", Q::SearchQ(..) => "search",
        }
    }
}

// ---------------------------------------------------------------- printing
fn ihex(z: i64) -> String {
    if z < 0 { format!("-{:x}", (z as i128).unsigned_abs()) } else { format!("{:x}", z) }
}

pub fn show_value(v: &DbValue) -> String {
    match v {
        DbValue::Bytes(b) => format!("(b {})", hex(b)),
        DbValue::I64(z) => format!("(i {})", ihex(*z)),
        DbValue::U64(n) => format!("(u {:x})", n),
        DbValue::F64(f) => format!("(f {:x})", f.to_f64().to_bits()),
        DbValue::String(s) => format!("(s {})", hex(s.as_bytes())),
        DbValue::VecI64(l) => format!("(vi{})", l.iter().map(|z| format!(" {}", ihex(*z))).collect::<String>()),
        DbValue::VecU64(l) => format!("(vu{})", l.iter().map(|n| format!(" {:x}", n)).collect::<String>()),
        DbValue::VecF64(l) => format!("(vf{})", l.iter().map(|f| format!(" {:x}", f.to_f64().to_bits())).collect::<String>()),
        DbValue::VecString(l) => format!("(vs{})", l.iter().map(|s| format!(" {}", hex(s.as_bytes()))).collect::<String>()),
    }
}

pub fn show_kv(kv: &DbKeyValue) -> String {
    format!("(kv {} {})", show_value(&kv.key), show_value(&kv.value))
}

fn show_qid(q: &Qid) -> String {
    match q { Qid::Id(i) => format!("(id {})", ihex(*i)), Qid::Alias(a) => format!("(al {})", hex(a.as_bytes())) }
}

fn show_cc(c: &CC) -> String {
    match c {
        CC::Eq(n) => format!("(eq {:x})", n), CC::Gt(n) => format!("(gt {:x})", n), CC::Ge(n) => format!("(ge {:x})", n),
        CC::Lt(n) => format!("(lt {:x})", n), CC::Le(n) => format!("(le {:x})", n), CC::Ne(n) => format!("(ne {:x})", n),
    }
}

fn show_cond(c: &Cond) -> String {
    let d = match &c.data {
        CondData::Distance(cc) => format!("(distance {})", show_cc(cc)),
        CondData::Edge => "edge".into(),
        CondData::EdgeCount(cc) => format!("(edgecount {})", show_cc(cc)),
        CondData::EdgeCountFrom(cc) => format!("(edgecountfrom {})", show_cc(cc)),
        CondData::EdgeCountTo(cc) => format!("(edgecountto {})", show_cc(cc)),
        CondData::Ids(l) => format!("(cids{})", l.iter().map(|q| format!(" {}", show_qid(q))).collect::<String>()),
        CondData::KeyValue(k, op, v) => format!("(keyvalue {} {} {})", show_value(k), op, show_value(v)),
        CondData::Keys(l) => format!("(keys{})", l.iter().map(|v| format!(" {}", show_value(v))).collect::<String>()),
        CondData::Node => "node".into(),
        CondData::Where(l) => format!("(where{})", l.iter().map(|c| format!(" {}", show_cond(c))).collect::<String>()),
    };
    format!("(c {} {} {})", if c.and { "and" } else { "or" }, c.modifier, d)
}

pub fn show_search(s: &Search) -> String {
    format!("(sq {} {} {} {:x} {:x} (order{}) (conds{}))", s.alg, show_qid(&s.origin), show_qid(&s.dest), s.limit, s.offset,
        s.order.iter().map(|(a, k)| format!(" ({} {})", if *a { "asc" } else { "desc" }, show_value(k))).collect::<String>(),
        s.conds.iter().map(|c| format!(" {}", show_cond(c))).collect::<String>())
}

fn show_qids(q: &Qids) -> String {
    match q {
        Qids::Ids(l) => format!("(ids{})", l.iter().map(|q| format!(" {}", show_qid(q))).collect::<String>()),
        Qids::Search(s) => format!("(search {})", show_search(s)),
    }
}

fn show_kvs(l: &[DbKeyValue]) -> String {
    l.iter().map(|kv| format!(" {}", show_kv(kv))).collect::<String>()
}

fn show_qvalues(v: &Qvalues) -> String {
    match v {
        Qvalues::Single(l) => format!("(single{})", show_kvs(l)),
        Qvalues::Multi(ll) => format!("(multi{})", ll.iter().map(|l| format!(" (kvs{})", show_kvs(l))).collect::<String>()),
    }
}

fn show_aliases(l: &[String]) -> String {
    format!("(aliases{})", l.iter().map(|a| format!(" {}", hex(a.as_bytes()))).collect::<String>())
}

fn show_keys(l: &[DbValue]) -> String {
    format!("(keys{})", l.iter().map(|v| format!(" {}", show_value(v))).collect::<String>())
}

pub fn show_q(q: &Q) -> String {
    let b = |x: &bool| if *x { 1 } else { 0 };
    match q {
        Q::InsertNodes(c, v, a, i) => format!("(insert_nodes {:x} {} {} {})", c, show_qvalues(v), show_aliases(a), show_qids(i)),
        Q::InsertEdges(f, t, v, e, i) => format!("(insert_edges {} {} {} {} {})", show_qids(f), show_qids(t), show_qvalues(v), b(e), show_qids(i)),
        Q::InsertAliases(i, a) => format!("(insert_aliases {} {})", show_qids(i), show_aliases(a)),
        Q::InsertValues(i, v) => format!("(insert_values {} {})", show_qids(i), show_qvalues(v)),
        Q::InsertIndex(k) => format!("(insert_index {})", show_value(k)),
        Q::RemoveIndex(k) => format!("(remove_index {})", show_value(k)),
        Q::Remove(i) => format!("(remove {})", show_qids(i)),
        Q::RemoveAliases(a) => format!("(remove_aliases {})", show_aliases(a)),
        Q::RemoveValues(i, k) => format!("(remove_values {} {})", show_qids(i), show_keys(k)),
        Q::SelectValues(k, i) => format!("(select_values {} {})", show_keys(k), show_qids(i)),
        Q::SelectKeys(i) => format!("(select_keys {})", show_qids(i)),
        Q::SelectKeyCount(i) => format!("(select_key_count {})", show_qids(i)),
        Q::SelectAliases(i) => format!("(select_aliases {})", show_qids(i)),
        Q::SelectAllAliases => "select_all_aliases".into(),
        Q::SelectEdgeCount(i, f, t) => format!("(select_edge_count {} {} {})", show_qids(i), b(f), b(t)),
        Q::SelectIndexes => "select_indexes".into(),
        Q::SelectNodeCount => "select_node_count".into(),
        Q::SearchQ(s) => format!("(search_q {})", show_search(s)),
    }
}

// ---------------------------------------------------------------- conversion
fn to_qid(q: &Qid) -> QueryId {
    match q { Qid::Id(i) => QueryId::Id(DbId(*i)), Qid::Alias(a) => QueryId::Alias(a.clone()) }
}

fn to_cc(c: &CC) -> CountComparison {
    match c {
        CC::Eq(n) => CountComparison::Equal(*n), CC::Gt(n) => CountComparison::GreaterThan(*n),
        CC::Ge(n) => CountComparison::GreaterThanOrEqual(*n), CC::Lt(n) => CountComparison::LessThan(*n),
        CC::Le(n) => CountComparison::LessThanOrEqual(*n), CC::Ne(n) => CountComparison::NotEqual(*n),
    }
}

fn to_cmp(op: &str, v: &DbValue) -> Comparison {
    let v = v.clone();
    match op {
        "eq" => Comparison::Equal(v), "gt" => Comparison::GreaterThan(v), "ge" => Comparison::GreaterThanOrEqual(v),
        "lt" => Comparison::LessThan(v), "le" => Comparison::LessThanOrEqual(v), "ne" => Comparison::NotEqual(v),
        "contains" => Comparison::Contains(v), "startswith" => Comparison::StartsWith(v), _ => Comparison::EndsWith(v),
    }
}

fn to_cond(c: &Cond) -> QueryCondition {
    QueryCondition {
        logic: if c.and { QueryConditionLogic::And } else { QueryConditionLogic::Or },
        modifier: match c.modifier {
            "beyond" => QueryConditionModifier::Beyond, "not" => QueryConditionModifier::Not,
            "notbeyond" => QueryConditionModifier::NotBeyond, _ => QueryConditionModifier::None,
        },
        data: match &c.data {
            CondData::Distance(cc) => QueryConditionData::Distance(to_cc(cc)),
            CondData::Edge => QueryConditionData::Edge,
            CondData::EdgeCount(cc) => QueryConditionData::EdgeCount(to_cc(cc)),
            CondData::EdgeCountFrom(cc) => QueryConditionData::EdgeCountFrom(to_cc(cc)),
            CondData::EdgeCountTo(cc) => QueryConditionData::EdgeCountTo(to_cc(cc)),
            CondData::Ids(l) => QueryConditionData::Ids(l.iter().map(to_qid).collect()),
            CondData::KeyValue(k, op, v) => QueryConditionData::KeyValue(KeyValueComparison { key: k.clone(), value: to_cmp(op, v) }),
            CondData::Keys(l) => QueryConditionData::Keys(l.clone()),
            CondData::Node => QueryConditionData::Node,
            CondData::Where(l) => QueryConditionData::Where(l.iter().map(to_cond).collect()),
        },
    }
}

pub fn to_search(s: &Search) -> SearchQuery {
    SearchQuery {
        algorithm: match s.alg {
            'b' => SearchQueryAlgorithm::BreadthFirst, 'd' => SearchQueryAlgorithm::DepthFirst,
            'i' => SearchQueryAlgorithm::Index, _ => SearchQueryAlgorithm::Elements,
        },
        origin: to_qid(&s.origin),
        destination: to_qid(&s.dest),
        limit: s.limit,
        offset: s.offset,
        order_by: s.order.iter().map(|(a, k)| if *a { DbKeyOrder::Asc(k.clone()) } else { DbKeyOrder::Desc(k.clone()) }).collect(),
        conditions: s.conds.iter().map(to_cond).collect(),
    }
}

fn to_qids(q: &Qids) -> QueryIds {
    match q { Qids::Ids(l) => QueryIds::Ids(l.iter().map(to_qid).collect()), Qids::Search(s) => QueryIds::Search(to_search(s)) }
}

fn to_qvalues(v: &Qvalues) -> QueryValues {
    match v { Qvalues::Single(l) => QueryValues::Single(l.clone()), Qvalues::Multi(ll) => QueryValues::Multi(ll.clone()) }
}

// ---------------------------------------------------------------- execution
pub enum Exec<'a, 'b, S: StorageData> { Db(&'a mut DbImpl<S>), Txn(&'a mut TransactionMut<'b, S>) }

pub fn run_q_txn<S: StorageData>(t: &mut TransactionMut<S>, q: &Q) -> Result<QueryResult, DbError> {
    match q {
        Q::InsertNodes(c, v, a, i) => t.exec_mut(InsertNodesQuery { count: *c, values: to_qvalues(v), aliases: a.clone(), ids: to_qids(i) }),
        Q::InsertEdges(f, to, v, e, i) => t.exec_mut(InsertEdgesQuery { from: to_qids(f), to: to_qids(to), values: to_qvalues(v), each: *e, ids: to_qids(i) }),
        Q::InsertAliases(i, a) => t.exec_mut(InsertAliasesQuery { ids: to_qids(i), aliases: a.clone() }),
        Q::InsertValues(i, v) => t.exec_mut(InsertValuesQuery { ids: to_qids(i), values: to_qvalues(v) }),
        Q::InsertIndex(k) => t.exec_mut(InsertIndexQuery(k.clone())),
        Q::RemoveIndex(k) => t.exec_mut(RemoveIndexQuery(k.clone())),
        Q::Remove(i) => t.exec_mut(RemoveQuery(to_qids(i))),
        Q::RemoveAliases(a) => t.exec_mut(RemoveAliasesQuery(a.clone())),
        Q::RemoveValues(i, k) => t.exec_mut(RemoveValuesQuery(SelectValuesQuery { keys: k.clone(), ids: to_qids(i) })),
        Q::SelectValues(k, i) => t.exec(SelectValuesQuery { keys: k.clone(), ids: to_qids(i) }),
        Q::SelectKeys(i) => t.exec(SelectKeysQuery(to_qids(i))),
        Q::SelectKeyCount(i) => t.exec(SelectKeyCountQuery(to_qids(i))),
        Q::SelectAliases(i) => t.exec(SelectAliasesQuery(to_qids(i))),
        Q::SelectAllAliases => t.exec(SelectAllAliasesQuery {}),
        Q::SelectEdgeCount(i, f, to) => t.exec(SelectEdgeCountQuery { ids: to_qids(i), from: *f, to: *to }),
        Q::SelectIndexes => t.exec(SelectIndexesQuery {}),
        Q::SelectNodeCount => t.exec(SelectNodeCountQuery {}),
        Q::SearchQ(s) => t.exec(to_search(s)),
    }
}

// one query = one transaction (DbImpl::exec / exec_mut)
pub fn run_q<S: StorageData>(db: &mut DbImpl<S>, q: &Q) -> Result<QueryResult, DbError> {
    db.transaction_mut(|t| run_q_txn(t, q))
}

pub fn errkind(e: &DbError) -> &'static str {
    match e.ty {
        DbErrorType::DbCreate => "DbCreate", DbErrorType::InvalidIndex => "InvalidIndex", DbErrorType::NotAllowed => "NotAllowed",
        DbErrorType::NotEnoughData => "NotEnoughData", DbErrorType::NotFound => "NotFound", DbErrorType::OutOfBounds => "OutOfBounds",
        DbErrorType::TypeError => "TypeError",
    }
}

pub fn show_result(r: &Result<QueryResult, DbError>, sort_by_id: bool) -> String {
    match r {
        Ok(res) => {
            let mut els: Vec<&DbElement> = res.elements.iter().collect();
            if sort_by_id { els.sort_by_key(|e| e.id.0); }
            let mut s = format!("ok {:x}", res.result);
            for e in els {
                s.push_str(&format!(" (e {} {} {}{})", ihex(e.id.0), ihex(e.from.0), ihex(e.to.0), show_kvs(&e.values)));
            }
            s
        }
        Err(e) => format!("err {}", errkind(e)),
    }
}

pub fn ihex_pub(z: i64) -> String { ihex(z) }

// ---------------------------------------------------------------- immutable execution (C23)
// the select / search queries through a read transaction (`&DbImpl`); None for a mutating query
pub fn run_select_txn<S: StorageData>(t: &Transaction<S>, q: &Q) -> Option<Result<QueryResult, DbError>> {
    Some(match q {
        Q::SelectValues(k, i) => t.exec(SelectValuesQuery { keys: k.clone(), ids: to_qids(i) }),
        Q::SelectKeys(i) => t.exec(SelectKeysQuery(to_qids(i))),
        Q::SelectKeyCount(i) => t.exec(SelectKeyCountQuery(to_qids(i))),
        Q::SelectAliases(i) => t.exec(SelectAliasesQuery(to_qids(i))),
        Q::SelectAllAliases => t.exec(SelectAllAliasesQuery {}),
        Q::SelectEdgeCount(i, f, to) => t.exec(SelectEdgeCountQuery { ids: to_qids(i), from: *f, to: *to }),
        Q::SelectIndexes => t.exec(SelectIndexesQuery {}),
        Q::SelectNodeCount => t.exec(SelectNodeCountQuery {}),
        Q::SearchQ(s) => t.exec(to_search(s)),
        _ => return None,
    })
}

pub fn run_select<S: StorageData>(db: &DbImpl<S>, q: &Q) -> Option<Result<QueryResult, DbError>> {
    db.transaction(|t| -> Result<Option<Result<QueryResult, DbError>>, DbError> { Ok(run_select_txn(t, q)) }).unwrap()
}
