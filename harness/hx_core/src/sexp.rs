// text forms shared with the OCaml driver (extract/m_codec.ml)
use std::fmt::Write;

#[derive(Clone, Debug, PartialEq)]
pub enum Ty {
    U64, I64, F64, Usize, Bool, Str, Bytes, Time,
    Vec(Box<Ty>),
    Struct(Vec<Ty>),
    Enum(Vec<Vec<Ty>>),
}

#[derive(Clone, Debug, PartialEq)]
pub enum Val {
    U64(u64), I64(i64), F64(u64), Usize(u64), Bool(bool),
    Str(Vec<u8>), Bytes(Vec<u8>),
    Time(u64, u32, bool),
    Vec(Vec<Val>), Struct(Vec<Val>), Enum(u8, Vec<Val>),
}

pub fn hex(bs: &[u8]) -> String {
    let mut s = String::with_capacity(1 + 2 * bs.len());
    s.push('x');
    for b in bs { write!(s, "{:02x}", b).unwrap(); }
    s
}

pub fn unhex(s: &str) -> Vec<u8> {
    let s = s.strip_prefix('x').expect("bytes literal");
    (0..s.len() / 2).map(|i| u8::from_str_radix(&s[2 * i..2 * i + 2], 16).unwrap()).collect()
}

impl Ty {
    pub fn show(&self) -> String {
        match self {
            Ty::U64 => "u64".into(), Ty::I64 => "i64".into(), Ty::F64 => "f64".into(),
            Ty::Usize => "usize".into(), Ty::Bool => "bool".into(), Ty::Str => "str".into(),
            Ty::Bytes => "bytes".into(), Ty::Time => "time".into(),
            Ty::Vec(t) => format!("(vec {})", t.show()),
            Ty::Struct(fs) => {
                let mut s = String::from("(struct");
                for f in fs { s.push(' '); s.push_str(&f.show()); }
                s.push(')'); s
            }
            Ty::Enum(vs) => {
                let mut s = String::from("(enum");
                for v in vs {
                    s.push_str(" (");
                    s.push_str(&v.iter().map(|f| f.show()).collect::<Vec<_>>().join(" "));
                    s.push(')');
                }
                s.push(')'); s
            }
        }
    }
}

fn i64hex(z: i64) -> String {
    if z < 0 { format!("-{:x}", (z as i128).unsigned_abs()) } else { format!("{:x}", z) }
}

impl Val {
    pub fn show(&self) -> String {
        match self {
            Val::U64(n) => format!("(u64 {:x})", n),
            Val::I64(z) => format!("(i64 {})", i64hex(*z)),
            Val::F64(b) => format!("(f64 {:x})", b),
            Val::Usize(n) => format!("(usize {:x})", n),
            Val::Bool(b) => format!("(bool {})", if *b { 1 } else { 0 }),
            Val::Str(bs) => format!("(str {})", hex(bs)),
            Val::Bytes(bs) => format!("(bytes {})", hex(bs)),
            Val::Time(s, n, a) => format!("(time {:x} {:x} {})", s, n, if *a { 1 } else { 0 }),
            Val::Vec(l) => {
                let mut s = String::from("(vec");
                for v in l { s.push(' '); s.push_str(&v.show()); }
                s.push(')'); s
            }
            Val::Struct(l) => {
                let mut s = String::from("(struct");
                for v in l { s.push(' '); s.push_str(&v.show()); }
                s.push(')'); s
            }
            Val::Enum(t, l) => {
                let mut s = format!("(enum {}", t);
                for v in l { s.push(' '); s.push_str(&v.show()); }
                s.push(')'); s
            }
        }
    }
}
