// C20 / C21 harness: the real serialization code vs the Coq codec model
use crate::alloc;
use crate::corpus::Corpus;
use crate::gen_types::*;
use crate::rng::Rng;
use crate::sexp::hex;
use agdb::AgdbSerialize;
use agdb::{DbF64, DbId, DbKeyValue, DbValue};
use std::collections::BTreeMap;
use std::collections::HashSet;
use std::io::Write;
use std::time::SystemTime;

pub struct Ctx {
    pub rng: Rng,
    pub n: usize,
    pub cases: Vec<String>,   // lines for the OCaml driver
    pub imp: Vec<String>,     // implementation observations, same order
    pub oracle: Vec<String>,  // direct violations of the property on the implementation
    pub stats: BTreeMap<String, u64>,
    pub distinct: HashSet<u64>,
    pub nontrivial: u64,
    pub profile: char,
    pub start: usize,
    pub out: Option<std::fs::File>,
    pub samples: Vec<String>,
}

fn fnv(s: &str) -> u64 {
    let mut h = 0xcbf29ce484222325u64;
    for b in s.bytes() { h ^= b as u64; h = h.wrapping_mul(0x100000001b3); }
    h
}

fn bump(ctx: &mut Ctx, k: &str) {
    *ctx.stats.entry(k.to_string()).or_insert(0) += 1;
}

pub fn roundtrip<T: Corpus + AgdbSerialize>(name: &str, ctx: &mut Ctx) {
    let ty = T::ty();
    for i in 0..ctx.n {
        let v = T::generate(&mut ctx.rng, 0);
        let val = v.to_val();
        let vs = val.show();
        let bytes = v.serialize();
        let size = v.serialized_size();
        let mut input = bytes.clone();
        let extra = ctx.rng.below(4) as usize;
        for _ in 0..extra { input.push(ctx.rng.next() as u8); }
        let d = std::panic::catch_unwind(|| T::deserialize(&input));
        // model cases
        ctx.cases.push(format!("codec wf {} {}", ty.show(), vs));
        ctx.imp.push("1".into());
        ctx.cases.push(format!("codec enc {}", vs));
        ctx.imp.push(format!("{} {:x}", hex(&bytes), size));
        ctx.cases.push(format!("codec dec {} f {} {}", ctx.profile, ty.show(), hex(&input)));
        let line = match &d {
            Ok(Ok(x)) => format!("ok {} {:x}", x.to_val().show(), x.serialized_size()),
            Ok(Err(_)) => "err".to_string(),
            Err(_) => "panic".to_string(),
        };
        ctx.imp.push(line);
        // the property itself, on the implementation
        if size != bytes.len() as u64 {
            ctx.oracle.push(format!("size-mismatch type={} value={} reported={} produced={}", name, vs, size, bytes.len()));
        }
        match &d {
            Ok(Ok(x)) => {
                if x.to_val() != val {
                    ctx.oracle.push(format!("roundtrip-mismatch type={} value={} got={}", name, vs, x.to_val().show()));
                }
            }
            Ok(Err(e)) => ctx.oracle.push(format!("roundtrip-error type={} value={} err={:?}", name, vs, e.description)),
            Err(_) => ctx.oracle.push(format!("roundtrip-panic type={} value={}", name, vs)),
        }
        bump(ctx, &format!("type:{}", name));
        bump(ctx, &format!("size:{}", match bytes.len() { 0 => "0", 1..=8 => "1-8", 9..=32 => "9-32", 33..=128 => "33-128", _ => ">128" }));
        if ctx.distinct.insert(fnv(&format!("{}|{}", name, vs))) && bytes.len() > 8 {
            ctx.nontrivial += 1;
        }
        if i == 0 && ctx.samples.len() < 6 {
            ctx.samples.push(format!("{}: {} -> {}", name, vs, hex(&bytes)));
        }
    }
}

fn mutate(r: &mut Rng, valid: &[u8]) -> Vec<u8> {
    let mut b = valid.to_vec();
    match r.below(10) {
        0 => { let k = r.below(b.len() as u64 + 1) as usize; b.truncate(k); }
        1 | 2 | 3 => {
            // overwrite 8 bytes at a random offset with a boundary length
            let bounds = [0u64, 1, 2, 0xff, 1 << 16, 1 << 32, 1 << 40, 1 << 60, 1 << 61, (1 << 61) + 1, 1 << 62, 1 << 63,
                          u64::MAX, u64::MAX - 7, u64::MAX - 8, u64::MAX - 15, b.len() as u64, b.len() as u64 + 1, i64::MAX as u64];
            let v = *r.pick(&bounds);
            if b.len() >= 8 {
                let off = if r.chance(1, 2) { 0 } else { r.below(b.len() as u64 - 7) as usize };
                b[off..off + 8].copy_from_slice(&v.to_le_bytes());
            } else {
                b = v.to_le_bytes().to_vec();
            }
            if r.chance(1, 3) { let k = r.below(b.len() as u64 + 1) as usize; b.truncate(k); }
        }
        4 => { if !b.is_empty() { let k = r.below(b.len() as u64) as usize; b[k] ^= 1 << r.below(8); } }
        5 => { if !b.is_empty() { let k = r.below(b.len() as u64) as usize; b[k] = r.next() as u8; } }
        6 => { let n = r.below(40) as usize; b = (0..n).map(|_| r.next() as u8).collect(); }
        7 => { let n = r.below(6) as usize; for _ in 0..n { b.push(r.next() as u8); } }
        8 => {
            // all-ones / time-like extremes
            let n = r.range(8, 24) as usize; b = vec![0xff; n];
        }
        _ => {}
    }
    b
}

pub fn decode<T: Corpus + AgdbSerialize>(name: &str, ctx: &mut Ctx) {
    let ty = T::ty();
    for _ in 0..ctx.n {
        let v = T::generate(&mut ctx.rng, 0);
        let valid = v.serialize();
        let input = mutate(&mut ctx.rng, &valid);
        let idx = ctx.cases.len();
        ctx.cases.push(format!("codec dec {} f {} {}", ctx.profile, ty.show(), hex(&input)));
        if idx < ctx.start { ctx.imp.push(String::new()); continue; }
        alloc::reset();
        let d = std::panic::catch_unwind(|| T::deserialize(&input));
        let req = alloc::max_req();
        let line = if req > 4096 + 1024 * input.len() {
            format!("alloc")
        } else {
            match &d {
                Ok(Ok(x)) => format!("ok {} {:x}", x.to_val().show(), x.serialized_size()),
                Ok(Err(_)) => "err".to_string(),
                Err(_) => "panic".to_string(),
            }
        };
        let class = line.split(' ').next().unwrap().to_string();
        if class == "panic" || class == "alloc" {
            ctx.oracle.push(format!("decode-{} type={} profile={} input={} max_alloc_request={}", class, name, ctx.profile, hex(&input), req));
        }
        bump(ctx, &format!("class:{}", class));
        bump(ctx, &format!("type:{}", name));
        if ctx.distinct.insert(fnv(&format!("{}|{}", name, hex(&input)))) && input != valid {
            ctx.nontrivial += 1;
        }
        if ctx.samples.len() < 6 && ctx.rng.chance(1, 50) {
            ctx.samples.push(format!("{}: {} -> {}", name, hex(&input), class));
        }
        if let Some(f) = ctx.out.as_mut() {
            writeln!(f, "{}", line).unwrap();
            f.flush().unwrap();
        }
        ctx.imp.push(line);
    }
}

pub fn run_roundtrip(ctx: &mut Ctx) {
    crate::for_each_instance!(roundtrip, ctx);
}
pub fn run_decode(ctx: &mut Ctx) {
    crate::for_each_instance!(decode, ctx);
}
