// watch.rs — per-step watchdog of the `db` sub-command (C19: every query returns in bounded time).
// `start(ms, path)` spawns a monitor thread; the runner brackets every step with `begin` / `end`.
// If one step is still running after `ms` milliseconds the monitor writes the oracle line
//   timeout step=<query> ms=<limit> history=[...]
// to `path` (flushed), and exits the whole process with code 3 (the hanging query cannot be interrupted).
use std::io::Write;
use std::sync::Mutex;
use std::time::{Duration, Instant};

struct W {
    started: Option<Instant>,
    step: String,
    log: Vec<String>,
}

static WATCH: Mutex<W> = Mutex::new(W { started: None, step: String::new(), log: Vec::new() });
static ENABLED: std::sync::atomic::AtomicBool = std::sync::atomic::AtomicBool::new(false);

fn on() -> bool { ENABLED.load(std::sync::atomic::Ordering::Relaxed) }

pub fn start(ms: u64, oracle_path: String) {
    if ms == 0 { return; }
    ENABLED.store(true, std::sync::atomic::Ordering::Relaxed);
    std::thread::spawn(move || {
        let limit = Duration::from_millis(ms);
        loop {
            std::thread::sleep(Duration::from_millis((ms / 8).clamp(5, 100)));
            let w = WATCH.lock().unwrap();
            if let Some(t) = w.started {
                if t.elapsed() > limit {
                    let line = format!("timeout step={} ms={} history=[{}]", w.step, ms, w.log.join(" ;; "));
                    if let Ok(mut f) = std::fs::File::create(&oracle_path) {
                        let _ = writeln!(f, "{}", line);
                        let _ = f.flush();
                        let _ = f.sync_all();
                    }
                    eprintln!("watchdog: step exceeded {} ms: {}", ms, w.step);
                    std::process::exit(3);
                }
            }
        }
    });
}

pub fn new_history() {
    if !on() { return; }
    let mut w = WATCH.lock().unwrap();
    w.started = None;
    w.log.clear();
}

// a step of the history starts (it is appended to the history the timeout line reports)
pub fn begin(step: &str) {
    if !on() { return; }
    let mut w = WATCH.lock().unwrap();
    w.step = step.to_string();
    w.log.push(step.to_string());
    w.started = Some(Instant::now());
}

// an auxiliary read of the harness itself (live ids, full dump) starts: timed, not part of the history
pub fn begin_aux(what: &str) {
    if !on() { return; }
    let mut w = WATCH.lock().unwrap();
    w.step = what.to_string();
    w.started = Some(Instant::now());
}

pub fn end() {
    if !on() { return; }
    WATCH.lock().unwrap().started = None;
}
