// opsrun.rs — C05 (database level, L3, correspondence (d)): the core mutations as STORAGE PROGRAMS
// (coq/theories/StoredDbOps.v: so_open, so_q_insert_node, so_q_insert_values, so_q_insert_edge) against the record
// bytes the real code writes.
//
// For every generated history: mutating queries and transactions run through the public Db API on a DbFile (removals
// included, so that the graph's free list is sometimes non-empty; optimize_storage / shrink_to_fit / drop+reopen at
// random points; NO index is created on a key the case uses: the only index some histories create is on the key "zz",
// which no generated key equals), then the database is dropped.  Then up to three CASES, chained on the same file:
//   PRE   = the bytes of the closed file (the whole file image, hex) and its raw records (index -> bytes of every live
//           record, read through agdb::verif::VStorage<FileStorage> only);
//   the file is reopened as a real database (DbFile::new: every handle rebuilt by from_storage) and ONE mutation runs
//   through the public API (QueryBuilder):
//       node    insert().nodes().values([l])          (count 1, no alias)
//       values  insert().values([l]).ids(id)          (id = an existing node or edge)
//       edge    insert().edges().from(f).to(t)        (existing nodes, no values; 1 in 10 with an endpoint that is not a node:
//                                                      the query fails = the model's None, no record may change)
//       remove  remove().ids(id)                      (id = an existing EDGE, or an existing NODE without outgoing / incoming edges
//                                                      and without alias; with or without properties)
//   the database is dropped;
//   POST  = the raw records of the file, read through VStorage<FileStorage> only.
// Case line for the extracted model (extract/m_ops.ml):   ops run <op> x<file image>
// Implementation line (same format as the model's answer): pre=[i:bytes ...] ret=<id z | u | err kind> post=[i:bytes ...]
// checks/c05.py compares the two lines EXACTLY (every record index, every byte, the returned id).
use crate::dbgen::*;
use crate::dbq::*;
use crate::dbrun::{exec_step, refresh_live, show_step, Step};
use crate::rng::Rng;
use crate::sexp::hex;
use agdb::verif::VStorage;
use agdb::{DbFile, DbId, DbKeyValue, DbValue, FileStorage, QueryBuilder};
use std::collections::BTreeMap;

pub struct Out {
    pub cases: Vec<String>,
    pub imp: Vec<String>,
    pub oracle: Vec<String>,
    pub hist: Vec<String>,
    pub stats: BTreeMap<String, u64>,
    pub samples: Vec<String>,
    pub nontrivial: u64,
    pub histories: u64,
    pub records: u64,
    pub file_bytes: u64,
}

impl Out {
    pub fn new() -> Self {
        Out { cases: vec![], imp: vec![], oracle: vec![], hist: vec![], stats: BTreeMap::new(), samples: vec![], nontrivial: 0, histories: 0, records: 0, file_bytes: 0 }
    }
    fn bump(&mut self, k: &str) { self.add(k, 1); }
    fn add(&mut self, k: &str, n: u64) { *self.stats.entry(k.to_string()).or_insert(0) += n; }
}

// every live record of the file, read with the storage layer only
fn raw_records(path: &str, hwm: u64) -> Result<Vec<(u64, Vec<u8>)>, String> {
    let st = VStorage::<FileStorage>::new(path).map_err(|e| format!("storage open: {}", e.description))?;
    let bound = std::cmp::max(hwm, st.len()) / 16 + 16;
    let mut recs = vec![];
    for i in 1..=bound {
        if let Ok(b) = st.value_as_bytes(i) { recs.push((i, b)); }
    }
    Ok(recs)
}

fn show_recs(recs: &[(u64, Vec<u8>)]) -> String {
    format!("[{}]", recs.iter().map(|(i, b)| format!("{:x}:{}", i, hex(b))).collect::<Vec<_>>().join(" "))
}

fn rec<'a>(recs: &'a [(u64, Vec<u8>)], i: u64) -> Option<&'a Vec<u8>> {
    recs.iter().find(|(k, _)| *k == i).map(|(_, b)| b)
}
fn u64_at(b: &[u8], off: usize) -> Option<u64> {
    b.get(off..off + 8).map(|s| u64::from_le_bytes(s.try_into().unwrap()))
}
// the head of the graph's free list as stored: root record 1 -> graph index record -> from_meta vector, slot 0
// (i64::MIN = empty: the next element takes a NEW slot, all four arrays grow; otherwise the slot is popped)
fn free_list_head(recs: &[(u64, Vec<u8>)]) -> Option<i64> {
    let root = rec(recs, 1)?;
    let g = rec(recs, u64_at(root, 8)?)?;
    let fm = rec(recs, u64_at(g, 16)?)?;
    u64_at(fm, 8).map(|x| x as i64)
}

fn ihex(z: i64) -> String { ihex_pub(z) }

// slot `i` of the graph's `from` (field_off 0) / `to` (field_off 8) array as stored: for a node the index of the newest
// (= first in the list) outgoing / incoming edge
fn graph_slot(recs: &[(u64, Vec<u8>)], field_off: usize, i: i64) -> Option<i64> {
    let root = rec(recs, 1)?;
    let g = rec(recs, u64_at(root, 8)?)?;
    let v = rec(recs, u64_at(g, field_off)?)?;
    u64_at(v, 8 + 8 * i.unsigned_abs() as usize).map(|x| x as i64)
}

// a value stored out of line: more than 15 payload bytes (estimated from the serialised form: 8-byte length prefixes)
fn out_of_line(v: &DbValue) -> bool {
    match v {
        DbValue::String(s) => s.len() > 15,
        DbValue::Bytes(b) => b.len() > 15,
        DbValue::VecI64(l) => !l.is_empty(),
        DbValue::VecU64(l) => !l.is_empty(),
        DbValue::VecF64(l) => !l.is_empty(),
        DbValue::VecString(l) => !l.is_empty(),
        _ => false,
    }
}

fn gen_value(r: &mut Rng) -> DbValue {
    match r.below(10) {
        0 | 1 => DbValue::String(format!("a string that is stored out of line #{}", r.below(1000))),
        2 => DbValue::String("x".repeat(r.range(14, 18) as usize)), // around the inline limit of 15 bytes
        3 => DbValue::VecI64((0..r.range(1, 5)).map(|_| r.below(100) as i64 - 50).collect()),
        4 => DbValue::VecString((0..r.range(1, 3)).map(|_| format!("s{}", r.below(50))).collect()),
        5 => DbValue::Bytes((0..r.range(0, 40)).map(|_| r.below(256) as u8).collect()),
        _ => gen_small_value(r),
    }
}

// key-value list; keys mostly distinct, taken from `existing` (the replace branch) with probability `reuse`/4
fn gen_case_kvs(r: &mut Rng, max: u64, existing: &[DbValue], reuse: u64) -> Vec<DbKeyValue> {
    let n = r.below(max + 1);
    let mut out: Vec<DbKeyValue> = vec![];
    for _ in 0..n {
        let k = if !existing.is_empty() && r.below(4) < reuse { r.pick(existing).clone() } else { gen_key(r) };
        if !out.iter().any(|x| x.key == k) || r.chance(1, 10) {
            out.push(DbKeyValue { key: k, value: gen_value(r) });
        }
    }
    out
}

fn show_kvl(l: &[DbKeyValue]) -> String { l.iter().map(|kv| format!(" {}", show_kv(kv))).collect::<String>() }

fn stored_open_error(o: &mut Out, at: &str, e: &str, log: &[String]) {
    o.oracle.push(format!("stored-open-error at={} error={} history=[{}]", at, e, log.join(" ;; ")));
}

// one case on the closed file; false = stop the chain
fn one_case(rng: &mut Rng, path: &str, hwm: &mut u64, log: &mut Vec<String>, has_index: bool, o: &mut Out) -> bool {
    let image = match std::fs::read(path) { Ok(b) => b, Err(e) => { stored_open_error(o, "read-file", &e.to_string(), log); return false; } };
    let pre = match raw_records(path, *hwm) { Ok(x) => x, Err(e) => { stored_open_error(o, "pre", &e, log); return false; } };
    let free = free_list_head(&pre);
    let mut db = match DbFile::new(path) { Ok(d) => d, Err(e) => { stored_open_error(o, "reopen", &e.description, log); return false; } };
    let live = refresh_live(&db);
    let mut elems: Vec<i64> = live.nodes.clone();
    elems.extend(live.edges.iter());
    let mut kind = rng.below(15);   // 0-3 node, 4-7 values, 8-9 edge, 10-14 remove
    let props = |db: &DbFile, id: i64| -> Vec<DbKeyValue> {
        db.exec(QueryBuilder::select().ids(DbId(id)).query()).ok().and_then(|r| r.elements.first().map(|e| e.values.clone())).unwrap_or_default()
    };
    // (id, from, to) of every edge, through the public API
    let edge_ends: Vec<(i64, i64, i64)> = live.edges.iter().filter_map(|e| {
        db.exec(QueryBuilder::select().ids(DbId(*e)).query()).ok().and_then(|r| r.elements.first().map(|x| (*e, x.from.0, x.to.0)))
    }).collect();
    let mut remove_target: Option<i64> = None;
    if kind >= 10 {
        // a node without edges and without alias (1 time in 3 when there is one), else an edge
        let aliased: Vec<i64> = live.aliases.iter().filter_map(|a| {
            db.exec(QueryBuilder::select().ids(agdb::QueryId::Alias(a.clone())).query()).ok().and_then(|r| r.elements.first().map(|e| e.id.0))
        }).collect();
        let lonely: Vec<i64> = live.nodes.iter().copied().filter(|n| !aliased.contains(n) && !edge_ends.iter().any(|(_, f, t)| f == n || t == n)).collect();
        if !lonely.is_empty() && (live.edges.is_empty() || rng.chance(1, 4)) { remove_target = Some(*rng.pick(&lonely)); }
        else if !live.edges.is_empty() { remove_target = Some(*rng.pick(&live.edges)); }
        else { kind = rng.below(10); }
    }
    if (8..10).contains(&kind) && live.nodes.is_empty() { kind = 0; }
    if (4..8).contains(&kind) && elems.is_empty() { kind = 0; }
    let pop = free.map(|f| f != i64::MIN).unwrap_or(false);
    let (op, ret, ool, nontrivial): (String, String, u64, bool);
    if let Some(id) = remove_target {
        let old = props(&db, id);
        ool = 0;
        let freed = old.iter().filter(|kv| out_of_line(&kv.value)).count() as u64 + old.iter().filter(|kv| out_of_line(&kv.key)).count() as u64;
        op = format!("(remove {})", ihex(id));
        // position of an edge in the lists it is unlinked from: the newest edge of a node is the HEAD of the node's list
        // (no walk to a predecessor), an older one is found by the while-loop of remove_from_edge / remove_to_edge
        if id < 0 {
            if let Some((_, f, t)) = edge_ends.iter().find(|(e, _, _)| *e == id) {
                let (ho, hi) = (graph_slot(&pre, 0, *f), graph_slot(&pre, 8, *t));
                o.bump(if ho == Some(-id) { "remove:edge:HEAD-of-the-source's-out-list" } else { "remove:edge:NOT-head-of-the-source's-out-list(walk)" });
                o.bump(if hi == Some(-id) { "remove:edge:HEAD-of-the-target's-in-list" } else { "remove:edge:NOT-head-of-the-target's-in-list(walk)" });
                let out_of_f: Vec<i64> = edge_ends.iter().filter(|(_, ff, _)| ff == f).map(|(e, _, _)| *e).collect();
                let in_of_t: Vec<i64> = edge_ends.iter().filter(|(_, _, tt)| tt == t).map(|(e, _, _)| *e).collect();
                o.bump(&format!("remove:edge:out-list-of-source-has-{}", if out_of_f.len() >= 4 { "4+".to_string() } else { out_of_f.len().to_string() }));
                o.bump(&format!("remove:edge:in-list-of-target-has-{}", if in_of_t.len() >= 4 { "4+".to_string() } else { in_of_t.len().to_string() }));
                o.add("remove:edge:other-edges-in-its-two-lists", (out_of_f.len() + in_of_t.len() - 2) as u64);
                if f == t { o.bump("remove:edge:self-loop"); }
            }
        }
        let r = db.exec_mut(QueryBuilder::remove().ids(DbId(id)).query());
        ret = match &r { Ok(_) => "u".to_string(), Err(e) => format!("err {}", errkind(e)) };
        o.bump("kind:remove");
        o.bump(if id < 0 { "remove:target=edge" } else { "remove:target=node-without-edges-and-alias" });
        o.bump(if old.is_empty() { "remove:element-without-properties" } else { "remove:element-with-properties" });
        o.add("remove:out-of-line keys/values freed (estimated)", freed);
        nontrivial = true;
    } else if kind < 4 {
        let l = gen_case_kvs(rng, 4, &[], 0);
        ool = l.iter().filter(|kv| out_of_line(&kv.value)).count() as u64 + l.iter().filter(|kv| out_of_line(&kv.key)).count() as u64;
        op = format!("(node{})", show_kvl(&l));
        let r = db.exec_mut(QueryBuilder::insert().nodes().values(vec![l.clone()]).query());
        ret = match &r { Ok(res) => format!("id {}", res.elements.first().map(|e| ihex(e.id.0)).unwrap_or("?".into())), Err(e) => format!("err {}", errkind(e)) };
        o.bump("kind:insert_node");
        o.bump(if pop { "insert_node:free-list-pop" } else { "insert_node:new-slot(grow)" });
        o.bump(&format!("insert_node:kvs={}", l.len()));
        nontrivial = pop || ool > 0;
    } else if kind < 8 {
        // the target: any element, sometimes the highest id, sometimes one without properties
        let mut id = if !live.edges.is_empty() && rng.chance(1, 3) { *rng.pick(&live.edges) } else { *rng.pick(&elems) };
        match rng.below(6) {
            0 => { id = *elems.iter().max_by_key(|x| x.unsigned_abs()).unwrap(); o.bump("insert_values:target=highest-index"); }
            1 => { if let Some(e) = elems.iter().find(|e| props(&db, **e).is_empty()) { id = *e; } }
            _ => {}
        }
        let old = props(&db, id);
        let keys: Vec<DbValue> = old.iter().map(|kv| kv.key.clone()).collect();
        let reuse = rng.below(4);
        let l = gen_case_kvs(rng, 4, &keys, reuse);
        ool = l.iter().filter(|kv| out_of_line(&kv.value)).count() as u64 + l.iter().filter(|kv| out_of_line(&kv.key)).count() as u64;
        let replaced = l.iter().filter(|kv| keys.contains(&kv.key)).count() as u64;
        let replaced_ool = l.iter().filter(|kv| old.iter().any(|x| x.key == kv.key && out_of_line(&x.value))).count() as u64;
        op = format!("(values {}{})", ihex(id), show_kvl(&l));
        let r = db.exec_mut(QueryBuilder::insert().values(vec![l.clone()]).ids(DbId(id)).query());
        ret = match &r { Ok(_) => "u".to_string(), Err(e) => format!("err {}", errkind(e)) };
        o.bump("kind:insert_values");
        o.bump(if id > 0 { "insert_values:target=node" } else { "insert_values:target=edge" });
        if old.is_empty() { o.bump("insert_values:element-without-properties"); }
        o.add("insert_values:pairs-replaced(replace branch)", replaced);
        o.add("insert_values:pairs-appended(push branch)", l.len() as u64 - replaced);
        o.add("insert_values:replaced-an-out-of-line-value", replaced_ool);
        if replaced > 0 { o.bump("insert_values:cases-with-a-replace"); }
        o.bump(&format!("insert_values:kvs={}", l.len()));
        nontrivial = replaced > 0 || ool > 0;
    } else {
        let mut f = *rng.pick(&live.nodes);
        let mut t = if rng.chance(1, 8) { f } else { *rng.pick(&live.nodes) };
        if t == f && live.nodes.len() > 1 && !rng.chance(1, 8) { while t == f { t = *rng.pick(&live.nodes); } }
        // 1 case in 10: an endpoint that is NOT a node (a slot beyond the capacity, a removed slot or the slot of an edge):
        // the model's validate_node answers None and writes nothing, the query must fail and leave every record as it was
        let invalid = rng.chance(1, 10);
        if invalid {
            let top = elems.iter().map(|x| x.unsigned_abs() as i64).max().unwrap_or(0);
            let mut cands: Vec<i64> = vec![top + 1, top + 1 + rng.below(5) as i64];
            cands.extend(live.edges.iter().map(|e| -e));
            cands.extend((1..=top).filter(|i| !elems.iter().any(|x| x.unsigned_abs() as i64 == *i)));
            let bad = *rng.pick(&cands);
            if rng.chance(1, 2) { f = bad; } else { t = bad; }
        }
        ool = 0;
        op = format!("(edge {} {})", ihex(f), ihex(t));
        let r = db.exec_mut(QueryBuilder::insert().edges().from(DbId(f)).to(DbId(t)).query());
        ret = match &r {
            Ok(res) => format!("id {}", res.elements.first().map(|e| ihex(e.id.0)).unwrap_or("?".into())),
            // the model's `None` (a validate_node failed): the kind of the error is counted, not compared
            Err(e) => { o.bump(&format!("insert_edge:rejected({})", errkind(e))); "none".to_string() }
        };
        o.bump("kind:insert_edge");
        if invalid { o.bump("insert_edge:endpoint-not-a-node"); }
        else { o.bump(if pop { "insert_edge:free-list-pop" } else { "insert_edge:new-slot(grow)" }); }
        if f == t { o.bump("insert_edge:self-loop"); }
        nontrivial = true;
    }
    *hwm = std::cmp::max(*hwm, db.size());
    drop(db);
    let post = match raw_records(path, *hwm) { Ok(x) => x, Err(e) => { stored_open_error(o, "post", &e, log); return false; } };
    o.add("out-of-line keys/values written (estimated)", ool);
    if has_index { o.bump("case:database-has-an-index(on an unused key)"); }
    if pre.len() != post.len() { o.bump("case:record-count-changed"); }
    o.records += post.len() as u64;
    o.file_bytes += image.len() as u64;
    if nontrivial { o.nontrivial += 1; }
    o.cases.push(format!("ops run {} {}", op, hex(&image)));
    o.imp.push(format!("pre={} ret={} post={}", show_recs(&pre), ret, show_recs(&post)));
    o.hist.push(format!("{} after [{}]", op, log.join(" ;; ")));
    if o.samples.len() < 4 && nontrivial && image.len() < 3000 { o.samples.push(format!("{} -> {} ({} -> {} records) after [{}]", op, ret, pre.len(), post.len(), log.join(" ;; "))); }
    log.push(format!("ops {}", op));
    true
}

pub fn run_history(rng: &mut Rng, dir: &str, hist: usize, steps: usize, o: &mut Out) {
    o.histories += 1;
    let path = format!("{}/o{}.agdb", dir, hist);
    let _ = std::fs::remove_file(&path);
    let _ = std::fs::remove_file(format!("{}/.o{}.agdb", dir, hist));
    // profiles without index queries
    let profiles = [Profile::Graph, Profile::Kv, Profile::Alias, Profile::Graph, Profile::Kv];
    let p = profiles[hist % profiles.len()];
    let mut db = match DbFile::new(&path) { Ok(d) => d, Err(e) => { o.oracle.push(format!("stored-open-error at=create error={}", e.description)); return; } };
    let mut hwm = db.size();
    let mut log: Vec<String> = vec![];
    // 0 steps: the mutation runs on a freshly created database
    let n_steps = if rng.chance(1, 12) { 0 } else { 3 + rng.below(steps as u64) as usize };
    let has_index = hist % 4 == 3;
    for si in 0..n_steps {
        let live = refresh_live(&db);
        let step = if si == 0 && has_index {
            Step::Exec(Q::InsertIndex(DbValue::String("zz".into())))
        } else if rng.chance(1, 8) {
            let k = rng.range(1, 5) as usize;
            let qs: Vec<Q> = (0..k).map(|_| gen_mut(rng, &live, p)).collect();
            Step::Txn(rng.chance(1, 4), qs)
        } else if rng.chance(1, 5) && !(live.nodes.is_empty() && live.edges.is_empty()) {
            // extra removals: the free list of the graph must be non-empty in a good share of the cases
            let mut all = live.nodes.clone(); all.extend(live.edges.iter());
            Step::Exec(Q::Remove(Qids::Ids(vec![Qid::Id(*rng.pick(&all))])))
        } else {
            Step::Exec(gen_mut(rng, &live, p))
        };
        let line = show_step(&step);
        let res = exec_step(&mut db, &step);
        log.push(line.clone());
        if res == "panic" || res.ends_with("panic") {
            o.oracle.push(format!("panic step={} history=[{}]", line, log.join(" ;; ")));
            return;
        }
        hwm = std::cmp::max(hwm, db.size());
        if rng.chance(1, 14) {
            match rng.below(3) {
                0 => { log.push("optimize_storage".into()); if let Err(e) = db.optimize_storage() { o.oracle.push(format!("maintenance-error op=optimize error={}", e.description)); } o.bump("maint:optimize"); }
                1 => { log.push("shrink_to_fit".into()); if let Err(e) = db.shrink_to_fit() { o.oracle.push(format!("maintenance-error op=shrink error={}", e.description)); } o.bump("maint:shrink_to_fit"); }
                _ => {
                    log.push("reopen".into());
                    drop(db);
                    db = match DbFile::new(&path) { Ok(d) => d, Err(e) => { stored_open_error(o, "reopen", &e.description, &log); return; } };
                    o.bump("maint:reopen");
                }
            }
            hwm = std::cmp::max(hwm, db.size());
        }
    }
    let has_index = has_index && n_steps > 0;
    // one history in two ends with a fan of edges (every chosen source to every chosen target), so that nodes have SEVERAL
    // outgoing / incoming edges and a removed edge is often not the head of its lists
    let live = refresh_live(&db);
    if live.nodes.len() >= 2 && rng.chance(1, 2) {
        let from: Vec<Qid> = (0..rng.range(1, 3)).map(|_| Qid::Id(*rng.pick(&live.nodes))).collect();
        let to: Vec<Qid> = (0..rng.range(2, 3)).map(|_| Qid::Id(*rng.pick(&live.nodes))).collect();
        let vals = if rng.chance(1, 2) { Qvalues::Single(gen_kvs(rng, 2)) } else { Qvalues::Single(vec![]) };
        let step = Step::Exec(Q::InsertEdges(Qids::Ids(from), Qids::Ids(to), vals, true, Qids::Ids(vec![])));
        log.push(show_step(&step));
        let _ = exec_step(&mut db, &step);
        hwm = std::cmp::max(hwm, db.size());
        o.bump("history:ends-with-a-fan-of-edges");
    }
    drop(db);
    let k = rng.range(1, 3);
    for _ in 0..k {
        if !one_case(rng, &path, &mut hwm, &mut log, has_index, o) { break; }
    }
    let _ = std::fs::remove_file(&path);
    let _ = std::fs::remove_file(format!("{}/.o{}.agdb", dir, hist));
}
