// failrun.rs — C32: a public StorageData wrapper fails the k-th write/resize call of a chosen
// query; the history is re-run once per k.  Oracle: the failing query reports an error and has no
// observable effect, the database stays usable, later successful mutations survive close + reopen,
// and the reopened file is readable.
use crate::dbdump::*;
use crate::dbgen::*;
use crate::dbq::Q;
use crate::dbrun::{exec_step, refresh_live, show_step, Step};
use crate::rng::Rng;
use agdb::*;
use std::collections::BTreeMap;
use std::sync::atomic::{AtomicI64, AtomicU64, Ordering};

static CALLS: AtomicU64 = AtomicU64::new(0);     // write/resize calls seen since arming
static FAIL_AT: AtomicI64 = AtomicI64::new(-1);  // fail when CALLS == FAIL_AT (once)

pub struct Failing<D: StorageData>(D);

fn maybe_fail() -> Result<(), DbError> {
    let c = CALLS.fetch_add(1, Ordering::SeqCst) as i64;
    if c == FAIL_AT.load(Ordering::SeqCst) {
        FAIL_AT.store(-1, Ordering::SeqCst);
        return Err(DbError::storage(DbErrorType::OutOfBounds, "injected: no space left on device"));
    }
    Ok(())
}

impl<D: StorageData> StorageData for Failing<D> {
    fn backup(&self, name: &str) -> Result<(), DbError> { self.0.backup(name) }
    fn copy(&self, name: &str) -> Result<Self, DbError> { Ok(Failing(self.0.copy(name)?)) }
    fn flush(&mut self) -> Result<(), DbError> { self.0.flush() }
    fn len(&self) -> u64 { self.0.len() }
    fn name(&self) -> &str { self.0.name() }
    fn new(name: &str) -> Result<Self, DbError> { Ok(Failing(D::new(name)?)) }
    fn read(&'_ self, pos: u64, value_len: u64) -> Result<StorageSlice<'_>, DbError> { self.0.read(pos, value_len) }
    fn rename(&mut self, new_name: &str) -> Result<(), DbError> { self.0.rename(new_name) }
    fn resize(&mut self, new_len: u64) -> Result<(), DbError> { maybe_fail()?; self.0.resize(new_len) }
    fn write(&mut self, pos: u64, bytes: &[u8]) -> Result<(), DbError> { maybe_fail()?; self.0.write(pos, bytes) }
}

// ---- watchdog: a run (one injected failure + the later queries + reopen) that does not return ----
// After an injected failure the in-memory tables can be inconsistent (known finding of C32); a later query may then
// loop forever (e.g. GraphImpl::remove_to_edge on a cyclic sibling list).  The hanging query cannot be interrupted:
// the monitor appends `fail-later-hang <run description>` to oracle_live.txt and exits the process with code 3;
// the driver (checks/c32.py) restarts the harness after the current history.
static RUN_WATCH: std::sync::Mutex<Option<(std::time::Instant, String)>> = std::sync::Mutex::new(None);

pub fn start_watchdog(live_path: String, ms: u64) {
    std::thread::spawn(move || loop {
        std::thread::sleep(std::time::Duration::from_millis(200));
        let w = RUN_WATCH.lock().unwrap();
        if let Some((t, desc)) = w.as_ref() {
            if t.elapsed() > std::time::Duration::from_millis(ms) {
                use std::io::Write;
                if let Ok(mut f) = std::fs::OpenOptions::new().create(true).append(true).open(&live_path) {
                    let _ = writeln!(f, "fail-later-hang (a query after the injected failure did not return within {} ms) {}", ms, desc);
                    let _ = f.flush();
                }
                std::process::exit(3);
            }
        }
    });
}

pub struct Out { pub live: Option<std::fs::File>, pub oracle: Vec<String>, pub stats: BTreeMap<String, u64>, pub samples: Vec<String>, pub nontrivial: u64, pub runs: u64 }
impl Out {
    pub fn fail(&mut self, l: String) {
        use std::io::Write;
        if let Some(f) = self.live.as_mut() { let _ = writeln!(f, "{}", l); let _ = f.flush(); }
        self.oracle.push(l);
    }
}
fn bump(o: &mut Out, k: &str) { *o.stats.entry(k.to_string()).or_insert(0) += 1; }

fn wal_of(path: &str) -> String { match path.rfind('/') { Some(i) => format!("{}/.{}", &path[..i], &path[i + 1..]), None => format!(".{}", path) } }

// runs `steps` on a fresh file database; the `target`-th step runs with failure injected at call `k`
// (k = None: no failure).  Returns the number of storage calls the target step made when not failing.
fn run_once(path: &str, steps: &[Step], target: usize, k: Option<u64>, mapped: bool, out: &mut Out, desc: &str) -> u64 {
    let _ = std::fs::remove_file(path);
    let _ = std::fs::remove_file(wal_of(path));
    FAIL_AT.store(-1, Ordering::SeqCst);
    {
        use std::io::Write;
        if let Some(f) = out.live.as_mut() { let _ = writeln!(f, "#RUN k={:?} {}", k, desc); let _ = f.flush(); }
    }
    *RUN_WATCH.lock().unwrap() = Some((std::time::Instant::now(), format!("k={:?} {}", k, desc)));
    struct Disarm;
    impl Drop for Disarm { fn drop(&mut self) { *RUN_WATCH.lock().unwrap() = None; } }
    let _disarm = Disarm;
    let mut calls_in_target = 0;
    let r = std::panic::catch_unwind(std::panic::AssertUnwindSafe(|| -> Result<String, DbError> {
        macro_rules! go { ($db:expr) => {{
            let db = $db;
            for (i, s) in steps.iter().enumerate() {
                if i == target {
                    let before = show_obs(&observe(&*db), true);
                    CALLS.store(0, Ordering::SeqCst);
                    if let Some(k) = k { FAIL_AT.store(k as i64, Ordering::SeqCst); }
                    let res = exec_step(db, s);
                    let injected = k.is_some() && FAIL_AT.load(Ordering::SeqCst) == -1;
                    FAIL_AT.store(-1, Ordering::SeqCst);
                    calls_in_target = CALLS.load(Ordering::SeqCst);
                    if injected {
                        bump(out, "injected");
                        let failed = res.starts_with("err") || res.contains(" ; err") || res.starts_with("txn err");
                        if res == "panic" { out.fail(format!("fail-panic k={:?} panic=[{}] {}", k, crate::LAST_PANIC.lock().unwrap(), desc)); return Ok(String::new()); }
                        if !failed { out.fail(format!("fail-not-reported k={:?} result={} {}", k, &res[..res.len().min(200)], desc)); }
                        let after = show_obs(&observe(&*db), true);
                        if after != before {
                            // class = which kind of query failed and which part of the dump shows its partial effect, so that a
                            // known finding for one kind does not hide a new one for another
                            let kind = match s { Step::Exec(q) => q.name().to_string(), Step::Txn(..) => "txn".to_string(), _ => "dump".to_string() };
                            let (b, a): (Vec<&str>, Vec<&str>) = (before.split(" || ").collect(), after.split(" || ").collect());
                            let mut parts = vec![];
                            for (i, name) in ["elements", "aliases", "indexes"].iter().enumerate() {
                                if b.get(i) != a.get(i) { parts.push(*name); }
                            }
                            out.fail(format!("fail-effect-visible:{}:{} k={:?} before={} after={} {}", kind, parts.join("+"), k, before, after, desc));
                        }
                    }
                } else {
                    let res = exec_step(db, s);
                    if res == "panic" { out.fail(format!("fail-later-panic step={} k={:?} panic=[{}] {}", i, k, crate::LAST_PANIC.lock().unwrap(), desc)); return Ok(String::new()); }
                }
            }
            Ok(show_obs(&observe(&*db), false))
        }}; }
        if mapped { let mut db = DbImpl::with_data(Failing::<FileStorageMemoryMapped>::new(path)?)?; go!(&mut db) }
        else { let mut db = DbImpl::with_data(Failing::<FileStorage>::new(path)?)?; go!(&mut db) }
    }));
    out.runs += 1;
    match r {
        Ok(Ok(last)) if !last.is_empty() => {
            // close happened (drop); reopen with the plain back-end
            let re = std::panic::catch_unwind(|| -> Result<String, DbError> {
                let d = DbFile::new(path)?; let o = observe(&d);
                if !o.errors.is_empty() { return Ok(format!("READ-ERRORS {}", o.errors.join(" / "))); }
                Ok(show_obs(&o, false))
            });
            match re {
                Ok(Ok(d)) if d.starts_with("READ-ERRORS") => out.fail(format!("fail-reopen-unreadable k={:?} {} {}", k, d, desc)),
                Ok(Ok(d)) => if d != last { out.fail(format!("fail-later-work-lost k={:?} in_process={} reopened={} {}", k, last, d, desc)); },
                Ok(Err(e)) => out.fail(format!("fail-reopen-error k={:?} error={} {}", k, e.description, desc)),
                Err(_) => out.fail(format!("fail-reopen-panic k={:?} {}", k, desc)),
            }
        }
        Ok(Ok(_)) => {}
        Ok(Err(e)) => out.fail(format!("fail-create-error {} {}", e.description, desc)),
        Err(_) => out.fail(format!("fail-panic-outer k={:?} panic=[{}] {}", k, crate::LAST_PANIC.lock().unwrap(), desc)),
    }
    let _ = std::fs::remove_file(path);
    let _ = std::fs::remove_file(wal_of(path));
    calls_in_target
}

pub fn run_history(rng: &mut Rng, dir: &str, idx: usize, mapped: bool, max_steps: u64, max_k: u64, out: &mut Out) {
    // generate the history by driving an in-memory twin
    let mut twin = DbMemory::new("twin").unwrap();
    let n = 2 + rng.below(max_steps);
    let mut steps: Vec<Step> = vec![];
    for _ in 0..n {
        let live = refresh_live(&twin);
        let s = if rng.chance(1, 6) { Step::Txn(false, (0..rng.range(2, 3)).map(|_| gen_mut(rng, &live, Profile::All)).collect()) }
                else { Step::Exec(gen_mut(rng, &live, Profile::All)) };
        let _ = exec_step(&mut twin, &s);
        steps.push(s);
    }
    let target = rng.below(n.saturating_sub(1)) as usize; // never the last: later successful work must exist
    // every fourth history: the target is replaced by a query of a kind the random choice rarely picks in a state where it has
    // work to do — an index created over existing values (back-fill), an index removed, aliases re-assigned, values removed
    if idx % 4 == 3 && target > 0 {
        // rebuild the twin up to the target to generate against the state the target will see
        let mut t2 = DbMemory::new("twin2").unwrap();
        for s in &steps[..target] { let _ = exec_step(&mut t2, s); }
        let live = refresh_live(&t2);
        let forced: Option<Q> = match (idx / 4) % 4 {
            0 => {
                // a key that some element actually has
                let keys: Vec<DbValue> = crate::dbdump::observe(&t2).elems.iter().flat_map(|e| e.kvs.iter().map(|kv| kv.key.clone())).collect();
                if keys.is_empty() { None } else { Some(Q::InsertIndex(rng.pick(&keys).clone())) }
            }
            1 => if live.index_keys.is_empty() { None } else { Some(Q::RemoveIndex(rng.pick(&live.index_keys).clone())) },
            2 => if live.aliases.is_empty() || live.nodes.is_empty() { None } else {
                Some(Q::InsertAliases(crate::dbq::Qids::Ids(vec![crate::dbq::Qid::Id(*rng.pick(&live.nodes))]), vec![rng.pick(&live.aliases).clone()])) },
            _ => if live.aliases.is_empty() { None } else { Some(Q::RemoveAliases(vec![rng.pick(&live.aliases).clone()])) },
        };
        if let Some(q) = forced {
            bump(out, &format!("forced-target:{}", q.name()));
            steps[target] = Step::Exec(q);
        }
    }
    let desc = format!("backend={} target_step={} history=[{}]", if mapped { "mapped" } else { "file" }, target,
                       steps.iter().map(show_step).collect::<Vec<_>>().join(" ;; "));
    let path = format!("{}/f{}.agdb", dir, idx);
    let total = run_once(&path, &steps, target, None, mapped, out, &desc);
    bump(out, &format!("calls-in-target:{}", match total { 0 => "0", 1..=10 => "1-10", 11..=50 => "11-50", _ => ">50" }));
    let ks: Vec<u64> = if total <= max_k { (0..total).collect() } else { (0..max_k).map(|_| rng.below(total)).collect() };
    for k in ks { run_once(&path, &steps, target, Some(k), mapped, out, &desc); }
    if total >= 3 { out.nontrivial += 1; }
    if out.samples.len() < 3 { out.samples.push(format!("{} calls in target step; {}", total, &desc[..desc.len().min(400)])); }
}
