// storedrun.rs — C05 (database level, L3): the executable loader `load_db` of coq/theories/StoredDb.v against REAL files.
//
// For every generated history: the queries run through the public Db API on a DbFile (transactions with injected
// failures, optimize_storage / shrink_to_fit / drop+reopen at random points); at the end the database is dropped and
//   (1) the FILE is opened with the storage layer only (agdb::verif::VStorage<FileStorage>: no DbImpl, no collection
//       code) and every live record is dumped raw: index -> bytes.  That record store, with the root index 1, is the
//       case line for the extracted `load_db` (extract/m_stored.ml), which prints the full ORDERED dump of the model
//       database it loads (graph, property lists in order, aliases, indexes: the format of m_db.ml `dump`);
//   (2) the same file is reopened as a database (DbFile::new) and dumped through the public query API in the same
//       format (dbdump.rs `show_obs`, not normalised).
// The two lines are compared by checks/c05.py: any difference = disagreement, reported with the history.
// Then optimize_storage() is applied to the reopened database, it is dropped, and (1)/(2) are repeated on the
// optimized file (second case of the history), and once more after a backup (copy of the file).
// Direct oracle (independent of the model): the reopened database must dump exactly like the database before it
// was dropped (class stored-reopen-differs).
use crate::dbdump::*;
use crate::dbgen::*;
use crate::dbq::*;
use crate::dbrun::{exec_step, refresh_live, show_step, Step};
use crate::rng::Rng;
use crate::sexp::hex;
use agdb::verif::VStorage;
use agdb::{DbFile, DbValue, FileStorage};
use std::collections::BTreeMap;

pub struct Out {
    pub cases: Vec<String>,
    pub imp: Vec<String>,
    pub oracle: Vec<String>,
    pub hist: Vec<String>, // per case: the history (for the report)
    pub stats: BTreeMap<String, u64>,
    pub samples: Vec<String>,
    pub nontrivial: u64,
    pub histories: u64,
    pub records: u64,
}

impl Out {
    pub fn new() -> Self {
        Out { cases: vec![], imp: vec![], oracle: vec![], hist: vec![], stats: BTreeMap::new(), samples: vec![], nontrivial: 0, histories: 0, records: 0 }
    }
    fn bump(&mut self, k: &str) { *self.stats.entry(k.to_string()).or_insert(0) += 1; }
}

// every live record of the file, read with the storage layer only
fn raw_records(path: &str, hwm: u64) -> Result<(Vec<(u64, Vec<u8>)>, u64), String> {
    let st = VStorage::<FileStorage>::new(path).map_err(|e| format!("storage open: {}", e.description))?;
    let bound = std::cmp::max(hwm, st.len()) / 16 + 16;
    let mut recs = vec![];
    for i in 1..=bound {
        if let Ok(b) = st.value_as_bytes(i) { recs.push((i, b)); }
    }
    Ok((recs, st.len()))
}

fn case_line(recs: &[(u64, Vec<u8>)]) -> String {
    let mut s = String::from("stored load 1");
    for (i, b) in recs { s.push_str(&format!(" ({:x} {})", i, hex(b))); }
    s
}

fn one_case(path: &str, hwm: u64, what: &str, log: &[String], o: &mut Out) -> Option<String> {
    let (recs, _len) = match raw_records(path, hwm) {
        Ok(x) => x,
        Err(e) => { o.oracle.push(format!("stored-open-error at={} error={} history=[{}]", what, e, log.join(" ;; "))); return None; }
    };
    o.records += recs.len() as u64;
    let dump = match DbFile::new(path) {
        Ok(db) => show_obs(&observe(&db), false),
        Err(e) => { o.oracle.push(format!("stored-open-error at={} error={} history=[{}]", what, e.description, log.join(" ;; "))); return None; }
    };
    o.cases.push(case_line(&recs));
    o.imp.push(format!("db {}", dump));
    o.hist.push(format!("{} after [{}]", what, log.join(" ;; ")));
    o.bump(&format!("case:{}", what));
    Some(dump)
}

pub fn run_history(rng: &mut Rng, dir: &str, hist: usize, steps: usize, o: &mut Out) {
    o.histories += 1;
    let path = format!("{}/s{}.agdb", dir, hist);
    let _ = std::fs::remove_file(&path);
    let _ = std::fs::remove_file(format!("{}/.s{}.agdb", dir, hist));
    let profiles = [Profile::All, Profile::Index, Profile::Kv, Profile::Alias, Profile::Graph, Profile::Txn];
    let p = profiles[hist % profiles.len()];
    let mut db = match DbFile::new(&path) { Ok(d) => d, Err(e) => { o.oracle.push(format!("stored-open-error at=create error={}", e.description)); return; } };
    let mut hwm = db.size();
    let mut log: Vec<String> = vec![];
    let n_steps = 3 + rng.below(steps as u64) as usize;
    let mut maint = 0;
    for si in 0..n_steps {
        let live = refresh_live(&db);
        let step = if si == 0 && p != Profile::Index && hist % 3 != 2 {
            // two histories of three start with an index, so that inserted values are indexed as they arrive
            Step::Exec(Q::InsertIndex(DbValue::String(format!("k{}", rng.below(5)))))
        } else if p == Profile::Index && si < 4 {
            Step::Exec(Q::InsertIndex(DbValue::String(format!("k{}", si))))
        } else if p == Profile::Index && !live.index_keys.is_empty() && rng.chance(1, 9) {
            Step::Exec(Q::RemoveIndex(rng.pick(&live.index_keys).clone()))
        } else if rng.chance(1, 8) {
            let k = rng.range(1, 5) as usize;
            let qs: Vec<Q> = (0..k).map(|_| gen_mut(rng, &live, p)).collect();
            Step::Txn(rng.chance(1, 4), qs)
        } else {
            Step::Exec(gen_mut(rng, &live, p))
        };
        let line = show_step(&step);
        let res = exec_step(&mut db, &step);
        log.push(line.clone());
        match &step {
            Step::Exec(q) => o.bump(&format!("op:{}", q.name())),
            Step::Txn(f, _) => o.bump(if *f { "op:txn-injected-failure" } else { "op:txn" }),
            _ => {}
        }
        if res == "panic" || res.ends_with("panic") {
            o.oracle.push(format!("panic step={} history=[{}]", line, log.join(" ;; ")));
            return;
        }
        hwm = std::cmp::max(hwm, db.size());
        // maintenance in the middle of the history
        if rng.chance(1, 14) {
            maint += 1;
            match rng.below(3) {
                0 => { log.push("optimize_storage".into()); if let Err(e) = db.optimize_storage() { o.oracle.push(format!("maintenance-error op=optimize error={}", e.description)); } o.bump("maint:optimize"); }
                1 => { log.push("shrink_to_fit".into()); if let Err(e) = db.shrink_to_fit() { o.oracle.push(format!("maintenance-error op=shrink error={}", e.description)); } o.bump("maint:shrink_to_fit"); }
                _ => {
                    log.push("reopen".into());
                    drop(db);
                    db = match DbFile::new(&path) { Ok(d) => d, Err(e) => { o.oracle.push(format!("stored-open-error at=reopen error={} history=[{}]", e.description, log.join(" ;; "))); return; } };
                    o.bump("maint:reopen");
                }
            }
            hwm = std::cmp::max(hwm, db.size());
        }
    }
    let before = show_obs(&observe(&db), false);
    let shape = refresh_live(&db);
    drop(db);
    // (a) the file as the history left it
    if let Some(d) = one_case(&path, hwm, "closed", &log, o) {
        if d != before { o.oracle.push(format!("stored-reopen-differs before={} after={} history=[{}]", before, d, log.join(" ;; "))); }
    }
    // (b) after optimize_storage of the reopened database
    if let Ok(mut db2) = DbFile::new(&path) {
        let r = db2.optimize_storage();
        drop(db2);
        if let Err(e) = r { o.oracle.push(format!("maintenance-error op=optimize error={}", e.description)); }
        if let Some(d) = one_case(&path, hwm, "optimized", &log, o) {
            if d != before { o.oracle.push(format!("stored-reopen-differs at=optimized before={} after={} history=[{}]", before, d, log.join(" ;; "))); }
        }
    }
    // (c) a backup of the file
    if let Ok(db3) = DbFile::new(&path) {
        let bpath = format!("{}/s{}_backup.agdb", dir, hist);
        let _ = std::fs::remove_file(&bpath);
        let r = db3.backup(&bpath);
        drop(db3);
        match r {
            Err(e) => o.oracle.push(format!("maintenance-error op=backup error={}", e.description)),
            Ok(()) => {
                if let Some(d) = one_case(&bpath, hwm, "backup", &log, o) {
                    if d != before { o.oracle.push(format!("stored-reopen-differs at=backup before={} after={} history=[{}]", before, d, log.join(" ;; "))); }
                }
            }
        }
        let _ = std::fs::remove_file(&bpath);
        let _ = std::fs::remove_file(format!("{}/.s{}_backup.agdb", dir, hist));
    }
    let rich = !shape.nodes.is_empty() && !shape.edges.is_empty() && !shape.aliases.is_empty() && !shape.index_keys.is_empty();
    if rich { o.nontrivial += 1; o.bump("shape:nodes+edges+aliases+indexes"); }
    if maint > 0 { o.bump("shape:maintenance-inside-history"); }
    if o.samples.len() < 4 && rich { o.samples.push(format!("[{}] => {}", log.join(" ;; "), before)); }
    let _ = std::fs::remove_file(&path);
    let _ = std::fs::remove_file(format!("{}/.s{}.agdb", dir, hist));
}
