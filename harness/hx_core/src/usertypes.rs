// usertypes.rs — C22: user types stored with the derive macros read back unchanged.
// For every type of the generated corpus (gen_user_types.rs): random values are inserted singly
// (`QueryBuilder::insert().element(&v)`) and in batches (`.elements(&vs)`) into DbMemory and Db, selected
// with `QueryBuilder::select().elements::<T>().ids(..)` / `.search()`, compared field by field on bit
// patterns (direct oracle), updated through db_id (no other element may change), and compared with the
// Coq model DeriveType.v (to_values = the stored pairs; from_element of the selected pairs = the value;
// the updated key-value list).
use crate::corpus::{gen_bytes, gen_len, gen_string, gen_u64, Corpus};
use crate::dbdump::{observe, Obs};
use crate::dbq::{show_kv, show_value};
use crate::rng::Rng;
use crate::sexp::hex;
use agdb::*;
use std::collections::BTreeMap;
use std::panic::{catch_unwind, AssertUnwindSafe};

// ------------------------------------------------------------------------------------------ field values
pub trait Fv: Sized + Clone + std::fmt::Debug {
    fn kind() -> Option<String>; // kind in the Coq model; None = not modelled (f32)
    fn make(r: &mut Rng) -> Self;
    fn model(&self) -> String;
    fn same(&self, o: &Self) -> bool; // equality on bit patterns
}

fn ihex(z: i64) -> String { if z < 0 { format!("-{:x}", (z as i128).unsigned_abs()) } else { format!("{:x}", z) } }

fn gen_vec<T>(r: &mut Rng, f: impl Fn(&mut Rng) -> T) -> Vec<T> { let n = gen_len(r, 0); (0..n).map(|_| f(r)).collect() }

fn gen_u32(r: &mut Rng) -> u32 { match r.below(6) { 0 => 0, 1 => u32::MAX, 2 => 1 << r.below(32), 3 => r.below(300) as u32, _ => r.next() as u32 } }
fn gen_i32(r: &mut Rng) -> i32 { match r.below(7) { 0 => 0, 1 => i32::MAX, 2 => i32::MIN, 3 => -1, 4 => r.below(300) as i32 - 150, _ => r.next() as i32 } }
fn gen_f32(r: &mut Rng) -> f32 {
    f32::from_bits(match r.below(9) {
        0 => 0, 1 => 1 << 31, 2 => 0x7f80_0000, 3 => 0xff80_0000, 4 => 0x7fc0_0000 | r.below(1 << 22) as u32,
        5 => r.below(1 << 23) as u32, 6 => 0x3f80_0000, _ => r.next() as u32,
    })
}
fn f32_same(a: f32, b: f32) -> bool { (a.is_nan() && b.is_nan()) || a.to_bits() == b.to_bits() }

impl Fv for u64 {
    fn kind() -> Option<String> { Some("u64".into()) }
    fn make(r: &mut Rng) -> Self { gen_u64(r) }
    fn model(&self) -> String { format!("(u64 {:x})", self) }
    fn same(&self, o: &Self) -> bool { self == o }
}
impl Fv for i64 {
    fn kind() -> Option<String> { Some("i64".into()) }
    fn make(r: &mut Rng) -> Self { gen_u64(r) as i64 }
    fn model(&self) -> String { format!("(i64 {})", ihex(*self)) }
    fn same(&self, o: &Self) -> bool { self == o }
}
impl Fv for f64 {
    fn kind() -> Option<String> { Some("f64".into()) }
    fn make(r: &mut Rng) -> Self { <f64 as Corpus>::generate(r, 0) }
    fn model(&self) -> String { format!("(f64 {:x})", self.to_bits()) }
    fn same(&self, o: &Self) -> bool { self.to_bits() == o.to_bits() }
}
impl Fv for u32 {
    fn kind() -> Option<String> { Some("u32".into()) }
    fn make(r: &mut Rng) -> Self { gen_u32(r) }
    fn model(&self) -> String { format!("(u32 {:x})", self) }
    fn same(&self, o: &Self) -> bool { self == o }
}
impl Fv for i32 {
    fn kind() -> Option<String> { Some("i32".into()) }
    fn make(r: &mut Rng) -> Self { gen_i32(r) }
    fn model(&self) -> String { format!("(i32 {})", ihex(*self as i64)) }
    fn same(&self, o: &Self) -> bool { self == o }
}
impl Fv for f32 {
    fn kind() -> Option<String> { None }
    fn make(r: &mut Rng) -> Self { gen_f32(r) }
    fn model(&self) -> String { format!("(f32 {:x})", self.to_bits()) }
    fn same(&self, o: &Self) -> bool { f32_same(*self, *o) }
}
impl Fv for bool {
    fn kind() -> Option<String> { Some("bool".into()) }
    fn make(r: &mut Rng) -> Self { r.chance(1, 2) }
    fn model(&self) -> String { format!("(bool {})", *self as u8) }
    fn same(&self, o: &Self) -> bool { self == o }
}
impl Fv for String {
    fn kind() -> Option<String> { Some("str".into()) }
    fn make(r: &mut Rng) -> Self { gen_string(r) }
    fn model(&self) -> String { format!("(str {})", hex(self.as_bytes())) }
    fn same(&self, o: &Self) -> bool { self == o }
}
impl Fv for Vec<u8> {
    fn kind() -> Option<String> { Some("bytes".into()) }
    fn make(r: &mut Rng) -> Self { gen_bytes(r) }
    fn model(&self) -> String { format!("(bytes {})", hex(self)) }
    fn same(&self, o: &Self) -> bool { self == o }
}
impl Fv for Vec<i64> {
    fn kind() -> Option<String> { Some("vi64".into()) }
    fn make(r: &mut Rng) -> Self { gen_vec(r, |r| gen_u64(r) as i64) }
    fn model(&self) -> String { format!("(vi64{})", self.iter().map(|z| format!(" {}", ihex(*z))).collect::<String>()) }
    fn same(&self, o: &Self) -> bool { self == o }
}
impl Fv for Vec<u64> {
    fn kind() -> Option<String> { Some("vu64".into()) }
    fn make(r: &mut Rng) -> Self { gen_vec(r, gen_u64) }
    fn model(&self) -> String { format!("(vu64{})", self.iter().map(|z| format!(" {:x}", z)).collect::<String>()) }
    fn same(&self, o: &Self) -> bool { self == o }
}
impl Fv for Vec<f64> {
    fn kind() -> Option<String> { Some("vf64".into()) }
    fn make(r: &mut Rng) -> Self { gen_vec(r, |r| <f64 as Corpus>::generate(r, 0)) }
    fn model(&self) -> String { format!("(vf64{})", self.iter().map(|z| format!(" {:x}", z.to_bits())).collect::<String>()) }
    fn same(&self, o: &Self) -> bool { self.len() == o.len() && self.iter().zip(o).all(|(a, b)| a.to_bits() == b.to_bits()) }
}
impl Fv for Vec<String> {
    fn kind() -> Option<String> { Some("vstr".into()) }
    fn make(r: &mut Rng) -> Self { gen_vec(r, gen_string) }
    fn model(&self) -> String { format!("(vstr{})", self.iter().map(|z| format!(" {}", hex(z.as_bytes()))).collect::<String>()) }
    fn same(&self, o: &Self) -> bool { self == o }
}
impl Fv for Vec<i32> {
    fn kind() -> Option<String> { Some("vi32".into()) }
    fn make(r: &mut Rng) -> Self { gen_vec(r, gen_i32) }
    fn model(&self) -> String { format!("(vi32{})", self.iter().map(|z| format!(" {}", ihex(*z as i64))).collect::<String>()) }
    fn same(&self, o: &Self) -> bool { self == o }
}
impl Fv for Vec<u32> {
    fn kind() -> Option<String> { Some("vu32".into()) }
    fn make(r: &mut Rng) -> Self { gen_vec(r, gen_u32) }
    fn model(&self) -> String { format!("(vu32{})", self.iter().map(|z| format!(" {:x}", z)).collect::<String>()) }
    fn same(&self, o: &Self) -> bool { self == o }
}
impl Fv for Vec<f32> {
    fn kind() -> Option<String> { None }
    fn make(r: &mut Rng) -> Self { gen_vec(r, gen_f32) }
    fn model(&self) -> String { format!("(vf32{})", self.iter().map(|z| format!(" {:x}", z.to_bits())).collect::<String>()) }
    fn same(&self, o: &Self) -> bool { self.len() == o.len() && self.iter().zip(o).all(|(a, b)| f32_same(*a, *b)) }
}
impl Fv for Vec<bool> {
    fn kind() -> Option<String> { Some("vbool".into()) }
    fn make(r: &mut Rng) -> Self { gen_vec(r, |r| r.chance(1, 2)) }
    fn model(&self) -> String { format!("(vbool{})", self.iter().map(|z| format!(" {}", *z as u8)).collect::<String>()) }
    fn same(&self, o: &Self) -> bool { self == o }
}

// custom value types: #[derive(DbSerialize, DbValue, DbTypeMarker)], described by the codec model's type
pub trait Cv: Corpus + Clone + std::fmt::Debug {}

impl<T: Cv> Fv for T {
    fn kind() -> Option<String> { Some(format!("(custom {})", T::ty().show())) }
    fn make(r: &mut Rng) -> Self { T::generate(r, 1) }
    fn model(&self) -> String { format!("(custom {})", self.to_val().show()) }
    fn same(&self, o: &Self) -> bool { self.to_val() == o.to_val() }
}
impl<T: Cv> Fv for Vec<T> {
    fn kind() -> Option<String> { Some(format!("(vcustom {})", T::ty().show())) }
    fn make(r: &mut Rng) -> Self { gen_vec(r, |r| T::generate(r, 1)) }
    fn model(&self) -> String { format!("(vcustom{})", self.iter().map(|z| format!(" {}", z.to_val().show())).collect::<String>()) }
    fn same(&self, o: &Self) -> bool { self.len() == o.len() && self.iter().zip(o).all(|(a, b)| a.to_val() == b.to_val()) }
}

// ------------------------------------------------------------------------------------------ db_id fields
pub trait IdField: Sized {
    fn fresh() -> Self;
    fn from_qid(q: QueryId) -> Self;
    fn into_qid(self) -> Option<QueryId>;
}
impl IdField for Option<DbId> {
    fn fresh() -> Self { None }
    fn from_qid(q: QueryId) -> Self { match q { QueryId::Id(i) => Some(i), _ => None } }
    fn into_qid(self) -> Option<QueryId> { self.map(QueryId::Id) }
}
impl IdField for Option<QueryId> {
    fn fresh() -> Self { None }
    fn from_qid(q: QueryId) -> Self { Some(q) }
    fn into_qid(self) -> Option<QueryId> { self }
}
impl IdField for DbId {
    fn fresh() -> Self { DbId(0) }
    fn from_qid(q: QueryId) -> Self { match q { QueryId::Id(i) => i, _ => DbId(0) } }
    fn into_qid(self) -> Option<QueryId> { Some(QueryId::Id(self)) }
}
impl IdField for QueryId {
    fn fresh() -> Self { QueryId::Id(DbId(0)) }
    fn from_qid(q: QueryId) -> Self { q }
    fn into_qid(self) -> Option<QueryId> { Some(self) }
}

pub fn show_id(q: &Option<QueryId>) -> String {
    match q { Some(QueryId::Id(i)) => format!("(id {})", ihex(i.0)), _ => "(id none)".into() }
}

// ------------------------------------------------------------------------------------------ user types
pub trait Ut: Sized + Clone + std::fmt::Debug {
    const NAME: &'static str;
    const KNOWN: &'static str;
    const ELEMENT: bool;
    const HAS_ID: bool;
    fn in_model() -> bool;
    fn fields_desc() -> String;
    fn model(&self) -> String;
    fn diff(&self, o: &Self, out: &mut Vec<String>);
    fn make(r: &mut Rng) -> Self;
    fn skip_default(&self) -> bool;
    fn merge_old(&mut self, old: &Self); // what an insert-or-replace of `self` over a stored `old` reads back as
    fn get_id(&self) -> Option<QueryId>;
    fn set_id(&mut self, id: QueryId);
    fn desc() -> String { format!("(desc {} {})", if Self::ELEMENT { hex(Self::NAME.as_bytes()) } else { "-".into() }, Self::fields_desc()) }
}

pub struct Ctx {
    pub rng: Rng, pub n: usize, pub dir: String,
    pub cases: Vec<String>, pub imp: Vec<String>, pub oracle: Vec<String>,
    pub stats: BTreeMap<String, u64>, pub samples: Vec<String>, pub nontrivial: u64, pub evaluations: u64,
}

impl Ctx {
    fn bump(&mut self, k: &str) { *self.stats.entry(k.to_string()).or_insert(0) += 1; }
    fn fail(&mut self, cls: &str, ty: &str, known: &str, msg: String) {
        // `known` = KnownClass of a recorded finding that explains this failure (only passed by the select-by-db_keys path)
        let c = if known.is_empty() { cls.to_string() } else { format!("type-roundtrip-{}", known) };
        if self.oracle.iter().filter(|l| l.starts_with(&format!("{} type={}", c, ty))).count() < 3 {
            self.oracle.push(format!("{} type={} {}", c, ty, msg));
        }
        self.bump(&format!("failure:{}", c));
    }
}

pub fn show_kvs(l: &[DbKeyValue]) -> String { format!("({})", l.iter().map(show_kv).collect::<Vec<_>>().join(" ")) }

fn errs(e: &DbError) -> String { format!("{:?}: {}", e.ty, e.description) }

// insert-or-replace of `new` over `old`, per key: first pair with an equal key replaced in place, else appended
fn merged_kvs(old: &[DbKeyValue], new: &[DbKeyValue]) -> Vec<DbKeyValue> {
    let mut l = old.to_vec();
    for kv in new {
        if let Some(p) = l.iter().position(|x| x.key == kv.key) { l[p] = kv.clone(); } else { l.push(kv.clone()); }
    }
    l
}

fn elem_lines(o: &Obs, except: i64) -> Vec<String> {
    o.elems.iter().filter(|e| e.id != except).map(|e| format!("{} {} {} {:?} {:?} {:?} [{}]", e.id, e.from, e.to, e.alias, e.out, e.inn,
        e.kvs.iter().map(|kv| format!("{}={}", show_value(&kv.key), show_value(&kv.value))).collect::<Vec<_>>().join(","))).collect()
}

fn read_back<T: Ut + DbType<ValueType = T>, S: StorageData>(db: &DbImpl<S>, ctx: &mut Ctx, ids: &[DbId], expected: &[T], what: &str, variant: &str) {
    // the documented way: select().elements::<T>() (keys = T::db_keys()); a failure of a type in the KnownClass of a recorded
    // finding is attributed to it on THIS path only ...
    read_back_with::<T, S>(db, ctx, ids, expected, what, variant, false);
    // ... and every such type must still read back through a select of all keys
    if !T::KNOWN.is_empty() { read_back_with::<T, S>(db, ctx, ids, expected, what, variant, true); }
}

fn read_back_with<T: Ut + DbType<ValueType = T>, S: StorageData>(db: &DbImpl<S>, ctx: &mut Ctx, ids: &[DbId], expected: &[T], what: &str, variant: &str, all_keys: bool) {
    let known = if all_keys { "" } else { T::KNOWN };
    let inputs = || expected.iter().map(|v| format!("{:?}", v)).collect::<Vec<_>>().join(" ;; ");
    let q = if all_keys { QueryBuilder::select().ids(ids.to_vec()).query() } else { QueryBuilder::select().elements::<T>().ids(ids.to_vec()).query() };
    let keys = q.keys.clone();
    let res = match catch_unwind(AssertUnwindSafe(|| db.exec(q))) {
        Ok(Ok(r)) => r,
        Ok(Err(e)) => { ctx.fail("type-roundtrip-error", T::NAME, known, format!("{} db={} select().elements::<T>().ids({:?}) with keys {:?} failed: {} values=[{}]", what, variant, ids, keys, errs(&e), inputs())); return; }
        Err(_) => { ctx.fail("type-roundtrip-panic", T::NAME, known, format!("{} db={} select panicked values=[{}]", what, variant, inputs())); return; }
    };
    // model tie: the pairs the select returns (both revisions of db_keys; checks/c22.py keeps the one /repo implements) ...
    if T::in_model() && !all_keys {
        for el in &res.elements {
            if let Ok(all) = db.exec(QueryBuilder::select().ids(el.id).query()) {
                if let Some(a) = all.elements.first() {
                    for f in ["0", "1"] {
                        ctx.cases.push(format!("derive select {} {} {}", f, T::desc(), show_kvs(&a.values)));
                        ctx.imp.push(show_kvs(&el.values));
                    }
                }
            }
        }
    }
    // ... and from_element of the selected pairs
    if T::in_model() {
        for el in &res.elements {
            ctx.cases.push(format!("derive fromelement {} {} {}", T::desc(), ihex(el.id.0), show_kvs(&el.values)));
            ctx.imp.push(match catch_unwind(AssertUnwindSafe(|| T::from_db_element(el))) { Ok(Ok(b)) => format!("ok {}", b.model()), Ok(Err(_)) => "err".into(), Err(_) => "panic".into() });
        }
    }
    let back: Vec<T> = match catch_unwind(AssertUnwindSafe(|| res.try_into())) {
        Ok(Ok(b)) => b,
        Ok(Err(e)) => { let e: DbError = e; ctx.fail("type-roundtrip-error", T::NAME, known, format!("{} db={} conversion of the selected elements failed: {} (selected keys {:?}) values=[{}]", what, variant, errs(&e), keys, inputs())); return; }
        Err(_) => { ctx.fail("type-roundtrip-panic", T::NAME, known, format!("{} db={} conversion panicked values=[{}]", what, variant, inputs())); return; }
    };
    if back.len() != expected.len() {
        ctx.fail("type-roundtrip-mismatch", T::NAME, known, format!("{} db={} {} elements read, {} expected", what, variant, back.len(), expected.len()));
        return;
    }
    for ((b, v), id) in back.iter().zip(expected).zip(ids) {
        ctx.evaluations += 1;
        let mut d = vec![];
        v.diff(b, &mut d);
        if T::HAS_ID && b.get_id() != Some(QueryId::Id(*id)) { d.push(format!("db_id: {:?} read, Some({}) expected", b.get_id(), id.0)); }
        if !b.skip_default() { d.push("a skipped field is not its default".into()); }
        if !d.is_empty() {
            ctx.fail("type-roundtrip-mismatch", T::NAME, known, format!("{} db={} id={} fields=[{}] value={:?} read={:?}", what, variant, id.0, d.join("; "), v, b));
        }
    }
}

fn run_on<T: Ut + DbType<ValueType = T>, S: StorageData>(db: &mut DbImpl<S>, ctx: &mut Ctx, n: usize, variant: &str) {
    let mut live: Vec<(DbId, T)> = vec![]; // element id, the value it must read back as
    let mut foreign = 0usize;
    if T::ELEMENT {
        // elements of another kind: the search for T must not return them
        if let Ok(r) = db.exec_mut(QueryBuilder::insert().nodes().values([[("other", 1_u64).into()], [("db_element_id", "SomethingElse").into()]]).query()) { foreign = r.elements.len(); }
    }
    let mut i = 0;
    while i < n {
        let mode = match ctx.rng.below(10) { 0..=3 => 0, 4..=6 => 1, _ => 2 };
        if mode == 0 || (mode == 2 && (!T::HAS_ID || live.is_empty())) {
            // ---- single insert
            i += 1;
            let v = T::make(&mut ctx.rng);
            let kvs = v.to_db_values();
            if T::in_model() {
                ctx.cases.push(format!("derive tovalues {} ({})", T::desc(), v.model()));
                ctx.imp.push(show_kvs(&kvs));
            }
            let r = catch_unwind(AssertUnwindSafe(|| db.exec_mut(QueryBuilder::insert().element(&v).query())));
            let id = match r {
                Ok(Ok(r)) if r.elements.len() == 1 => r.elements[0].id,
                Ok(Ok(r)) => { ctx.fail("type-roundtrip-error", T::NAME, "", format!("insert db={} returned {} elements value={:?}", variant, r.elements.len(), v)); continue; }
                Ok(Err(e)) => { ctx.fail("type-roundtrip-error", T::NAME, "", format!("insert db={} failed: {} value={:?}", variant, errs(&e), v)); continue; }
                Err(_) => { ctx.fail("type-roundtrip-panic", T::NAME, "", format!("insert db={} panicked value={:?}", variant, v)); continue; }
            };
            ctx.bump("op:insert-element");
            // the stored pairs are the pairs of to_db_values, in order
            match db.exec(QueryBuilder::select().ids(id).query()) {
                Ok(r) if r.elements.len() == 1 => {
                    if T::in_model() {
                        ctx.cases.push(format!("derive tovalues {} ({})", T::desc(), v.model()));
                        ctx.imp.push(show_kvs(&r.elements[0].values));
                    }
                    if r.elements[0].values != kvs {
                        ctx.fail("type-roundtrip-mismatch", T::NAME, "", format!("db={} id={} stored pairs {} differ from to_db_values {} value={:?}", variant, id.0, show_kvs(&r.elements[0].values), show_kvs(&kvs), v));
                    }
                }
                Ok(_) => ctx.fail("type-roundtrip-error", T::NAME, "", format!("db={} select ids({}) returned no element", variant, id.0)),
                Err(e) => ctx.fail("type-roundtrip-error", T::NAME, "", format!("db={} select ids({}) failed: {}", variant, id.0, errs(&e))),
            }
            read_back(db, ctx, &[id], std::slice::from_ref(&v), "single", variant);
            live.push((id, v));
        } else if mode == 1 {
            // ---- batch insert
            let k = ctx.rng.range(2, 5) as usize;
            i += k;
            let vs: Vec<T> = (0..k).map(|_| T::make(&mut ctx.rng)).collect();
            let r = catch_unwind(AssertUnwindSafe(|| db.exec_mut(QueryBuilder::insert().elements(&vs).query())));
            let ids: Vec<DbId> = match r {
                Ok(Ok(r)) if r.elements.len() == k => r.ids(),
                Ok(Ok(r)) => { ctx.fail("type-roundtrip-error", T::NAME, "", format!("batch insert db={} returned {} elements for {} values", variant, r.elements.len(), k)); continue; }
                Ok(Err(e)) => { ctx.fail("type-roundtrip-error", T::NAME, "", format!("batch insert db={} failed: {} values={:?}", variant, errs(&e), vs)); continue; }
                Err(_) => { ctx.fail("type-roundtrip-panic", T::NAME, "", format!("batch insert db={} panicked values={:?}", variant, vs)); continue; }
            };
            ctx.bump("op:insert-elements-batch");
            read_back(db, ctx, &ids, &vs, "batch", variant);
            for (id, v) in ids.into_iter().zip(vs) { live.push((id, v)); }
        } else {
            // ---- update through db_id
            i += 1;
            let idx = ctx.rng.below(live.len() as u64) as usize;
            let id = live[idx].0;
            let mut v2 = T::make(&mut ctx.rng);
            v2.set_id(QueryId::Id(id));
            let before = observe(db);
            let old = db.exec(QueryBuilder::select().ids(id).query()).map(|r| r.elements.first().map(|e| e.values.clone()).unwrap_or_default()).unwrap_or_default();
            let r = catch_unwind(AssertUnwindSafe(|| db.exec_mut(QueryBuilder::insert().element(&v2).query())));
            match r {
                Ok(Ok(_)) => {}
                Ok(Err(e)) => { ctx.fail("type-roundtrip-error", T::NAME, "", format!("update db={} id={} failed: {} value={:?}", variant, id.0, errs(&e), v2)); continue; }
                Err(_) => { ctx.fail("type-roundtrip-panic", T::NAME, "", format!("update db={} id={} panicked value={:?}", variant, id.0, v2)); continue; }
            }
            ctx.bump("op:update-through-db_id");
            let after = observe(db);
            let (b, a) = (elem_lines(&before, id.0), elem_lines(&after, id.0));
            if before.node_count != after.node_count || before.elems.len() != after.elems.len() || b != a || before.aliases != after.aliases {
                let changed: Vec<String> = a.iter().filter(|l| !b.contains(l)).cloned().collect();
                ctx.fail("type-update-wrong-element", T::NAME, "", format!("db={} update of id={} with {:?}: elements {} -> {}, other elements changed/added: {:?}", variant, id.0, v2, before.elems.len(), after.elems.len(), changed));
            }
            let new = db.exec(QueryBuilder::select().ids(id).query()).map(|r| r.elements.first().map(|e| e.values.clone()).unwrap_or_default()).unwrap_or_default();
            let want = merged_kvs(&old, &v2.to_db_values());
            if T::in_model() {
                ctx.cases.push(format!("derive update {} {} ({})", show_kvs(&old), T::desc(), v2.model()));
                ctx.imp.push(show_kvs(&new));
            }
            if new != want {
                ctx.fail("type-update-wrong-values", T::NAME, "", format!("db={} id={} stored {} expected {} (old {}) value={:?}", variant, id.0, show_kvs(&new), show_kvs(&want), show_kvs(&old), v2));
            }
            let mut expect = v2.clone();
            expect.merge_old(&live[idx].1);
            read_back(db, ctx, &[id], std::slice::from_ref(&expect), "updated", variant);
            live[idx].1 = expect;
        }
    }
    // ---- all of them through a search (the element id condition of #[derive(DbElement)] types)
    if !live.is_empty() {
        let q = QueryBuilder::select().elements::<T>().search().elements().query();
        match catch_unwind(AssertUnwindSafe(|| db.exec(q))) {
            Ok(Ok(r)) => {
                let mut ids: Vec<DbId> = r.ids();
                ids.sort();
                let mut want: Vec<DbId> = live.iter().map(|x| x.0).collect();
                want.sort();
                if ids != want {
                    ctx.fail("type-roundtrip-mismatch", T::NAME, T::KNOWN, format!("db={} select().elements::<T>().search().elements() returned ids {:?}, inserted {:?} ({} foreign elements)", variant, ids, want, foreign));
                } else {
                    match catch_unwind(AssertUnwindSafe(|| -> Result<Vec<T>, DbError> { r.clone().try_into() })) {
                        Ok(Ok(back)) => {
                            for (b, el) in back.iter().zip(&r.elements) {
                                if let Some((_, v)) = live.iter().find(|x| x.0 == el.id) {
                                    ctx.evaluations += 1;
                                    let mut d = vec![];
                                    v.diff(b, &mut d);
                                    if !d.is_empty() { ctx.fail("type-roundtrip-mismatch", T::NAME, T::KNOWN, format!("search db={} id={} fields=[{}] value={:?} read={:?}", variant, el.id.0, d.join("; "), v, b)); }
                                }
                            }
                        }
                        Ok(Err(e)) => ctx.fail("type-roundtrip-error", T::NAME, T::KNOWN, format!("search db={} conversion failed: {}", variant, errs(&e))),
                        Err(_) => ctx.fail("type-roundtrip-panic", T::NAME, T::KNOWN, format!("search db={} conversion panicked", variant)),
                    }
                }
                ctx.bump("op:select-elements-search");
            }
            Ok(Err(e)) => ctx.fail("type-roundtrip-error", T::NAME, T::KNOWN, format!("search db={} failed: {}", variant, errs(&e))),
            Err(_) => ctx.fail("type-roundtrip-panic", T::NAME, T::KNOWN, format!("search db={} panicked", variant)),
        }
    }
    // ---- the single-element form: select().element::<T>().search() must apply the same element id condition (limit 1):
    // the first element OF THIS TYPE in id order, whatever other elements come first
    if !live.is_empty() && T::db_element_id().is_some() {
        let q = QueryBuilder::select().element::<T>().search().elements().query();
        let first = live.iter().map(|x| x.0).min().unwrap();
        match catch_unwind(AssertUnwindSafe(|| db.exec(q))) {
            Ok(Ok(r)) => {
                ctx.evaluations += 1;
                ctx.bump("op:select-element-search-single");
                if r.ids() != vec![first] {
                    ctx.fail("type-roundtrip-mismatch", T::NAME, T::KNOWN, format!("db={} select().element::<T>().search().elements() returned ids {:?}, the first element of the type is {:?} ({} foreign elements)", variant, r.ids(), first, foreign));
                } else {
                    match catch_unwind(AssertUnwindSafe(|| -> Result<T, DbError> {
                        let mut l: Vec<T> = r.clone().try_into()?;
                        l.pop().ok_or_else(|| DbError::db(DbErrorType::NotFound, "no element"))
                    })) {
                        Ok(Ok(b)) => {
                            if let Some((_, v)) = live.iter().find(|x| x.0 == first) {
                                let mut d = vec![];
                                v.diff(&b, &mut d);
                                if !d.is_empty() { ctx.fail("type-roundtrip-mismatch", T::NAME, T::KNOWN, format!("single-element search db={} id={} fields=[{}] value={:?} read={:?}", variant, first.0, d.join("; "), v, b)); }
                            }
                        }
                        Ok(Err(e)) => ctx.fail("type-roundtrip-error", T::NAME, T::KNOWN, format!("single-element search db={} conversion failed: {}", variant, errs(&e))),
                        Err(_) => ctx.fail("type-roundtrip-panic", T::NAME, T::KNOWN, format!("single-element search db={} conversion panicked", variant)),
                    }
                }
            }
            Ok(Err(e)) => ctx.fail("type-roundtrip-error", T::NAME, T::KNOWN, format!("single-element search db={} failed: {}", variant, errs(&e))),
            Err(_) => ctx.fail("type-roundtrip-panic", T::NAME, T::KNOWN, format!("single-element search db={} panicked", variant)),
        }
    }
    if live.len() >= 3 { ctx.nontrivial += 1; }
}

pub fn run_type<T: Ut + DbType<ValueType = T>>(ctx: &mut Ctx) {
    ctx.bump(&format!("type:{}{}", T::NAME, if T::in_model() { "" } else { " (not in the model: f32)" }));
    if ctx.samples.len() < 3 && ctx.rng.chance(1, 4) {
        let v = T::make(&mut ctx.rng.clone());
        ctx.samples.push(format!("{} {} value {:?} -> {}", T::NAME, T::desc(), v, show_kvs(&v.to_db_values())).chars().take(700).collect());
    }
    if T::in_model() {
        let keys = format!("({})", T::db_keys().iter().map(|k| hex(k.to_string().as_bytes())).collect::<Vec<_>>().join(" "));
        for f in ["0", "1"] {
            ctx.cases.push(format!("derive keys {} {}", f, T::desc()));
            ctx.imp.push(keys.clone());
        }
    }
    let n = ctx.n;
    match DbMemory::new("c22") {
        Ok(mut db) => run_on::<T, _>(&mut db, ctx, n, "memory"),
        Err(e) => ctx.fail("type-roundtrip-error", T::NAME, "", format!("DbMemory::new failed: {}", errs(&e))),
    }
    let path = format!("{}/c22_{}.agdb", ctx.dir, T::NAME);
    let rm = |p: &str| { let _ = std::fs::remove_file(p); if let Some((d, f)) = p.rsplit_once('/') { let _ = std::fs::remove_file(format!("{}/.{}", d, f)); } };
    rm(&path);
    match Db::new(&path) {
        Ok(mut db) => run_on::<T, _>(&mut db, ctx, (n / 4).max(4), "mapped-file"),
        Err(e) => ctx.fail("type-roundtrip-error", T::NAME, "", format!("Db::new failed: {}", errs(&e))),
    }
    rm(&path);
}
