// allocator wrapper recording the largest single allocation request (C07/C21:
// "never attempts an enormous allocation")
use std::alloc::{GlobalAlloc, Layout, System};
use std::sync::atomic::{AtomicUsize, Ordering};

pub struct Tracking;
pub static MAX_REQ: AtomicUsize = AtomicUsize::new(0);

unsafe impl GlobalAlloc for Tracking {
    unsafe fn alloc(&self, l: Layout) -> *mut u8 {
        MAX_REQ.fetch_max(l.size(), Ordering::Relaxed);
        unsafe { System.alloc(l) }
    }
    unsafe fn dealloc(&self, p: *mut u8, l: Layout) {
        unsafe { System.dealloc(p, l) }
    }
    unsafe fn realloc(&self, p: *mut u8, l: Layout, n: usize) -> *mut u8 {
        MAX_REQ.fetch_max(n, Ordering::Relaxed);
        unsafe { System.realloc(p, l, n) }
    }
    unsafe fn alloc_zeroed(&self, l: Layout) -> *mut u8 {
        MAX_REQ.fetch_max(l.size(), Ordering::Relaxed);
        unsafe { System.alloc_zeroed(l) }
    }
}

pub fn reset() {
    MAX_REQ.store(0, Ordering::Relaxed);
}
pub fn max_req() -> usize {
    MAX_REQ.load(Ordering::Relaxed)
}
