// allocator wrapper recording the largest single allocation request (C07/C21:
// "never attempts an enormous allocation")
use std::alloc::{GlobalAlloc, Layout, System};
use std::sync::atomic::{AtomicUsize, Ordering};

pub struct Tracking;
pub static MAX_REQ: AtomicUsize = AtomicUsize::new(0);

// C07 child processes: a request above damrun::ALLOC_LIMIT is reported with its call site
// (usize::MAX = off, the default)
// returns true when the request is refused (the allocator then returns null: the request fails the way it
// would on a machine without that much memory)
#[inline]
fn watch(size: usize) -> bool {
    use crate::damrun::{ALLOC_LIMIT, IN_REPORT};
    if size > ALLOC_LIMIT.load(Ordering::Relaxed) {
        if !IN_REPORT.swap(true, Ordering::SeqCst) {
            crate::damrun::report_alloc(size);
            IN_REPORT.store(false, Ordering::SeqCst);
            return true;
        }
    }
    false
}

unsafe impl GlobalAlloc for Tracking {
    unsafe fn alloc(&self, l: Layout) -> *mut u8 {
        MAX_REQ.fetch_max(l.size(), Ordering::Relaxed);
        if watch(l.size()) { return std::ptr::null_mut(); }
        unsafe { System.alloc(l) }
    }
    unsafe fn dealloc(&self, p: *mut u8, l: Layout) {
        unsafe { System.dealloc(p, l) }
    }
    unsafe fn realloc(&self, p: *mut u8, l: Layout, n: usize) -> *mut u8 {
        MAX_REQ.fetch_max(n, Ordering::Relaxed);
        if watch(n) { return std::ptr::null_mut(); }
        unsafe { System.realloc(p, l, n) }
    }
    unsafe fn alloc_zeroed(&self, l: Layout) -> *mut u8 {
        MAX_REQ.fetch_max(l.size(), Ordering::Relaxed);
        if watch(l.size()) { return std::ptr::null_mut(); }
        unsafe { System.alloc_zeroed(l) }
    }
}

pub fn reset() {
    MAX_REQ.store(0, Ordering::Relaxed);
}
pub fn max_req() -> usize {
    MAX_REQ.load(Ordering::Relaxed)
}
