// damrun.rs — C07: opening or reading a damaged database file never crashes the process.
//
// Parent (`c07`): builds valid seed database files with the public API, derives damaged copies
// (truncations, guided overwrites of record headers / root record / value indexes / vector length
// prefixes / graph slots, bit flips, garbage or torn recovery logs, random files) and hands each
// copy to a CHILD PROCESS (`c07-child <path> <variant> <limit>`, this same executable) that opens it with
// one storage variant and reads everything.  The child runs under a wall clock timeout, an address space
// limit (setrlimit RLIMIT_AS) and a panic hook / allocation tracker that name the crash SITE.
//   outcome classes:  opens | error | panic-<site> | alloc-<site> | abort-<what> | hang
//   the property: the class is `opens` or `error`.
use crate::dbdump;
use crate::rng::Rng;
use crate::sexp::hex;
use agdb::*;
use std::collections::{BTreeMap, BTreeSet};
use std::io::Write;
use std::panic::{catch_unwind, AssertUnwindSafe};
use std::process::{Command, Stdio};
use std::sync::atomic::{AtomicBool, AtomicUsize, Ordering};
use std::sync::{Arc, Mutex};
use std::time::{Duration, Instant};

// ------------------------------------------------------------------------------------------------
// child
// ------------------------------------------------------------------------------------------------

#[repr(C)]
struct RLimit { cur: u64, max: u64 }
unsafe extern "C" { fn setrlimit(resource: i32, rlim: *const RLimit) -> i32; }
const RLIMIT_AS: i32 = 9;

pub static ALLOC_LIMIT: AtomicUsize = AtomicUsize::new(usize::MAX);
pub static IN_REPORT: AtomicBool = AtomicBool::new(false);
static REPORTED: AtomicBool = AtomicBool::new(false);

/// `agdb::storage::Storage<..>::read_record` -> `Storage.read_record`;
/// `<agdb::..::MemoryStorage as agdb::storage::StorageData>::read` -> `MemoryStorage.read`
fn simplify(sym: &str) -> String {
    // strip generic arguments
    let mut flat = String::new();
    let mut depth = 0i32;
    let s = sym.trim();
    let s = if let Some(rest) = s.strip_prefix('<') {
        // <T as Trait>::method  -> T::method
        if let Some(pos) = rest.find(" as ") {
            let ty = &rest[..pos];
            let after = rest.rfind(">::").map(|p| &rest[p + 3..]).unwrap_or("");
            format!("{}::{}", ty, after)
        } else { rest.replace(">::", "::") }
    } else { s.to_string() };
    for c in s.chars() {
        match c { '<' => depth += 1, '>' => depth -= 1, _ if depth == 0 => flat.push(c), _ => {} }
    }
    let segs: Vec<&str> = flat.split("::").filter(|x| !x.is_empty() && !x.starts_with('{') && !(x.len() == 17 && x.starts_with('h'))).collect();
    let n = segs.len();
    if n >= 2 { format!("{}.{}", segs[n - 2], segs[n - 1]) } else { flat }
}

// raw stack walk (no allocation, no symbolisation): the parent resolves the distinct addresses once with addr2line
unsafe extern "C" {
    fn _Unwind_Backtrace(trace: extern "C" fn(*mut std::ffi::c_void, *mut std::ffi::c_void) -> i32, arg: *mut std::ffi::c_void) -> i32;
    fn _Unwind_GetIP(ctx: *mut std::ffi::c_void) -> usize;
}
struct Ips { n: usize, ips: [usize; 40] }
extern "C" fn trace_cb(ctx: *mut std::ffi::c_void, arg: *mut std::ffi::c_void) -> i32 {
    let v = unsafe { &mut *(arg as *mut Ips) };
    if v.n >= 40 { return 5; }
    v.ips[v.n] = unsafe { _Unwind_GetIP(ctx) };
    v.n += 1;
    0
}
static BASE: AtomicUsize = AtomicUsize::new(0);

/// return addresses of the current stack as offsets into the executable, innermost first
fn raw_stack() -> String {
    let mut v = Ips { n: 0, ips: [0; 40] };
    unsafe { _Unwind_Backtrace(trace_cb, &mut v as *mut Ips as *mut std::ffi::c_void); }
    let base = BASE.load(Ordering::Relaxed);
    let mut s = String::new();
    for i in 0..v.n {
        if !s.is_empty() { s.push(','); }
        s.push_str(&format!("{:x}", v.ips[i].wrapping_sub(base).wrapping_sub(1)));
    }
    s
}

// a job that does not finish within HANG_SECS is stopped by SIGALRM; the handler prints where it was
unsafe extern "C" {
    fn signal(sig: i32, handler: usize) -> usize;
    fn alarm(secs: u32) -> u32;
    fn write(fd: i32, buf: *const u8, n: usize) -> isize;
    fn _exit(code: i32) -> !;
}
const SIGALRM: i32 = 14;
const HANG_SECS: u32 = 4;
static mut HANG_BUF: [u8; 1024] = [0; 1024];

extern "C" fn on_alarm(_sig: i32) {
    // async-signal-safe: fixed buffer, manual formatting, write(2), _exit
    let mut v = Ips { n: 0, ips: [0; 40] };
    unsafe { _Unwind_Backtrace(trace_cb, &mut v as *mut Ips as *mut std::ffi::c_void); }
    let base = BASE.load(Ordering::Relaxed);
    unsafe {
        let buf = &mut *std::ptr::addr_of_mut!(HANG_BUF);
        let mut k = 0usize;
        for b in b"HANG " { buf[k] = *b; k += 1; }
        for i in 0..v.n {
            if k + 20 > buf.len() { break; }
            if i > 0 { buf[k] = b','; k += 1; }
            let x = v.ips[i].wrapping_sub(base).wrapping_sub(1);
            let mut started = false;
            for sh in (0..16).rev() {
                let d = ((x >> (4 * sh)) & 0xf) as u8;
                if d != 0 || started || sh == 0 { started = true; buf[k] = if d < 10 { b'0' + d } else { b'a' + d - 10 }; k += 1; }
            }
        }
        buf[k] = b'\n'; k += 1;
        write(1, buf.as_ptr(), k);
        _exit(3);
    }
}

fn load_base() {
    let exe = std::env::current_exe().map(|p| p.to_string_lossy().to_string()).unwrap_or_default();
    if let Ok(maps) = std::fs::read_to_string("/proc/self/maps") {
        for l in maps.lines() {
            if l.ends_with(&exe) {
                if let Some(a) = l.split('-').next().and_then(|x| usize::from_str_radix(x, 16).ok()) { BASE.store(a, Ordering::Relaxed); }
                break;
            }
        }
    }
}

/// called by the global allocator (src/alloc.rs) for a request above the limit
pub fn report_alloc(size: usize) {
    if REPORTED.swap(true, Ordering::SeqCst) { return; }
    let msg = format!("HUGE {} {}\n", size, raw_stack());
    let _ = std::io::stdout().write_all(msg.as_bytes());
    let _ = std::io::stdout().flush();
}

fn searches<S: StorageData>(db: &DbImpl<S>, obs: &dbdump::Obs) -> usize {
    let mut n = 0;
    let nodes: Vec<i64> = obs.elems.iter().filter(|e| e.id > 0).map(|e| e.id).take(4).collect();
    for a in &nodes {
        for algo in [SearchQueryAlgorithm::DepthFirst, SearchQueryAlgorithm::BreadthFirst] {
            let q = SearchQuery { algorithm: algo, origin: QueryId::Id(DbId(*a)), destination: QueryId::Id(DbId(0)), limit: 0, offset: 0,
                                  order_by: vec![], conditions: vec![] };
            if let Ok(r) = db.exec(q) { n += r.elements.len(); }
        }
        for b in &nodes {
            let q = SearchQuery { algorithm: SearchQueryAlgorithm::BreadthFirst, origin: QueryId::Id(DbId(*a)), destination: QueryId::Id(DbId(*b)),
                                  limit: 0, offset: 0, order_by: vec![], conditions: vec![] };
            if let Ok(r) = db.exec(q) { n += r.elements.len(); }
        }
    }
    // both counters of every node summed (GraphNode::edge_count, SelectEdgeCountQuery's total) and an edge_count condition
    let node_ids: Vec<QueryId> = obs.elems.iter().filter(|e| e.id > 0).map(|e| QueryId::Id(DbId(e.id))).collect();
    if let Ok(r) = db.exec(SelectEdgeCountQuery { ids: QueryIds::Ids(node_ids), from: true, to: true }) { n += r.elements.len(); }
    if let Some(a) = nodes.first() {
        let q = SearchQuery { algorithm: SearchQueryAlgorithm::BreadthFirst, origin: QueryId::Id(DbId(*a)), destination: QueryId::Id(DbId(0)), limit: 0, offset: 0,
                              order_by: vec![], conditions: vec![QueryCondition { logic: QueryConditionLogic::And, modifier: QueryConditionModifier::None,
                                  data: QueryConditionData::EdgeCount(CountComparison::GreaterThan(1)) }] };
        if let Ok(r) = db.exec(q) { n += r.elements.len(); }
    }
    if let Ok(r) = db.exec(SelectKeyCountQuery(QueryIds::Ids(obs.elems.iter().map(|e| QueryId::Id(DbId(e.id))).collect()))) { n += r.elements.len(); }
    for (a, _) in obs.aliases.iter().take(4) {
        if let Ok(r) = db.exec(SelectValuesQuery { keys: vec![], ids: QueryIds::Ids(vec![QueryId::Alias(a.clone())]) }) { n += r.elements.len(); }
    }
    n
}

fn fnv(s: &str) -> u64 {
    let mut h = 0xcbf29ce484222325u64;
    for b in s.bytes() { h ^= b as u64; h = h.wrapping_mul(0x100000001b3); }
    h
}

fn open_and_read<S: StorageData>(open: impl FnOnce() -> Result<DbImpl<S>, DbError>) -> String {
    match open() {
        Err(e) => format!("ERROR {}", e.description.replace('\n', " ")),
        Ok(db) => {
            let obs = dbdump::observe(&db);
            let n = searches(&db, &obs);
            let dump = dbdump::show_obs(&obs, true);
            let line = format!("OPENS elems={} aliases={} indexes={} read_errors={} searched={} digest={:016x}",
                               obs.elems.len(), obs.aliases.len(), obs.indexes.len(), obs.errors.len(), n, fnv(&dump));
            drop(db);
            line
        }
    }
}

fn install_hook() {
    std::panic::set_hook(Box::new(|info| {
        let was = IN_REPORT.swap(true, Ordering::SeqCst);
        let loc = info.location().map(|l| format!("{}:{}", l.file().rsplit("agdb/src/").next().unwrap_or(l.file()), l.line())).unwrap_or("?".into());
        let msg = if let Some(s) = info.payload().downcast_ref::<&str>() { s.to_string() }
                  else if let Some(s) = info.payload().downcast_ref::<String>() { s.clone() } else { "?".into() };
        // the class is the panic location (file + kind of message); the call chain travels as raw addresses
        let line = format!("PANIC {} | {} | {}\n", loc, msg.replace('\n', " "), raw_stack());
        let _ = std::io::stdout().write_all(line.as_bytes());
        let _ = std::io::stdout().flush();
        IN_REPORT.store(was, Ordering::SeqCst);
    }));
    load_base();
    unsafe { signal(SIGALRM, on_alarm as usize); }
    let lim = RLimit { cur: 2u64 << 30, max: 2u64 << 30 };
    unsafe { setrlimit(RLIMIT_AS, &lim); }
}

/// the storage layer alone (Storage::new through the verification hook wrapper): what the model
/// coq/theories/OpenFile.v covers; on success the length and the first record values
#[cfg(agdb_verif)]
fn storage_open<D: StorageData>(path: &str) -> String {
    match agdb::verif::VStorage::<D>::new(path) {
        Err(e) => format!("ERROR {}", e.description.replace('\n', " ")),
        Ok(st) => {
            let mut s = format!("OPENS len={}", st.len());
            for i in 1..=24u64 {
                if let Ok(size) = st.value_size(i) {
                    match st.value_as_bytes(i) {
                        Ok(b) => s.push_str(&format!(" {}:{}:{:016x}", i, size, fnv_bytes(&b))),
                        Err(_) => s.push_str(&format!(" {}:{}:err", i, size)),
                    }
                }
            }
            drop(st);
            s
        }
    }
}
#[cfg(not(agdb_verif))]
fn storage_open<D: StorageData>(_path: &str) -> String { "ERROR built without the verification hooks".to_string() }

/// C07 above the storage layer: the record store of the damaged file (read through the storage layer alone, on a copy)
/// is printed as `RECS (<index> x<bytes>) ...`, then the file is opened as a database (DbFile)
/// under the allocation limit; `OPENED` is printed when DbImpl::new returned Ok, then the ordered dump is taken.
/// `SKIP <why>`: the storage layer does not open the file, or a live record cannot be read completely (its size passes
/// the lenient check of read_records but reaches beyond the end of the file): no record MAP describes such a storage.
#[cfg(agdb_verif)]
fn db_load(path: &str, limit: usize) -> String {
    use agdb::verif::VStorage;
    let copy = format!("{}.s", path);
    rm(&copy);
    if std::fs::copy(path, &copy).is_err() { return "SKIP copy-failed".to_string(); }
    if std::path::Path::new(&wal_name(path)).exists() { let _ = std::fs::copy(wal_name(path), wal_name(&copy)); }
    let recs = (|| -> Result<String, String> {
        let st = VStorage::<FileStorage>::new(&copy).map_err(|_| "storage-error".to_string())?;
        let bound = st.len() / 16 + 16;
        let mut seen: BTreeSet<u64> = BTreeSet::new();
        let mut work: Vec<u64> = (1..=bound).rev().collect();
        let mut out: BTreeMap<u64, Vec<u8>> = BTreeMap::new();
        // every index below the bound, and every index that occurs as an aligned word of a live record
        while let Some(i) = work.pop() {
            if !seen.insert(i) { continue; }
            if st.value_size(i).is_ok() {
                match st.value_as_bytes(i) {
                    Ok(b) => {
                        for w in b.chunks_exact(8) {
                            let mut x = [0u8; 8]; x.copy_from_slice(w);
                            let v = u64::from_le_bytes(x);
                            if v != 0 && !seen.contains(&v) { work.push(v); }
                        }
                        out.insert(i, b);
                    }
                    Err(_) => return Err("unreadable-record".to_string()),
                }
            }
        }
        let mut s = String::new();
        for (i, b) in &out { s.push_str(&format!(" ({:x} {})", i, hex(b))); }
        std::mem::forget(st);      // no optimize / truncate on drop: the copy is removed
        Ok(s)
    })();
    rm(&copy);
    // the record table sized by a damaged index (known class of the STORAGE layer) was requested: not a load outcome
    if REPORTED.load(Ordering::SeqCst) { return "SKIP storage-table-alloc".to_string(); }
    match recs {
        Err(e) => return format!("SKIP {}", e),
        Ok(line) => { println!("RECS{}", line); let _ = std::io::stdout().flush(); }
    }
    ALLOC_LIMIT.store(limit, Ordering::SeqCst);
    match DbFile::new(path) {
        Err(e) => format!("ERROR {}", e.description.replace('\n', " ")),
        Ok(db) => {
            println!("OPENED"); let _ = std::io::stdout().flush();
            let obs = dbdump::observe(&db);
            let dump = dbdump::show_obs(&obs, false);
            let line = format!("OPENS read_errors={} dump={}", obs.errors.len(), dump);
            drop(db);
            line
        }
    }
}
#[cfg(not(agdb_verif))]
fn db_load(_path: &str, _limit: usize) -> String { "SKIP built without the verification hooks".to_string() }

fn fnv_bytes(bs: &[u8]) -> u64 {
    let mut h = 0xcbf29ce484222325u64;
    for b in bs { h ^= *b as u64; h = h.wrapping_mul(0x100000001b3); }
    h
}

fn one(path: &str, variant: &str, limit: usize) -> String {
    REPORTED.store(false, Ordering::SeqCst);
    ALLOC_LIMIT.store(limit, Ordering::SeqCst);
    unsafe { alarm(HANG_SECS); }
    let p = path.to_string();
    let r = catch_unwind(AssertUnwindSafe(|| match variant {
        "file" => open_and_read(|| DbFile::new(&p)),
        "mapped" => open_and_read(|| Db::new(&p)),
        "memory" => open_and_read(|| DbMemory::new(&p)),
        "any_file" => open_and_read(|| DbAny::new_file(&p)),
        "any_mapped" => open_and_read(|| DbAny::new_mapped(&p)),
        "any_memory" => open_and_read(|| DbAny::new_memory(&p)),
        "dbload" => db_load(&p, limit),
        "storage_file" => storage_open::<FileStorage>(&p),
        "storage_mapped" => storage_open::<FileStorageMemoryMapped>(&p),
        "storage_memory" => storage_open::<MemoryStorage>(&p),
        _ => "ERROR unknown variant".to_string(),
    }));
    unsafe { alarm(0); }
    ALLOC_LIMIT.store(usize::MAX, Ordering::SeqCst);
    match r { Ok(line) => line, Err(_) => "UNWOUND".to_string() }
}

/// one damaged file, one process
pub fn child(path: &str, variant: &str, limit: usize) {
    install_hook();
    println!("{}", one(path, variant, limit));
}

/// worker process: one job per stdin line `<path> <variant> <limit>`; per job any number of PANIC / HUGE lines and
/// then `DONE <result>`.  Panics are caught here; an abort, a failed allocation or a hang ends the process and the
/// parent starts a fresh worker for the next job.
pub fn worker() {
    install_hook();
    let stdin = std::io::stdin();
    let mut line = String::new();
    loop {
        line.clear();
        if stdin.read_line(&mut line).unwrap_or(0) == 0 { break; }
        let parts: Vec<&str> = line.trim().split(' ').collect();
        if parts.len() < 3 { continue; }
        let r = one(parts[0], parts[1], parts[2].parse().unwrap_or(usize::MAX));
        let msg = format!("DONE {}\n", r);
        let _ = std::io::stdout().write_all(msg.as_bytes());
        let _ = std::io::stdout().flush();
    }
}

// ------------------------------------------------------------------------------------------------
// seeds
// ------------------------------------------------------------------------------------------------

fn rm(path: &str) {
    let _ = std::fs::remove_file(path);
    let _ = std::fs::remove_file(wal_name(path));
}

pub fn wal_name(path: &str) -> String {
    match path.rsplit_once('/') { Some((d, n)) => format!("{}/.{}", d, n), None => format!(".{}", path) }
}

fn kv(k: impl Into<DbValue>, v: impl Into<DbValue>) -> DbKeyValue { DbKeyValue { key: k.into(), value: v.into() } }
fn qids(l: &[i64]) -> QueryIds { QueryIds::Ids(l.iter().map(|i| QueryId::Id(DbId(*i))).collect()) }

fn populate(db: &mut DbFile, r: &mut Rng, nodes: usize, rich: bool) {
    let mut ids = vec![];
    for i in 0..nodes {
        let mut vals = vec![kv("name", format!("node{}", i)), kv("n", i as i64)];
        if rich {
            vals.push(kv("f", 1.5f64 * i as f64));
            vals.push(kv(7u64, vec![1i64, -2, i as i64]));
            vals.push(kv(vec![1u8, 2, 3], vec!["a".to_string(), "a string that is longer than fifteen bytes".to_string()]));
            vals.push(kv("long", "x".repeat(20 + i * 3)));
            vals.push(kv("vu", vec![u64::MAX, i as u64]));
            vals.push(kv("vf", vec![0.5f64, -0.0]));
        }
        let aliases = if i % 2 == 0 { vec![format!("alias{}", i)] } else { vec![] };
        let q = InsertNodesQuery { count: if aliases.is_empty() { 1 } else { 0 }, values: QueryValues::Single(vals), aliases, ids: QueryIds::Ids(vec![]) };
        ids.push(db.exec_mut(q).unwrap().elements[0].id.0);
    }
    for i in 0..nodes {
        let (a, b) = (ids[i], ids[(i * 7 + 1) % nodes]);
        let vals = if rich { vec![kv("w", i as u64), kv("label", format!("edge from {} to {}", a, b))] } else { vec![kv("w", i as u64)] };
        db.exec_mut(InsertEdgesQuery { from: qids(&[a]), to: qids(&[b]), values: QueryValues::Single(vals), each: false, ids: QueryIds::Ids(vec![]) }).unwrap();
        if r.chance(1, 3) {
            db.exec_mut(InsertEdgesQuery { from: qids(&[a]), to: qids(&[a]), values: QueryValues::Single(vec![]), each: false, ids: QueryIds::Ids(vec![]) }).unwrap();
        }
    }
    db.exec_mut(InsertIndexQuery("n".into())).unwrap();
    if rich { db.exec_mut(InsertIndexQuery("name".into())).unwrap(); }
}

/// (name, data bytes, optional recovery log bytes)
pub fn build_seeds(dir: &str, r: &mut Rng, many: bool) -> Vec<(String, Vec<u8>, Option<Vec<u8>>)> {
    std::fs::create_dir_all(dir).unwrap();
    let mut seeds = vec![];
    let mut make = |name: &str, f: &mut dyn FnMut(&mut DbFile, &mut Rng), optimize: bool, r: &mut Rng| {
        let path = format!("{}/{}.agdb", dir, name);
        rm(&path);
        let mut db = DbFile::new(&path).unwrap();
        f(&mut db, r);
        if optimize { drop(db); } else { std::mem::forget(db); }
        let data = std::fs::read(&path).unwrap();
        seeds.push((name.to_string(), data, None));
        rm(&path);
    };
    make("empty", &mut |_db, _r| {}, true, r);
    make("small", &mut |db, r| populate(db, r, 3, false), true, r);
    make("rich", &mut |db, r| populate(db, r, 6, true), true, r);
    make("removed", &mut |db, r| {
        populate(db, r, 8, true);
        db.exec_mut(RemoveQuery(qids(&[2, 5]))).unwrap();
        db.exec_mut(RemoveValuesQuery(SelectValuesQuery { keys: vec!["long".into(), "f".into()], ids: qids(&[1, 3]) })).unwrap();
        db.exec_mut(RemoveAliasesQuery(vec!["alias0".into()])).unwrap();
    }, false, r);     // not optimised: free regions and free indexes stay in the file
    make("long", &mut |db, _r| {
        let id = db.exec_mut(InsertNodesQuery { count: 1, values: QueryValues::Single(vec![
            kv("s", "long string ".repeat(40)), kv("b", (0..600).map(|i| i as u8).collect::<Vec<u8>>()),
            kv("vi", (0..100).map(|i| i as i64 - 50).collect::<Vec<i64>>()),
            kv("vs", (0..30).map(|i| "s".repeat(i)).collect::<Vec<String>>()),
            kv("vf", (0..40).map(|i| i as f64 / 3.0).collect::<Vec<f64>>()),
        ]), aliases: vec!["the long one".into()], ids: QueryIds::Ids(vec![]) }).unwrap().elements[0].id.0;
        db.exec_mut(InsertEdgesQuery { from: qids(&[id]), to: qids(&[id]), values: QueryValues::Single(vec![kv("k", "v")]), each: false, ids: QueryIds::Ids(vec![]) }).unwrap();
    }, true, r);
    make("graph", &mut |db, r| populate(db, r, 40, false), true, r);
    if many {
        make("rich-unoptimised", &mut |db, r| { populate(db, r, 10, true); db.exec_mut(RemoveQuery(qids(&[1]))).unwrap(); }, false, r);
        make("aliases", &mut |db, _r| {
            for i in 0..70 { db.exec_mut(InsertNodesQuery { count: 0, values: QueryValues::Single(vec![]), aliases: vec![format!("a{}", i)], ids: QueryIds::Ids(vec![]) }).unwrap(); }
        }, true, r);
        make("indexes", &mut |db, _r| {
            for i in 0..30 { db.exec_mut(InsertNodesQuery { count: 1, values: QueryValues::Single(vec![kv("k", i % 5), kv("s", format!("value number {}", i % 7))]), aliases: vec![], ids: QueryIds::Ids(vec![]) }).unwrap(); }
            db.exec_mut(InsertIndexQuery("k".into())).unwrap();
            db.exec_mut(InsertIndexQuery("s".into())).unwrap();
        }, true, r);
        make("big", &mut |db, r| populate(db, r, 150, true), true, r);
    }
    // a seed with a pending (valid) recovery log: the `small` data plus undo records
    let small = seeds[1].1.clone();
    let mut wal = vec![];
    let cut = small.len() - 16;
    wal.extend((cut as u64).to_le_bytes()); wal.extend(16u64.to_le_bytes()); wal.extend(&small[cut..]);   // restores the tail
    wal.extend(24u64.to_le_bytes()); wal.extend(8u64.to_le_bytes()); wal.extend(&small[24..32]);
    let mut damaged = small.clone();
    damaged.truncate(cut);
    for b in &mut damaged[24..32] { *b = 0xee; }
    seeds.push(("pending-log".to_string(), damaged, Some(wal)));
    seeds
}

// ------------------------------------------------------------------------------------------------
// file structure (for guided mutations)
// ------------------------------------------------------------------------------------------------

#[derive(Clone, Debug)]
pub struct Rec { pub pos: usize, pub index: u64, pub size: u64 }

fn u64_at(d: &[u8], p: usize) -> u64 { let mut b = [0u8; 8]; b.copy_from_slice(&d[p..p + 8]); u64::from_le_bytes(b) }

pub fn parse_records(d: &[u8]) -> Vec<Rec> {
    let mut out = vec![];
    let mut p = 0usize;
    while p + 16 <= d.len() {
        let (index, size) = (u64_at(d, p), u64_at(d, p + 8));
        out.push(Rec { pos: p, index, size });
        let next = (p as u64).saturating_add(16).saturating_add(size);
        if next > d.len() as u64 { break; }
        p = next as usize;
    }
    out
}

#[derive(Clone)]
pub struct Mutation { pub desc: String, pub data: Vec<u8>, pub wal: Option<Vec<u8>> }

fn put64(d: &mut [u8], p: usize, v: u64) { if p + 8 <= d.len() { d[p..p + 8].copy_from_slice(&v.to_le_bytes()); } }

fn special_u64(orig: u64, extra: &[u64]) -> Vec<u64> {
    let mut v = vec![0, 1, 2, orig.wrapping_add(1), orig.wrapping_sub(1), orig.wrapping_add(16), orig.wrapping_add(32), orig.wrapping_add(33),
                     1 << 20, 1 << 27, 1 << 32, 1 << 40, 1 << 61, 1 << 63, (1 << 63) - 1, u64::MAX, u64::MAX - 15, u64::MAX - 23, 0x0fff_ffff_ffff_ffff];
    v.extend_from_slice(extra);
    v.retain(|x| *x != orig);
    v.sort(); v.dedup();
    v
}

/// truncation at every offset of the first `dense` bytes and at `sampled` later offsets
pub fn truncations(seed: &[u8], wal: &Option<Vec<u8>>, dense: usize, sampled: usize, r: &mut Rng) -> Vec<Mutation> {
    let mut offs: BTreeSet<usize> = (0..seed.len().min(dense)).collect();
    for _ in 0..sampled { if seed.len() > dense { offs.insert(r.range(dense as u64, seed.len() as u64 - 1) as usize); } }
    // record boundaries and just around them
    for rec in parse_records(seed) { for d in [0usize, 1, 8, 15, 16, 17] { if rec.pos + d < seed.len() && sampled > 0 { offs.insert(rec.pos + d); } } }
    offs.into_iter().map(|o| Mutation { desc: format!("truncate@{}", o), data: seed[..o].to_vec(), wal: wal.clone() }).collect()
}

/// all guided single-field mutations of the data file
pub fn guided(seed: &[u8], wal: &Option<Vec<u8>>) -> Vec<Mutation> { guided_impl(seed, wal, None).0 }

/// at most `keep` of the guided mutations (a deterministic stride sample over all of them), built without
/// materialising the others (each mutation is a full copy of the file)
pub fn guided_sampled(seed: &[u8], wal: &Option<Vec<u8>>, keep: usize) -> (Vec<Mutation>, usize) {
    let (_, n) = guided_impl(seed, wal, Some(&|_| false));
    if n <= keep { return (guided_impl(seed, wal, None).0, n); }
    let stride = n as f64 / keep as f64;
    let chosen: BTreeSet<usize> = (0..keep).map(|j| (j as f64 * stride) as usize).collect();
    (guided_impl(seed, wal, Some(&|i| chosen.contains(&i))).0, n)
}

fn guided_impl(seed: &[u8], wal: &Option<Vec<u8>>, select: Option<&dyn Fn(usize) -> bool>) -> (Vec<Mutation>, usize) {
    let mut out = vec![];
    let mut count = 0usize;
    let recs = parse_records(seed);
    let len = seed.len() as u64;
    let indexes: Vec<u64> = recs.iter().map(|r| r.index).filter(|i| *i != 0).collect();
    let mut m = |desc: String, f: &dyn Fn(&mut Vec<u8>)| {
        let i = count; count += 1;
        if let Some(sel) = select { if !sel(i) { return; } }
        let mut d = seed.to_vec(); f(&mut d); out.push(Mutation { desc, data: d, wal: wal.clone() });
    };
    for (k, rec) in recs.iter().enumerate() {
        let remaining = len.saturating_sub(rec.pos as u64 + 16);
        // record index
        let mut extra = vec![];
        if let Some(o) = indexes.iter().find(|i| **i != rec.index) { extra.push(*o); }
        extra.push(indexes.iter().max().copied().unwrap_or(0) + 1);
        for v in special_u64(rec.index, &extra) { m(format!("rec{}.index={:#x}", k, v), &|d| put64(d, rec.pos, v)); }
        // record size
        for v in special_u64(rec.size, &[remaining, remaining + 1, remaining + 16, remaining + 17, remaining + 32, remaining + 33, 7, 8, 9, 40, 47, 48]) {
            m(format!("rec{}.size={:#x}", k, v), &|d| put64(d, rec.pos + 8, v));
        }
        if rec.pos + 16 + rec.size as usize > seed.len() { continue; }
        let body = rec.pos + 16;
        // the first u64 of the body: version number, DbVec length prefix, map length, root record field
        if rec.size >= 8 {
            let orig = u64_at(seed, body);
            for v in special_u64(orig, &[(rec.size - 8) / 8, (rec.size - 8) / 8 + 1, (rec.size - 8) / 16 + 1, (rec.size - 8) / 32 + 1]) {
                m(format!("rec{}.word0={:#x}", k, v), &|d| put64(d, body, v));
            }
        }
        // every further u64 word of small records (root record, map records, graph record) and the first words of larger ones
        let words = (rec.size / 8) as usize;
        for w in 1..words.min(if rec.size <= 64 { 8 } else { 6 }) {
            let orig = u64_at(seed, body + 8 * w);
            let mut extra = vec![];
            if let Some(o) = indexes.iter().find(|i| **i != orig) { extra.push(*o); }
            extra.push(indexes.iter().max().copied().unwrap_or(0) + 1);
            extra.push((-(w as i64)) as u64); extra.push(i64::MIN as u64); extra.push(w as u64);
            for v in special_u64(orig, &extra) { m(format!("rec{}.word{}={:#x}", k, w, v), &|d| put64(d, body + 8 * w, v)); }
        }
        // value indexes: 16-byte groups whose byte 15 looks like (type 1..9 << 4 | size)
        let mut off = 8usize;
        let mut done = 0;
        while off + 16 <= rec.size as usize && done < 12 {
            let b15 = seed[body + off + 15];
            if (1..=9).contains(&(b15 >> 4)) {
                for t in [0u8, 10, 13, 15, 1, 2, 4, 5, 6, 9] {
                    if t != b15 >> 4 { m(format!("rec{}.value@{}.type={}", k, off, t), &|d| d[body + off + 15] = (t << 4) | (b15 & 0x0f)); }
                }
                for s in [0u8, 1, 7, 8, 9, 15] {
                    if s != b15 & 0x0f { m(format!("rec{}.value@{}.size={}", k, off, s), &|d| d[body + off + 15] = (b15 & 0xf0) | s); }
                }
                if b15 & 0x0f == 0 {
                    for v in [0u64, 1, 2, 1 << 40, u64::MAX] { m(format!("rec{}.value@{}.index={:#x}", k, off, v), &|d| put64(d, body + off, v)); }
                }
                done += 1;
            }
            off += 16;
        }
        // i64 slots of the graph vectors: negative / huge / self references
        if rec.size >= 24 && rec.size <= 4096 && (rec.size - 8) % 8 == 0 {
            let n = ((rec.size - 8) / 8) as usize;
            for slot in [0usize, 1, 2, n / 2, n.saturating_sub(1)] {
                if slot < n {
                    let p = body + 8 + 8 * slot;
                    for v in [slot as i64, -(slot as i64), 1, -1, i64::MIN, i64::MAX, n as i64, -(n as i64), 1 << 40] {
                        if u64_at(seed, p) != v as u64 { m(format!("rec{}.slot{}={}", k, slot, v), &|d| put64(d, p, v as u64)); }
                    }
                }
            }
        }
    }
    (out, count)
}

pub fn random_damage(seed: &[u8], wal: &Option<Vec<u8>>, n: usize, r: &mut Rng) -> Vec<Mutation> {
    let mut out = vec![];
    if seed.is_empty() { return out; }
    for _ in 0..n {
        let mut d = seed.to_vec();
        let desc = match r.below(5) {
            0 => { let p = r.below(d.len() as u64) as usize; let b = r.below(8); d[p] ^= 1 << b; format!("bitflip@{}.{}", p, b) }
            1 => { let p = r.below(d.len() as u64) as usize; let v = r.next() as u8; d[p] = v; format!("byte@{}={:#x}", p, v) }
            2 => { let p = (r.below(d.len() as u64 / 8 + 1) * 8) as usize; let v = *r.pick(&[0u64, 1, u64::MAX, 1 << 40, 1 << 63, 0xffff_ffff]); put64(&mut d, p, v); format!("word@{}={:#x}", p, v) }
            3 => { let n = r.range(1, 64) as usize; let mut tail: Vec<u8> = (0..n).map(|_| r.next() as u8).collect(); if r.chance(1, 2) { for b in &mut tail { *b = 0; } } d.extend(tail); format!("append{}", n) }
            _ => { let p = r.below(d.len() as u64) as usize; let n = r.range(1, 32) as usize; for i in p..(p + n).min(d.len()) { d[i] = r.next() as u8; } format!("garbage@{}+{}", p, n) }
        };
        out.push(Mutation { desc, data: d, wal: wal.clone() });
    }
    out
}

pub fn log_damage(seed: &[u8], wal: &Option<Vec<u8>>, r: &mut Rng) -> Vec<Mutation> {
    let mut out = vec![];
    let mut m = |desc: &str, w: Vec<u8>| out.push(Mutation { desc: format!("log:{}", desc), data: seed.to_vec(), wal: Some(w) });
    let rec = |pos: u64, size: u64, body: &[u8]| { let mut v = vec![]; v.extend(pos.to_le_bytes()); v.extend(size.to_le_bytes()); v.extend(body); v };
    m("empty", vec![]);
    for n in [1usize, 7, 8, 15, 16, 17, 40] { m(&format!("garbage{}", n), (0..n).map(|_| r.next() as u8).collect()); }
    m("zeros16", vec![0; 16]);
    m("zeros40", vec![0; 40]);
    m("size>rest", rec(0, 100, &[1, 2, 3]));
    m("size=2^63", rec(0, 1 << 63, &[]));
    m("size=max", rec(0, u64::MAX, &[]));
    m("size=-16", rec(0, u64::MAX - 15, &[]));
    m("size=-24", rec(0, u64::MAX - 23, &[9; 8]));
    m("size=-17", rec(5, u64::MAX - 16, &[9; 8]));
    // a size field that seeks back INTO the record: repair keeps going, records() then allocates the size
    for k in [1u64, 7, 8, 9, 15] {
        let mut w = rec(0, u64::MAX - k + 1, &[0; 24]);
        m(&format!("size=-{}+zeros", k), w.clone());
        w.extend(rec(3, 2, &[7, 7]));
        m(&format!("size=-{}+record", k), w);
    }
    m("pos=2^40-write", rec(1 << 40, 4, &[1, 2, 3, 4]));
    m("pos=2^40-truncate", rec(1 << 40, 0, &[]));
    m("pos=2^63-write", rec(1 << 63, 1, &[1]));
    m("pos=max-write", rec(u64::MAX, 1, &[1]));
    m("pos=max-truncate", rec(u64::MAX, 0, &[]));
    m("pos=2^31-truncate", rec(1 << 31, 0, &[]));
    m("truncate0", rec(0, 0, &[]));
    m("truncate17", rec(17, 0, &[]));
    m("truncate-mid", rec(seed.len() as u64 / 2, 0, &[]));
    m("overwrite-head", rec(0, 24, &[0xff; 24]));
    m("overwrite-root", rec(24, 16, &[0xff; 16]));
    let mut two = rec(0, 8, &[0; 8]); two.extend(rec(8, 8, &[1; 8]));
    m("two-records", two.clone());
    for cut in [1usize, 8, 16, 20, 24, 30, 40, 47] { if cut < two.len() { m(&format!("torn{}", cut), two[..cut].to_vec()); } }
    if let Some(w) = wal {
        for cut in 0..w.len() { m(&format!("seedlog-torn{}", cut), w[..cut].to_vec()); }
        for _ in 0..20 { let mut d = w.clone(); let p = r.below(d.len() as u64) as usize; d[p] ^= 1 << r.below(8); m(&format!("seedlog-bitflip@{}", p), d); }
    }
    out
}

pub fn random_files(n: usize, r: &mut Rng) -> Vec<Mutation> {
    let mut out = vec![];
    for i in 0..n {
        let len = match r.below(4) { 0 => r.below(40), 1 => r.range(16, 64), _ => r.below(400) } as usize;
        let mut d: Vec<u8> = (0..len).map(|_| if r.chance(1, 3) { 0 } else { r.next() as u8 }).collect();
        if r.chance(2, 3) && d.len() >= 24 {
            // a plausible head: version record, then a header with a small index / size
            put64(&mut d, 0, 0); put64(&mut d, 8, 8); put64(&mut d, 16, 1);
            if d.len() >= 40 { put64(&mut d, 24, r.below(4)); put64(&mut d, 32, r.below(len as u64)); }
        }
        let wal = if r.chance(1, 4) { Some((0..r.below(40)).map(|_| r.next() as u8).collect()) } else { None };
        out.push(Mutation { desc: format!("random{}", i), data: d, wal });
    }
    out
}

// ------------------------------------------------------------------------------------------------
// parent: run the children, classify
// ------------------------------------------------------------------------------------------------

#[derive(Clone, Debug)]
pub struct Outcome { pub class: String, pub detail: String, pub ips: Vec<u64> }
/// what a `dbload` job printed on the way: the record store, whether DbImpl::new returned Ok
#[derive(Clone, Debug, Default)]
pub struct Extra { pub recs: Option<String>, pub opened: bool, pub skip: Option<String> }
pub fn extras(stdout: &str) -> Extra {
    let mut e = Extra::default();
    for l in stdout.lines() {
        if let Some(r) = l.strip_prefix("RECS") { e.recs = Some(r.to_string()); }
        else if l == "OPENED" { e.opened = true; }
        else if let Some(r) = l.strip_prefix("SKIP ") { e.skip = Some(r.to_string()); }
    }
    e
}

fn slug(s: &str) -> String {
    s.chars().map(|c| if c.is_ascii_alphanumeric() || c == '.' || c == '/' || c == '_' { c } else { '-' }).collect()
}

/// the kind of a panic message: digits dropped, first words kept
fn message_kind(msg: &str) -> String {
    let words: Vec<String> = msg.split(|c: char| !c.is_ascii_alphabetic()).filter(|w| !w.is_empty()).take(6).map(|w| w.to_lowercase()).collect();
    if words.is_empty() { "explicit".to_string() } else { words.join("-") }
}

fn parse_ips(s: &str) -> Vec<u64> { s.trim().split(',').filter_map(|x| u64::from_str_radix(x, 16).ok()).collect() }

pub fn classify(stdout: &str, stderr: &str, status: Option<std::process::ExitStatus>, timed_out: bool) -> Outcome {
    let first = |p: &str| stdout.lines().find(|l| l.starts_with(p)).map(|l| l.to_string());
    if let Some(h) = first("HUGE ") {
        let mut it = h.splitn(3, ' ');
        let (_, size, ips) = (it.next(), it.next().unwrap_or("?"), it.next().unwrap_or(""));
        // the class (alloc-<site>/<caller>) is completed by resolve_sites
        return Outcome { class: "alloc-?".into(), detail: format!("request of {} bytes", size), ips: parse_ips(ips) };
    }
    if let Some(p) = first("PANIC ") {
        let rest = &p[6..];
        let mut it = rest.split(" | ");
        let (loc, msg, ips) = (it.next().unwrap_or("?"), it.next().unwrap_or(""), it.next().unwrap_or(""));
        let file = loc.rsplit('/').next().unwrap_or(loc).split(':').next().unwrap_or(loc).trim_end_matches(".rs");
        return Outcome { class: format!("panic-{}-{}", slug(file), message_kind(msg)), detail: format!("{} | {}", loc, msg), ips: parse_ips(ips) };
    }
    if let Some(h) = first("HANG ") {
        return Outcome { class: "hang-?".into(), detail: format!("no result within {} s", HANG_SECS), ips: parse_ips(&h[5..]) };
    }
    if timed_out { return Outcome { class: "hang-unknown".into(), detail: "no result within the time limit".into(), ips: vec![] }; }
    use std::os::unix::process::ExitStatusExt;
    if let Some(st) = status {
        if let Some(sig) = st.signal() {
            let what = if stderr.contains("memory allocation of") { "alloc-failed" } else if stderr.contains("stack overflow") { "stack-overflow" } else { "signal" };
            return Outcome { class: format!("abort-{}", what), detail: format!("signal {} {}", sig, stderr.lines().last().unwrap_or("")), ips: vec![] };
        }
        if !st.success() { return Outcome { class: "abort-exit".into(), detail: format!("exit status {:?} {}", st.code(), stderr.lines().last().unwrap_or("")), ips: vec![] }; }
    }
    if let Some(l) = first("OPENS") { return Outcome { class: "opens".into(), detail: l, ips: vec![] }; }
    if let Some(l) = first("ERROR") { return Outcome { class: "error".into(), detail: l, ips: vec![] }; }
    if let Some(l) = first("SKIP") { return Outcome { class: "skip".into(), detail: l, ips: vec![] }; }
    Outcome { class: "abort-no-output".into(), detail: stdout.lines().last().unwrap_or("").to_string(), ips: vec![] }
}

/// resolves the raw addresses of all outcomes with one addr2line run; completes the alloc classes and
/// appends the agdb call chain to the details
pub fn resolve_sites(done: &mut [Done]) {
    let exe = std::env::current_exe().unwrap().to_string_lossy().to_string();
    let mut all: BTreeSet<u64> = BTreeSet::new();
    for d in done.iter() { for ip in &d.out.ips { all.insert(*ip); } }
    let mut names: BTreeMap<u64, Vec<String>> = BTreeMap::new();
    let addrs: Vec<u64> = all.into_iter().collect();
    for chunk in addrs.chunks(2000) {
        let mut cmd = Command::new("addr2line");
        cmd.args(["-a", "-f", "-C", "-i", "-e", &exe]);
        for a in chunk { cmd.arg(format!("{:#x}", a)); }
        if let Ok(o) = cmd.output() {
            let text = String::from_utf8_lossy(&o.stdout).to_string();
            let mut cur: Option<u64> = None;
            let mut expect_fn = true;
            for l in text.lines() {
                if let Some(h) = l.strip_prefix("0x") {
                    if let Ok(a) = u64::from_str_radix(h, 16) { cur = Some(a); names.entry(a).or_default(); expect_fn = true; continue; }
                }
                if let Some(a) = cur {
                    if expect_fn { names.get_mut(&a).unwrap().push(l.to_string()); }
                    expect_fn = !expect_fn;
                }
            }
        }
    }
    let mut cache: BTreeMap<Vec<u64>, Vec<String>> = BTreeMap::new();
    for d in done.iter_mut() {
        if d.out.ips.is_empty() { continue; }
        let chain = cache.entry(d.out.ips.clone()).or_insert_with(|| {
            let mut out: Vec<String> = vec![];
            for ip in &d.out.ips {
                for f in names.get(ip).map(|v| v.as_slice()).unwrap_or(&[]) {
                    if f.contains("agdb::") && !f.contains("hx_core::") {
                        let s = simplify(f);
                        if out.last() != Some(&s) { out.push(s); }
                    }
                }
            }
            out
        }).clone();
        if d.out.class.starts_with("panic-") && d.out.detail.starts_with("/rustc/") {
            // the panic is raised inside std (capacity overflow, ...): the site is the innermost agdb function
            let kind = d.out.class.splitn(3, '-').nth(2).unwrap_or("").to_string();
            d.out.class = format!("panic-{}-{}", slug(chain.first().map(|x| x.as_str()).unwrap_or("std")), kind);
        }
        if d.out.class == "hang-?" {
            // where the job was when it was stopped: the outermost agdb function that is not a mere entry point
            const ENTRY: [&str; 16] = ["VStorage.new", "VStorage.with_data", "DbImpl.new", "DbImpl.try_new", "DbImpl.try_new_with_storage", "DbImpl.with_data", "Storage.new", "Storage.with_data",
                "DbImpl.exec", "DbImpl.transaction", "Transaction.exec", "FileStorage.new", "FileStorageMemoryMapped.new", "WriteAheadLog.new",
                "AnyStorage.new", "DbImpl.try_new_any"];
            let site = chain.iter().rev().find(|f| !ENTRY.contains(&f.as_str()) && !f.contains("closure")).cloned().unwrap_or("unknown".to_string());
            d.out.class = format!("hang-{}", slug(&site));
        }
        if d.out.class == "alloc-?" {
            let site = if chain.is_empty() { "unknown".to_string() } else { chain.iter().take(2).cloned().collect::<Vec<_>>().join("/") };
            d.out.class = format!("alloc-{}", slug(&site));
        }
        d.out.detail = format!("{} | chain={}", d.out.detail, chain.iter().take(5).cloned().collect::<Vec<_>>().join("/"));
    }
}

pub fn run_child(exe: &str, path: &str, variant: &str, limit: usize, timeout: Duration, frames: bool) -> Outcome {
    let mut cmd = Command::new(exe);
    if frames { cmd.env("HX_BT", "1"); }
    let mut ch = match cmd.args(["c07-child", path, variant, &limit.to_string()]).stdin(Stdio::null()).stdout(Stdio::piped()).stderr(Stdio::piped()).spawn() {
        Ok(c) => c, Err(e) => return Outcome { class: "spawn-failed".into(), detail: e.to_string(), ips: vec![] } };
    let t0 = Instant::now();
    let mut timed_out = false;
    let status = loop {
        match ch.try_wait() {
            Ok(Some(st)) => break Some(st),
            Ok(None) => {
                if t0.elapsed() > timeout { let _ = ch.kill(); let _ = ch.wait(); timed_out = true; break None; }
                std::thread::sleep(Duration::from_micros(if t0.elapsed() < Duration::from_millis(20) { 300 } else { 3000 }));
            }
            Err(_) => break None,
        }
    };
    use std::io::Read;
    let (mut so, mut se) = (String::new(), String::new());
    if let Some(mut o) = ch.stdout.take() { let mut b = vec![]; let _ = o.read_to_end(&mut b); so = String::from_utf8_lossy(&b).to_string(); }
    if let Some(mut e) = ch.stderr.take() { let mut b = vec![]; let _ = e.read_to_end(&mut b); se = String::from_utf8_lossy(&b).to_string(); }
    classify(&so, &se, status, timed_out)
}

pub struct Job { pub seed: String, pub m: Arc<Mutation>, pub variant: String }
pub struct Done { pub extra: Extra, pub seed: String, pub desc: String, pub variant: String, pub data_len: usize, pub wal_len: Option<usize>, pub out: Outcome, pub m: Option<Arc<Mutation>> }

pub fn alloc_limit(data_len: usize, wal_len: usize) -> usize { (1 << 16) + 1024 * (data_len + wal_len) }

struct Worker { child: std::process::Child, stdin: std::process::ChildStdin, rx: std::sync::mpsc::Receiver<String> }

fn spawn_worker(exe: &str) -> Worker {
    let mut child = Command::new(exe).arg("c07-worker").env("RUST_BACKTRACE", "0").stdin(Stdio::piped()).stdout(Stdio::piped()).stderr(Stdio::piped()).spawn().expect("worker");
    let stdin = child.stdin.take().unwrap();
    let stdout = child.stdout.take().unwrap();
    let (tx, rx) = std::sync::mpsc::channel();
    std::thread::spawn(move || {
        use std::io::BufRead;
        for l in std::io::BufReader::new(stdout).lines() { match l { Ok(l) => { if tx.send(l).is_err() { break; } } Err(_) => break } }
    });
    Worker { child, stdin, rx }
}

/// runs one job on the worker; returns the outcome and whether the worker is still usable
fn run_on_worker(w: &mut Worker, path: &str, variant: &str, limit: usize, timeout: Duration) -> (Outcome, bool, Extra) {
    use std::io::Read;
    if w.stdin.write_all(format!("{} {} {}\n", path, variant, limit).as_bytes()).is_err() || w.stdin.flush().is_err() {
        return (Outcome { class: "spawn-failed".into(), detail: "worker not accepting input".into(), ips: vec![] }, false, Extra::default());
    }
    let t0 = Instant::now();
    let mut lines = String::new();
    loop {
        let left = timeout.checked_sub(t0.elapsed()).unwrap_or(Duration::from_millis(0));
        match w.rx.recv_timeout(left) {
            Ok(l) => {
                if let Some(rest) = l.strip_prefix("DONE ") { lines.push_str(rest); lines.push('\n'); let ex = if variant == "dbload" { extras(&lines) } else { Extra::default() }; return (classify(&lines, "", None, false), true, ex); }
                lines.push_str(&l); lines.push('\n');
            }
            Err(std::sync::mpsc::RecvTimeoutError::Timeout) => {
                let _ = w.child.kill(); let _ = w.child.wait();
                let ex = if variant == "dbload" { extras(&lines) } else { Extra::default() };
                return (classify(&lines, "", None, true), false, ex);
            }
            Err(std::sync::mpsc::RecvTimeoutError::Disconnected) => {
                let status = w.child.wait().ok();
                let mut se = String::new();
                if let Some(mut e) = w.child.stderr.take() { let mut b = vec![]; let _ = e.read_to_end(&mut b); se = String::from_utf8_lossy(&b).to_string(); }
                let ex = if variant == "dbload" { extras(&lines) } else { Extra::default() };
                return (classify(&lines, &se, status, false), false, ex);
            }
        }
    }
}

pub fn run_jobs(jobs: Vec<Job>, work: &str, threads: usize, timeout: Duration) -> Vec<Done> {
    std::fs::create_dir_all(work).unwrap();
    let exe = std::env::current_exe().unwrap().to_string_lossy().to_string();
    let mut jobs = jobs.into_iter().enumerate().collect::<Vec<_>>();
    jobs.reverse();
    let queue = Arc::new(Mutex::new(jobs));
    let done = Arc::new(Mutex::new(Vec::<(usize, Done)>::new()));
    let mut hs = vec![];
    for t in 0..threads {
        let (queue, done, exe, work) = (queue.clone(), done.clone(), exe.clone(), work.to_string());
        hs.push(std::thread::spawn(move || {
            let mut w = spawn_worker(&exe);
            loop {
                let item = queue.lock().unwrap().pop();
                let Some((k, job)) = item else { break };
                let path = format!("{}/t{}.agdb", work, t);
                rm(&path);
                std::fs::write(&path, &job.m.data).unwrap();
                if let Some(wl) = &job.m.wal { std::fs::write(wal_name(&path), wl).unwrap(); }
                let lim = alloc_limit(job.m.data.len(), job.m.wal.as_ref().map(|w| w.len()).unwrap_or(0));
                let (out, alive, extra) = run_on_worker(&mut w, &path, &job.variant, lim, timeout);
                if !alive { let _ = w.child.kill(); let _ = w.child.wait(); w = spawn_worker(&exe); }
                rm(&path);
                rm(&format!("{}.s", path));
                done.lock().unwrap().push((k, Done { extra, seed: job.seed, desc: job.m.desc.clone(), variant: job.variant.clone(), data_len: job.m.data.len(),
                                                     wal_len: job.m.wal.as_ref().map(|w| w.len()),
                                                     // the bytes are kept only where the report needs them: small inputs (model correspondence) and failures (witness files)
                                                     m: if (job.variant == "dbload" && job.m.data.len() <= 4096) || (job.m.data.len() <= MODEL_MAX_LEN && job.m.wal.as_ref().map(|w| w.len()).unwrap_or(0) <= MODEL_MAX_LEN) || (out.class != "opens" && out.class != "error") { Some(job.m.clone()) } else { None },
                                                     out }));
            }
            let _ = w.child.kill(); let _ = w.child.wait();
        }));
    }
    for h in hs { let _ = h.join(); }
    let mut v = std::mem::take(&mut *done.lock().unwrap());
    v.sort_by_key(|(k, _)| *k);
    v.into_iter().map(|(_, d)| d).collect()
}

pub struct Report {
    pub oracle: Vec<String>,
    pub stats: BTreeMap<String, u64>,
    pub samples: Vec<String>,
    pub evaluations: u64,
    pub nontrivial: u64,
    pub cases: Vec<String>,
    pub imp: Vec<String>,
    // C07 above the storage layer: record store -> load_outcome vs DbFile::new + dump
    pub cases_db: Vec<String>,
    pub imp_db: Vec<String>,
    pub desc_db: Vec<String>,
    pub desc_db_skipped: Vec<String>,
}

/// a storage (not a database) with a few records, a free region and a free index: built through the hook wrapper
#[cfg(agdb_verif)]
fn tiny_storage(dir: &str) -> Vec<u8> {
    let path = format!("{}/tiny.agdb", dir);
    rm(&path);
    {
        let mut st = agdb::verif::VStorage::<FileStorage>::new(&path).unwrap();
        let a = st.insert_bytes(&[1, 2, 3, 4, 5, 6, 7, 8, 9, 10, 11, 12]).unwrap();
        let _b = st.insert_bytes(&[0xaa; 40]).unwrap();
        let _c = st.insert_bytes(&[]).unwrap();
        let _d = st.insert_bytes(&[0x55; 17]).unwrap();
        st.remove(a).unwrap();
        std::mem::forget(st);
    }
    let d = std::fs::read(&path).unwrap();
    rm(&path);
    d
}
#[cfg(not(agdb_verif))]
fn tiny_storage(_dir: &str) -> Vec<u8> { vec![] }

const STORAGE_VARIANTS: [&str; 3] = ["storage_file", "storage_mapped", "storage_memory"];
const MODEL_MAX_LEN: usize = 1200;
/// inputs up to this length are also run as `dbload` jobs (the record store travels as text)
pub const DB_MODEL_MAX_LEN: usize = 65536;

pub fn run(seed: u64, out: &str, thorough: bool, threads: usize, variants: &[String], corpus: &str, guided_per_seed: usize, guards: &str, dbload: bool) -> Report {
    let mut r = Rng::new(seed);
    let seeds = build_seeds(&format!("{}/seeds", out), &mut r, thorough);
    let mut jobs: Vec<Job> = vec![];
    let mut stats: BTreeMap<String, u64> = BTreeMap::new();
    // the jobs of one seed file are run and dropped before the next seed's mutations are built (each mutation is a full copy of the file)
    let work = if std::path::Path::new("/dev/shm").is_dir() { format!("/dev/shm/hx_c07_{}", std::process::id()) } else { format!("{}/work", out) };
    let mut done: Vec<Done> = vec![];
    let mut total = 0usize;
    for (name, data, wal) in &seeds {
        let mut ms = truncations(data, wal, 512, if thorough { 600 } else { 60 }, &mut r);
        // a deterministic sample that still covers every kind of field; bounded by memory too (each mutation is a copy of the file)
        let guided_per_seed = (if thorough { guided_per_seed.max(12000) } else { guided_per_seed }).min(((1usize << 30) / data.len().max(1)).max(300));
        let (g, available) = guided_sampled(data, wal, guided_per_seed);
        *stats.entry(format!("guided-available:{}", name)).or_insert(0) += available as u64;
        ms.extend(g);
        ms.extend(random_damage(data, wal, if thorough { 2000 } else { 60 }, &mut r));
        if name == "small" || name == "empty" || name == "pending-log" || (thorough && name != "big") { ms.extend(log_damage(data, wal, &mut r)); }
        // memory: every mutation is a full copy of the file; a large seed keeps a deterministic stride sample (<= ~2 GB of copies)
        let budget = (2usize << 30) / data.len().max(1);
        if ms.len() > budget.max(500) {
            let keep = budget.max(500);
            let stride = ms.len() as f64 / keep as f64;
            let mut out_ms = Vec::with_capacity(keep);
            let mut x = 0.0f64;
            let mut taken = 0usize;
            let mut it = ms.into_iter().enumerate();
            while let Some((i, m)) = it.next() { if i == x as usize && taken < keep { out_ms.push(m); taken += 1; x += stride; while (x as usize) <= i { x += stride; } } }
            *stats.entry(format!("mutations-sampled-down:{}", name)).or_insert(0) += taken as u64;
            ms = out_ms;
        }
        for m in ms {
            let m = Arc::new(m);
            for v in variants { jobs.push(Job { seed: name.clone(), m: m.clone(), variant: v.clone() }); }
            if dbload && m.data.len() <= DB_MODEL_MAX_LEN && m.wal.as_ref().map(|w| w.len()).unwrap_or(0) <= DB_MODEL_MAX_LEN {
                jobs.push(Job { seed: name.clone(), m: m.clone(), variant: "dbload".to_string() });
            }
            // the storage layer alone, for the model correspondence (small inputs: they travel as text)
            if m.data.len() <= MODEL_MAX_LEN && m.wal.as_ref().map(|w| w.len()).unwrap_or(0) <= MODEL_MAX_LEN {
                for v in STORAGE_VARIANTS { jobs.push(Job { seed: name.clone(), m: m.clone(), variant: v.to_string() }); }
            }
        }
        total += jobs.len();
        done.extend(run_jobs(std::mem::take(&mut jobs), &work, threads, Duration::from_secs(8)));
    }
    // a plain storage with records, a free region and a free index: storage layer only
    let tiny = tiny_storage(&format!("{}/seeds", out));
    if !tiny.is_empty() {
        let mut ms = truncations(&tiny, &None, 512, 0, &mut r);
        ms.extend(guided(&tiny, &None));
        ms.extend(random_damage(&tiny, &None, if thorough { 3000 } else { 200 }, &mut r));
        ms.extend(log_damage(&tiny, &None, &mut r));
        ms.push(Mutation { desc: "intact".into(), data: tiny.clone(), wal: None });
        for m in ms { let m = Arc::new(m); for v in STORAGE_VARIANTS { jobs.push(Job { seed: "tiny-storage".into(), m: m.clone(), variant: v.to_string() }); } }
    }
    for m in random_files(if thorough { 20000 } else { 150 }, &mut r) {
        let m = Arc::new(m);
        for v in variants { jobs.push(Job { seed: "random".into(), m: m.clone(), variant: v.clone() }); }
        for v in STORAGE_VARIANTS { jobs.push(Job { seed: "random".into(), m: m.clone(), variant: v.to_string() }); }
        if dbload { jobs.push(Job { seed: "random".into(), m: m.clone(), variant: "dbload".to_string() }); }
    }
    // regression corpus: every stored witness through every variant
    if let Ok(rd) = std::fs::read_dir(corpus) {
        let mut names: Vec<String> = rd.filter_map(|e| e.ok()).map(|e| e.file_name().to_string_lossy().to_string()).filter(|n| n.ends_with(".bin")).collect();
        names.sort();
        for n in names {
            let data = std::fs::read(format!("{}/{}", corpus, n)).unwrap_or_default();
            let wal = std::fs::read(format!("{}/{}", corpus, n.replace(".bin", ".wal"))).ok();
            let m = Arc::new(Mutation { desc: n.clone(), data: data.clone(), wal: wal.clone() });
            for v in variants { jobs.push(Job { seed: "corpus".into(), m: m.clone(), variant: v.clone() }); }
            if dbload && data.len() <= DB_MODEL_MAX_LEN { jobs.push(Job { seed: "corpus".into(), m: m.clone(), variant: "dbload".to_string() }); }
        }
    }
    total += jobs.len();
    done.extend(run_jobs(jobs, &work, threads, Duration::from_secs(8)));
    let _ = std::fs::remove_dir_all(&work);
    resolve_sites(&mut done);
    let mut rep = Report { oracle: vec![], stats, samples: vec![], evaluations: total as u64, nontrivial: 0, cases: vec![], imp: vec![], cases_db: vec![], imp_db: vec![], desc_db: vec![], desc_db_skipped: vec![] };
    let mut witness: BTreeMap<String, (usize, String)> = BTreeMap::new();
    let wdir = format!("{}/witness", out);
    let _ = std::fs::remove_dir_all(&wdir);
    std::fs::create_dir_all(&wdir).unwrap();
    let mut distinct = BTreeSet::new();
    let mut all_fail: Vec<String> = vec![];
    for d in &done {
        let kind = d.desc.split(|c| c == '@' || c == '=' || c == ':').next().unwrap_or("").trim_end_matches(char::is_numeric).to_string();
        *rep.stats.entry(format!("{}:{}", d.variant, d.out.class.split('-').next().unwrap_or(""))).or_insert(0) += 1;
        *rep.stats.entry(format!("mutation:{}", if d.desc.starts_with("rec") { d.desc.split('.').nth(1).unwrap_or("").split(|c: char| c == '=' || c == '@' || c.is_ascii_digit()).next().unwrap_or("").to_string() } else { kind })).or_insert(0) += 1;
        // non-trivial: the damaged file still got past the storage layer in some variant (opened) or failed beyond the header
        if d.out.class == "opens" && d.seed != "random" && distinct.insert((d.seed.clone(), d.desc.clone())) { rep.nontrivial += 1; }
        if d.variant == "dbload" {
            // the database level: record store -> extracted load_outcome, against DbFile::new (+ ordered dump)
            if d.out.class == "skip" || d.extra.recs.is_none() {
                let why = d.extra.skip.clone().unwrap_or_else(|| d.out.class.split('-').next().unwrap_or("").to_string());
                *rep.stats.entry(format!("dbload-skip:{}", why)).or_insert(0) += 1;
                if d.extra.skip.is_none() && rep.desc_db_skipped.len() < 40 { rep.desc_db_skipped.push(format!("{} seed={} mutation={} data_len={} : {}", d.out.class, d.seed, d.desc, d.data_len, d.out.detail)); }
                continue;
            }
            // the record table's own allocation class belongs to the storage layer (known class): not a load outcome
            if d.out.class.starts_with("alloc-StorageRecords") { *rep.stats.entry("dbload-skip:storage-table-alloc".to_string()).or_insert(0) += 1; continue; }
            let read = |d: &Done| -> String {
                if d.out.class == "opens" {
                    let det = &d.out.detail;
                    let n = det.split("read_errors=").nth(1).and_then(|x| x.split(' ').next()).unwrap_or("?").to_string();
                    let dump = det.split(" dump=").nth(1).unwrap_or("").split(" | chain=").next().unwrap_or("").to_string();
                    if n == "0" { format!("db {}", dump) } else { format!("errors:{} db {}", n, dump) }
                } else { d.out.class.clone() }
            };
            let line = if d.extra.opened { format!("open=opens read={}", read(d)) } else { format!("open={} read=-", d.out.class) };
            rep.cases_db.push(format!("lo load 1{}", d.extra.recs.as_ref().unwrap()));
            rep.imp_db.push(line);
            let file_hex = match &d.m { Some(m) if m.data.len() <= 4096 => format!("{} log={}", hex(&m.data), m.wal.as_ref().map(|w| hex(w)).unwrap_or("-".into())), _ => format!("({} bytes)", d.data_len) };
            rep.desc_db.push(format!("seed={} mutation={} data_len={} detail={} file={}", d.seed, d.desc, d.data_len, d.out.detail.chars().take(300).collect::<String>(), file_hex));
            *rep.stats.entry("dbload-cases".to_string()).or_insert(0) += 1;
            continue;
        }
        // model correspondence input: storage layer outcome for data + log (hex), per variant kind
        if let Some(be) = d.variant.strip_prefix("storage_") {
            rep.cases.push(format!("open o {} {} {} {}", guards, be, hex(&d.m.as_ref().unwrap().data), d.m.as_ref().unwrap().wal.as_ref().map(|w| hex(w)).unwrap_or("-".into())));
            rep.imp.push(match d.out.class.as_str() {
                "opens" => d.out.detail.to_lowercase(),
                "error" => "error".to_string(),
                c if c.starts_with("panic-") => "panic".to_string(),
                c if c.starts_with("alloc-StorageRecords.set_record") => "alloc-table".to_string(),
                c if c.starts_with("alloc-") => "alloc-buffer".to_string(),
                c if c.starts_with("hang") => "hang".to_string(),
                c => c.to_string(),
            });
            *rep.stats.entry("model-cases".to_string()).or_insert(0) += 1;
        }
        if d.out.class != "opens" && d.out.class != "error" {
            let key = format!("{}", d.out.class);
            let size = d.data_len + d.wal_len.unwrap_or(0);
            let better = witness.get(&key).map(|(s, _)| size < *s).unwrap_or(true);
            if better {
                let base = format!("{}/{}", wdir, slug(&key).replace('/', "_"));
                std::fs::write(format!("{}.bin", base), &d.m.as_ref().unwrap().data).unwrap();
                let _ = std::fs::remove_file(format!("{}.wal", base));
                if let Some(w) = &d.m.as_ref().unwrap().wal { std::fs::write(format!("{}.wal", base), w).unwrap(); }
                witness.insert(key.clone(), (size, format!("seed={} mutation={} variant={} data_len={} log_len={:?} : {}", d.seed, d.desc, d.variant, d.data_len, d.wal_len, d.out.detail)));
            }
            all_fail.push(format!("{} seed={} mutation={} variant={} : {}", d.out.class, d.seed, d.desc, d.variant, d.out.detail));
            *rep.stats.entry(format!("crash:{}", d.out.class)).or_insert(0) += 1;
            let cnt = rep.stats[&format!("crash:{}", d.out.class)];
            if cnt <= 3 {
                let file_hex = if d.data_len <= 256 { hex(&d.m.as_ref().unwrap().data) } else { format!("({} bytes)", d.data_len) };
                rep.oracle.push(format!("{} seed={} mutation={} variant={} data_len={} log={} : {} file={}", d.out.class, d.seed, d.desc, d.variant, d.data_len,
                                        d.m.as_ref().unwrap().wal.as_ref().map(|w| hex(w)).unwrap_or("-".into()), d.out.detail, file_hex));
            }
        }
    }
    for (k, (_, w)) in &witness { rep.samples.push(format!("{} <- {}", k, w)); }
    crate::write_lines(&format!("{}/failures_all.txt", out), &all_fail);
    rep
}
