// dbdump.rs — full observation of a database through its public query API, in the
// format of extract/m_db.ml `dump`, plus the state invariants that the properties
// C08–C11 demand of every reachable state (evaluated on the implementation).
use crate::dbq::*;
use crate::sexp::hex;
use agdb::*;
use std::collections::{BTreeMap, BTreeSet};

pub struct ElemObs {
    pub id: i64,
    pub from: i64,
    pub to: i64,
    pub alias: Option<String>,
    pub out: Vec<i64>,
    pub inn: Vec<i64>,
    pub cnt_from: u64,
    pub cnt_to: u64,
    pub kvs: Vec<DbKeyValue>,
}

pub struct IndexObs {
    pub key: DbValue,
    pub count: u64,
    pub per_value: Vec<(DbValue, Vec<i64>)>,
}

pub struct Obs {
    pub node_count: u64,
    pub elems: Vec<ElemObs>,
    pub aliases: Vec<(String, i64)>,
    pub indexes: Vec<IndexObs>,
    pub errors: Vec<String>,
}

fn ids_of(r: Result<QueryResult, DbError>, errs: &mut Vec<String>, what: &str) -> Vec<i64> {
    match r {
        Ok(res) => res.elements.iter().map(|e| e.id.0).collect(),
        Err(e) => { errs.push(format!("{}: {}", what, e.description)); vec![] }
    }
}

fn dist1() -> Vec<QueryCondition> {
    vec![QueryCondition { logic: QueryConditionLogic::And, modifier: QueryConditionModifier::None,
                          data: QueryConditionData::Distance(CountComparison::Equal(1)) }]
}

pub fn observe<S: StorageData>(db: &DbImpl<S>) -> Obs {
    let mut errors = vec![];
    let node_count = db.exec(SelectNodeCountQuery {}).map(|r| r.result).unwrap_or_else(|e| { errors.push(format!("node_count: {}", e.description)); 0 });
    let all = db.exec(SearchQuery { algorithm: SearchQueryAlgorithm::Elements, origin: QueryId::Id(DbId(0)), destination: QueryId::Id(DbId(0)),
                                    limit: 0, offset: 0, order_by: vec![], conditions: vec![] });
    let mut elems = vec![];
    match all {
        Err(e) => errors.push(format!("elements: {}", e.description)),
        Ok(res) => {
            for e in &res.elements {
                let id = e.id.0;
                let kvs = match db.exec(SelectValuesQuery { keys: vec![], ids: QueryIds::Ids(vec![QueryId::Id(DbId(id))]) }) {
                    Ok(r) => r.elements.first().map(|x| x.values.clone()).unwrap_or_default(),
                    Err(er) => { errors.push(format!("values {}: {}", id, er.description)); vec![] }
                };
                let alias = match db.exec(SelectAliasesQuery(QueryIds::Ids(vec![QueryId::Id(DbId(id))]))) {
                    Ok(r) => r.elements.first().and_then(|x| x.values.first()).map(|kv| kv.value.to_string()),
                    Err(_) => None,
                };
                let (out, inn) = if id > 0 {
                    let o = ids_of(db.exec(SearchQuery { algorithm: SearchQueryAlgorithm::BreadthFirst, origin: QueryId::Id(DbId(id)),
                        destination: QueryId::Id(DbId(0)), limit: 0, offset: 0, order_by: vec![], conditions: dist1() }), &mut errors, "out");
                    let i = ids_of(db.exec(SearchQuery { algorithm: SearchQueryAlgorithm::BreadthFirst, origin: QueryId::Id(DbId(0)),
                        destination: QueryId::Id(DbId(id)), limit: 0, offset: 0, order_by: vec![], conditions: dist1() }), &mut errors, "in");
                    (o, i)
                } else { (vec![], vec![]) };
                let cnt = |from: bool, to: bool, errors: &mut Vec<String>| -> u64 {
                    match db.exec(SelectEdgeCountQuery { ids: QueryIds::Ids(vec![QueryId::Id(DbId(id))]), from, to }) {
                        Ok(r) => r.result,
                        Err(er) => { errors.push(format!("edge_count {}: {}", id, er.description)); 0 }
                    }
                };
                let (cnt_from, cnt_to) = if id > 0 { (cnt(true, false, &mut errors), cnt(false, true, &mut errors)) } else { (0, 0) };
                elems.push(ElemObs { id, from: e.from.0, to: e.to.0, alias, out, inn, cnt_from, cnt_to, kvs });
            }
        }
    }
    let aliases = match db.exec(SelectAllAliasesQuery {}) {
        Ok(r) => r.elements.iter().map(|e| (e.values.first().map(|kv| kv.value.to_string()).unwrap_or_default(), e.id.0)).collect(),
        Err(e) => { errors.push(format!("aliases: {}", e.description)); vec![] }
    };
    let mut indexes = vec![];
    match db.exec(SelectIndexesQuery {}) {
        Err(e) => errors.push(format!("indexes: {}", e.description)),
        Ok(r) => {
            for kv in r.elements.first().map(|e| e.values.clone()).unwrap_or_default() {
                let key = kv.key.clone();
                let count = kv.value.to_u64().unwrap_or(u64::MAX);
                let mut present: Vec<DbValue> = vec![];
                for e in &elems {
                    for x in &e.kvs {
                        if x.key == key && !present.contains(&x.value) { present.push(x.value.clone()); }
                    }
                }
                let mut per_value = vec![];
                for v in present {
                    let s = SearchQuery { algorithm: SearchQueryAlgorithm::Index, origin: QueryId::Id(DbId(0)), destination: QueryId::Id(DbId(0)),
                        limit: 0, offset: 0, order_by: vec![],
                        conditions: vec![QueryCondition { logic: QueryConditionLogic::And, modifier: QueryConditionModifier::None,
                            data: QueryConditionData::KeyValue(KeyValueComparison { key: key.clone(), value: Comparison::Equal(v.clone()) }) }] };
                    let mut ids = ids_of(db.exec(s), &mut errors, "index search");
                    ids.sort();
                    per_value.push((v, ids));
                }
                indexes.push(IndexObs { key, count, per_value });
            }
        }
    }
    Obs { node_count, elems, aliases, indexes, errors }
}

fn zl(l: &[i64]) -> String { l.iter().map(|z| ihex_pub(*z)).collect::<Vec<_>>().join(",") }

pub fn show_obs(o: &Obs, normalise: bool) -> String {
    let mut s = format!("nc={:x}", o.node_count);
    for e in &o.elems {
        let mut kvs: Vec<String> = e.kvs.iter().map(show_kv).collect();
        if normalise { kvs.sort(); }
        s.push_str(&format!(" | {}", ihex_pub(e.id)));
        let alias = e.alias.as_ref().map(|a| hex(a.as_bytes())).unwrap_or("-".into());
        if e.id > 0 {
            let (mut out, mut inn) = (e.out.clone(), e.inn.clone());
            if normalise { out.sort(); inn.sort(); }
            s.push_str(&format!(" a={} out=[{}] in=[{}] c={:x}/{:x}", alias, zl(&out), zl(&inn), e.cnt_from, e.cnt_to));
        } else {
            s.push_str(&format!(" f={} t={}", ihex_pub(e.from), ihex_pub(e.to)));
            if alias != "-" { s.push_str(&format!(" a={}", alias)); }
        }
        s.push_str(&format!(" kv=[{}]", kvs.join(" ")));
    }
    let mut al: Vec<String> = o.aliases.iter().map(|(a, id)| format!("{}={}", hex(a.as_bytes()), ihex_pub(*id))).collect();
    al.sort();
    s.push_str(&format!(" || aliases {}", al.join(" ")));
    let mut idx: Vec<String> = o.indexes.iter().map(|ix| {
        let mut per: Vec<(String, String)> = ix.per_value.iter().map(|(v, ids)| (show_value(v), zl(ids))).collect();
        per.sort();
        format!("idx {} n={} {{{}}}", show_value(&ix.key), ix.count, per.iter().map(|(a, b)| format!("{}:{}", a, b)).collect::<Vec<_>>().join(";"))
    }).collect();
    if normalise { idx.sort(); }
    s.push_str(&format!(" || {}", idx.join(" ")));
    s
}

// State invariants demanded by C08 (graph), C09 (kv), C10 (aliases), C11 (indexes).
// Returns (class, message) per violated invariant.
pub fn invariants(o: &Obs) -> Vec<(String, String)> {
    let mut bad = vec![];
    for e in &o.errors { bad.push(("read-error".to_string(), e.clone())); }
    let nodes: BTreeSet<i64> = o.elems.iter().filter(|e| e.id > 0).map(|e| e.id).collect();
    let edges: BTreeMap<i64, (i64, i64)> = o.elems.iter().filter(|e| e.id < 0).map(|e| (e.id, (e.from, e.to))).collect();
    if o.node_count != nodes.len() as u64 {
        bad.push(("graph-node-count".into(), format!("node_count {} but {} nodes exist", o.node_count, nodes.len())));
    }
    let mut slots = BTreeSet::new();
    for e in &o.elems {
        if !slots.insert(e.id.abs()) { bad.push(("graph-id-shared".into(), format!("id magnitude {} used twice", e.id.abs()))); }
    }
    for (id, (f, t)) in &edges {
        if !nodes.contains(f) || !nodes.contains(t) {
            bad.push(("graph-dangling-edge".into(), format!("edge {} connects {}->{} but an endpoint is not an existing node", id, f, t)));
        }
    }
    for e in o.elems.iter().filter(|e| e.id > 0) {
        let mut exp_out: Vec<i64> = edges.iter().filter(|(_, (f, _))| *f == e.id).map(|(id, _)| *id).collect();
        let mut exp_in: Vec<i64> = edges.iter().filter(|(_, (_, t))| *t == e.id).map(|(id, _)| *id).collect();
        let (mut out, mut inn) = (e.out.clone(), e.inn.clone());
        out.sort(); inn.sort(); exp_out.sort(); exp_in.sort();
        if out != exp_out { bad.push(("graph-out-list".into(), format!("node {} outgoing {:?} expected {:?}", e.id, out, exp_out))); }
        if inn != exp_in { bad.push(("graph-in-list".into(), format!("node {} incoming {:?} expected {:?}", e.id, inn, exp_in))); }
        if e.cnt_from != exp_out.len() as u64 || e.cnt_to != exp_in.len() as u64 {
            bad.push(("graph-edge-count".into(), format!("node {} reports edge counts from={} to={} but has {} outgoing and {} incoming edges", e.id, e.cnt_from, e.cnt_to, exp_out.len(), exp_in.len())));
        }
    }
    // aliases: one-to-one onto existing nodes, and agree with per-element lookup
    let mut seen_ids = BTreeSet::new();
    let mut seen_al = BTreeSet::new();
    for (a, id) in &o.aliases {
        if !nodes.contains(id) {
            let cls = if *id < 0 { "alias-on-edge" } else { "alias-dangling" };
            bad.push((cls.into(), format!("alias {:?} names {} which is not an existing node", a, id)));
        }
        if !seen_ids.insert(*id) { bad.push(("alias-two-per-node".into(), format!("element {} has two aliases", id))); }
        if !seen_al.insert(a.clone()) { bad.push(("alias-duplicate".into(), format!("alias {:?} listed twice", a))); }
        if a.is_empty() { bad.push(("alias-empty".into(), "empty alias present".into())); }
    }
    for e in &o.elems {
        let listed = o.aliases.iter().find(|(_, id)| *id == e.id).map(|(a, _)| a.clone());
        if listed != e.alias {
            bad.push(("alias-mismatch".into(), format!("element {}: alias listing {:?} vs lookup {:?}", e.id, listed, e.alias)));
        }
    }
    // properties: distinct keys per element
    for e in &o.elems {
        for (i, x) in e.kvs.iter().enumerate() {
            if e.kvs[..i].iter().any(|y| y.key == x.key) {
                bad.push(("kv-duplicate-key".into(), format!("element {} has key {} twice", e.id, show_value(&x.key))));
            }
        }
    }
    // indexes: exact
    for ix in &o.indexes {
        let mut expected: BTreeMap<String, Vec<i64>> = BTreeMap::new();
        let mut total = 0u64;
        for e in &o.elems {
            for x in &e.kvs {
                if x.key == ix.key { expected.entry(show_value(&x.value)).or_default().push(e.id); total += 1; }
            }
        }
        if ix.count != total {
            bad.push(("index-count".into(), format!("index {} reports {} entries but {} elements have the key", show_value(&ix.key), ix.count, total)));
        }
        for (v, ids) in &ix.per_value {
            let mut exp = expected.get(&show_value(v)).cloned().unwrap_or_default();
            exp.sort();
            if *ids != exp {
                bad.push(("index-content".into(), format!("index {} value {} returns {:?} expected {:?}", show_value(&ix.key), show_value(v), ids, exp)));
            }
        }
    }
    bad
}
