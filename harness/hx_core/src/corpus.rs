// Corpus trait: a Rust type that has a description (Ty) and a value mapping (Val)
// in the Coq codec model, plus a structured generator.
use crate::rng::Rng;
use crate::sexp::{Ty, Val};
use agdb::{DbF64, DbId, DbKeyValue, DbValue};
use std::time::{Duration, SystemTime, UNIX_EPOCH};

pub trait Corpus: Sized {
    fn ty() -> Ty;
    fn to_val(&self) -> Val;
    fn generate(r: &mut Rng, depth: u32) -> Self;
}

pub fn gen_u64(r: &mut Rng) -> u64 {
    match r.below(8) {
        0 => 0,
        1 => u64::MAX,
        2 => 1 << r.below(64),
        3 => (1u64 << r.below(64)).wrapping_sub(1),
        4 => r.below(300),
        _ => r.next(),
    }
}

pub fn gen_len(r: &mut Rng, depth: u32) -> usize {
    let max = if depth > 2 { 2 } else { 5 };
    match r.below(6) {
        0 => 0,
        1 => 1,
        _ => r.below(max + 1) as usize,
    }
}

pub fn gen_bytes(r: &mut Rng) -> Vec<u8> {
    let n = match r.below(8) {
        0 => 0,
        1 => 15,
        2 => 16,
        3 => r.range(14, 17),
        4 => r.range(0, 300),
        _ => r.range(0, 24),
    } as usize;
    (0..n).map(|_| r.next() as u8).collect()
}

pub fn gen_string(r: &mut Rng) -> String {
    let n = match r.below(8) { 0 => 0, 1 => 15, 2 => 16, 3 => r.range(13, 18), _ => r.range(0, 24) } as usize;
    let mut s = String::new();
    while s.len() < n {
        let c = match r.below(10) {
            0 => char::from_u32(r.range(0x80, 0x7ff) as u32),
            1 => char::from_u32(r.range(0x800, 0xffff) as u32),
            2 => char::from_u32(r.range(0x10000, 0x10ffff) as u32),
            3 => Some('\0'),
            _ => char::from_u32(r.range(0x20, 0x7e) as u32),
        };
        if let Some(c) = c { s.push(c); }
    }
    s
}

impl Corpus for u64 {
    fn ty() -> Ty { Ty::U64 }
    fn to_val(&self) -> Val { Val::U64(*self) }
    fn generate(r: &mut Rng, _d: u32) -> Self { gen_u64(r) }
}
impl Corpus for i64 {
    fn ty() -> Ty { Ty::I64 }
    fn to_val(&self) -> Val { Val::I64(*self) }
    fn generate(r: &mut Rng, _d: u32) -> Self { gen_u64(r) as i64 }
}
impl Corpus for f64 {
    fn ty() -> Ty { Ty::F64 }
    fn to_val(&self) -> Val { Val::F64(self.to_bits()) }
    fn generate(r: &mut Rng, _d: u32) -> Self {
        let bits = match r.below(10) {
            0 => 0u64,
            1 => 1u64 << 63,                              // -0.0
            2 => 0x7ff0_0000_0000_0000,                   // +inf
            3 => 0xfff0_0000_0000_0000,                   // -inf
            4 => 0x7ff8_0000_0000_0000 | r.below(1 << 51), // quiet NaN with payload
            5 => 0x7ff0_0000_0000_0001 | r.below(1 << 51), // signalling NaN with payload
            6 => 0xfff0_0000_0000_0001 | r.below(1 << 52), // negative NaN
            7 => r.below(1 << 52),                        // subnormal
            _ => r.next(),
        };
        f64::from_bits(bits)
    }
}
impl Corpus for usize {
    fn ty() -> Ty { Ty::Usize }
    fn to_val(&self) -> Val { Val::Usize(*self as u64) }
    fn generate(r: &mut Rng, _d: u32) -> Self { gen_u64(r) as usize }
}
impl Corpus for bool {
    fn ty() -> Ty { Ty::Bool }
    fn to_val(&self) -> Val { Val::Bool(*self) }
    fn generate(r: &mut Rng, _d: u32) -> Self { r.chance(1, 2) }
}
impl Corpus for String {
    fn ty() -> Ty { Ty::Str }
    fn to_val(&self) -> Val { Val::Str(self.as_bytes().to_vec()) }
    fn generate(r: &mut Rng, _d: u32) -> Self { gen_string(r) }
}
impl Corpus for Vec<u8> {
    fn ty() -> Ty { Ty::Bytes }
    fn to_val(&self) -> Val { Val::Bytes(self.clone()) }
    fn generate(r: &mut Rng, _d: u32) -> Self { gen_bytes(r) }
}
impl<T: Corpus> Corpus for Vec<T> {
    fn ty() -> Ty { Ty::Vec(Box::new(T::ty())) }
    fn to_val(&self) -> Val { Val::Vec(self.iter().map(|x| x.to_val()).collect()) }
    fn generate(r: &mut Rng, d: u32) -> Self {
        let n = gen_len(r, d);
        (0..n).map(|_| T::generate(r, d + 1)).collect()
    }
}
impl Corpus for SystemTime {
    fn ty() -> Ty { Ty::Time }
    fn to_val(&self) -> Val {
        match self.duration_since(UNIX_EPOCH) {
            Ok(d) => Val::Time(d.as_secs(), d.subsec_nanos(), true),
            Err(e) => Val::Time(e.duration().as_secs(), e.duration().subsec_nanos(), false),
        }
    }
    fn generate(r: &mut Rng, _d: u32) -> Self {
        loop {
            let secs = match r.below(6) {
                0 => 0,
                1 => r.below(3),
                2 => (i64::MAX as u64) - r.below(3),
                3 => 1u64 << r.below(63),
                _ => r.below(4_000_000_000),
            };
            let nanos = match r.below(4) { 0 => 0, 1 => 999_999_999, _ => r.below(1_000_000_000) as u32 };
            let d = Duration::new(secs, nanos);
            let t = if r.chance(1, 3) { UNIX_EPOCH.checked_sub(d) } else { UNIX_EPOCH.checked_add(d) };
            if let Some(t) = t { return t; }
        }
    }
}
impl Corpus for DbF64 {
    fn ty() -> Ty { Ty::F64 }
    fn to_val(&self) -> Val { Val::F64(self.to_f64().to_bits()) }
    fn generate(r: &mut Rng, d: u32) -> Self { DbF64::from(f64::generate(r, d)) }
}
impl Corpus for DbId {
    fn ty() -> Ty { Ty::Struct(vec![Ty::I64]) }
    fn to_val(&self) -> Val { Val::Struct(vec![Val::I64(self.0)]) }
    fn generate(r: &mut Rng, d: u32) -> Self { DbId(i64::generate(r, d)) }
}
impl Corpus for DbValue {
    fn ty() -> Ty {
        Ty::Enum(vec![
            vec![Ty::Bytes], vec![Ty::I64], vec![Ty::U64], vec![Ty::F64], vec![Ty::Str],
            vec![Ty::Vec(Box::new(Ty::I64))], vec![Ty::Vec(Box::new(Ty::U64))],
            vec![Ty::Vec(Box::new(Ty::F64))], vec![Ty::Vec(Box::new(Ty::Str))],
        ])
    }
    fn to_val(&self) -> Val {
        match self {
            DbValue::Bytes(v) => Val::Enum(0, vec![v.to_val()]),
            DbValue::I64(v) => Val::Enum(1, vec![v.to_val()]),
            DbValue::U64(v) => Val::Enum(2, vec![v.to_val()]),
            DbValue::F64(v) => Val::Enum(3, vec![v.to_val()]),
            DbValue::String(v) => Val::Enum(4, vec![v.to_val()]),
            DbValue::VecI64(v) => Val::Enum(5, vec![v.to_val()]),
            DbValue::VecU64(v) => Val::Enum(6, vec![v.to_val()]),
            DbValue::VecF64(v) => Val::Enum(7, vec![v.to_val()]),
            DbValue::VecString(v) => Val::Enum(8, vec![v.to_val()]),
        }
    }
    fn generate(r: &mut Rng, d: u32) -> Self {
        match r.below(9) {
            0 => DbValue::Bytes(Corpus::generate(r, d)),
            1 => DbValue::I64(Corpus::generate(r, d)),
            2 => DbValue::U64(Corpus::generate(r, d)),
            3 => DbValue::F64(Corpus::generate(r, d)),
            4 => DbValue::String(Corpus::generate(r, d)),
            5 => DbValue::VecI64(Corpus::generate(r, d)),
            6 => DbValue::VecU64(Corpus::generate(r, d)),
            7 => DbValue::VecF64(Corpus::generate(r, d)),
            _ => DbValue::VecString(Corpus::generate(r, d)),
        }
    }
}
impl Corpus for DbKeyValue {
    fn ty() -> Ty { Ty::Struct(vec![DbValue::ty(), DbValue::ty()]) }
    fn to_val(&self) -> Val { Val::Struct(vec![self.key.to_val(), self.value.to_val()]) }
    fn generate(r: &mut Rng, d: u32) -> Self {
        DbKeyValue { key: Corpus::generate(r, d), value: Corpus::generate(r, d) }
    }
}
