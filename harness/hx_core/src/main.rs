// hx_core — harness driving the real agdb library; one sub-command per check.
//   hx_core <cmd> --seed S --n N --out DIR [--start K]
mod alloc;
mod codec;
mod corpus;
mod dbdump;
mod dbgen;
mod dbq;
mod dbrun;
mod gen_types;
mod rng;
mod sexp;
#[cfg(agdb_verif)]
mod walrun;
#[cfg(agdb_verif)]
mod storrun;

use std::collections::BTreeMap;
use std::io::Write;

#[global_allocator]
static GLOBAL: alloc::Tracking = alloc::Tracking;

fn arg(args: &[String], name: &str, default: &str) -> String {
    args.iter().position(|a| a == name).and_then(|i| args.get(i + 1)).cloned().unwrap_or(default.to_string())
}

fn json_str(s: &str) -> String {
    let mut o = String::from("\"");
    for c in s.chars() {
        match c {
            '"' => o.push_str("\\\""),
            '\\' => o.push_str("\\\\"),
            '\n' => o.push_str("\\n"),
            c if (c as u32) < 0x20 => o.push_str(&format!("\\u{:04x}", c as u32)),
            c => o.push(c),
        }
    }
    o.push('"');
    o
}

pub fn write_lines(path: &str, lines: &[String]) {
    let mut f = std::io::BufWriter::new(std::fs::File::create(path).unwrap());
    for l in lines { writeln!(f, "{}", l).unwrap(); }
}

pub fn write_stats(path: &str, stats: &BTreeMap<String, u64>, evaluations: u64, nontrivial: u64, samples: &[String]) {
    let mut s = String::from("{\n \"dist\": {");
    s.push_str(&stats.iter().map(|(k, v)| format!("{}: {}", json_str(k), v)).collect::<Vec<_>>().join(", "));
    s.push_str(&format!("}},\n \"evaluations\": {},\n \"distinct_nontrivial\": {},\n \"samples\": [", evaluations, nontrivial));
    s.push_str(&samples.iter().map(|x| json_str(x)).collect::<Vec<_>>().join(", "));
    s.push_str("]\n}\n");
    std::fs::write(path, s).unwrap();
}

fn main() {
    let args: Vec<String> = std::env::args().collect();
    let cmd = args.get(1).cloned().unwrap_or_default();
    let seed: u64 = arg(&args, "--seed", "1").parse().unwrap();
    let n: usize = arg(&args, "--n", "10").parse().unwrap();
    let out = arg(&args, "--out", ".");
    let start: usize = arg(&args, "--start", "0").parse().unwrap();
    std::fs::create_dir_all(&out).unwrap();
    std::panic::set_hook(Box::new(|_| {}));
    let profile = if cfg!(debug_assertions) { 'd' } else { 'r' };
    match cmd.as_str() {
        "c20" | "c21" => {
            let live = if cmd == "c21" {
                Some(std::fs::OpenOptions::new().create(true).append(true).open(format!("{}/impl_live_{}.txt", out, profile)).unwrap())
            } else { None };
            let mut ctx = codec::Ctx {
                rng: rng::Rng::new(seed), n, cases: vec![], imp: vec![], oracle: vec![], stats: BTreeMap::new(),
                distinct: Default::default(), nontrivial: 0, profile, start, out: live, samples: vec![],
            };
            if cmd == "c20" { codec::run_roundtrip(&mut ctx); } else { codec::run_decode(&mut ctx); }
            let sfx = if cmd == "c21" { format!("_{}", profile) } else { String::new() };
            write_lines(&format!("{}/cases{}.txt", out, sfx), &ctx.cases);
            write_lines(&format!("{}/impl{}.txt", out, sfx), &ctx.imp);
            write_lines(&format!("{}/oracle{}.txt", out, sfx), &ctx.oracle);
            write_stats(&format!("{}/stats{}.json", out, sfx), &ctx.stats, ctx.cases.len() as u64, ctx.nontrivial, &ctx.samples);
        }
        #[cfg(agdb_verif)]
        "c01" => {
            let mut o = walrun::Out { cases: vec![], imp: vec![], oracle: vec![], stats: BTreeMap::new(), samples: vec![], nontrivial: 0, programs: 0, snapshots: 0 };
            let mut r = rng::Rng::new(seed);
            let max_ops: u64 = arg(&args, "--steps", "14").parse().unwrap();
            for i in 0..n {
                let mut pr = r.fork();
                walrun::run_program(&mut pr, &out, i, i % 3 == 2, max_ops, &mut o);
            }
            write_lines(&format!("{}/cases.txt", out), &o.cases);
            write_lines(&format!("{}/impl.txt", out), &o.imp);
            write_lines(&format!("{}/oracle.txt", out), &o.oracle);
            o.stats.insert("snapshots".into(), o.snapshots);
            write_stats(&format!("{}/stats.json", out), &o.stats, o.snapshots, o.nontrivial, &o.samples);
        }
        #[cfg(agdb_verif)]
        "c04" => {
            // --n histories (each run on the three back-ends), --steps max operations, --exhaustive D (0 = off)
            let mut o = storrun::Out::new();
            let mut r = rng::Rng::new(seed);
            let max_ops: u64 = arg(&args, "--steps", "60").parse().unwrap();
            let exhaustive: usize = arg(&args, "--exhaustive", "0").parse().unwrap();
            let backends = [storrun::Backend::Mem, storrun::Backend::File, storrun::Backend::Mapped];
            for i in 0..n {
                let hs = r.next();
                for b in backends {
                    let mut pr = rng::Rng(hs);
                    storrun::run_history(&mut pr, b, i % 2 == 1, &out, i, max_ops, &mut o);
                }
            }
            if exhaustive > 0 {
                storrun::run_exhaustive(storrun::Backend::Mem, &out, exhaustive, &mut o);
                if exhaustive > 1 {
                    storrun::run_exhaustive(storrun::Backend::File, &out, exhaustive - 1, &mut o);
                    storrun::run_exhaustive(storrun::Backend::Mapped, &out, exhaustive - 1, &mut o);
                }
            }
            write_lines(&format!("{}/cases.txt", out), &o.cases);
            write_lines(&format!("{}/impl.txt", out), &o.imp);
            write_lines(&format!("{}/oracle.txt", out), &o.oracle);
            o.stats.insert("histories".into(), o.histories);
            write_stats(&format!("{}/stats.json", out), &o.stats, o.steps, o.nontrivial, &o.samples);
        }
        "db" => {
            let opts = dbrun::Opts {
                profile: dbgen::profile_of(&arg(&args, "--profile", "all")),
                steps: arg(&args, "--steps", "30").parse().unwrap(),
                rev: arg(&args, "--rev", "pinned"),
                dump_every: arg(&args, "--dump-every", "10").parse().unwrap(),
                variants: { let v = arg(&args, "--variants", ""); if v.is_empty() { vec![] } else { v.split(',').map(|x| x.to_string()).collect() } },
                maintenance: arg(&args, "--maintenance", "0") == "1",
                dir: out.clone(),
            };
            let mut o = dbrun::Out::new();
            let mut r = rng::Rng::new(seed);
            for h in 0..n {
                let mut hr = r.fork();
                dbrun::run_history(&mut hr, &opts, &mut o, h);
            }
            write_lines(&format!("{}/cases.txt", out), &o.cases);
            write_lines(&format!("{}/impl.txt", out), &o.imp);
            write_lines(&format!("{}/oracle.txt", out), &o.oracle);
            write_stats(&format!("{}/stats.json", out), &o.stats, o.histories, o.nontrivial, &o.samples);
        }
        _ => {
            eprintln!("unknown command {}", cmd);
            std::process::exit(2);
        }
    }
}
