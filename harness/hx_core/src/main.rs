// hx_core — harness driving the real agdb library; one sub-command per check.
//   hx_core <cmd> --seed S --n N --out DIR [--start K]
mod alloc;
mod codec;
mod corpus;
mod damrun;
mod dbdump;
mod dbgen;
mod dbq;
mod dbrun;
mod failrun;
mod dbsmall;
mod gen_types;
mod gen_user_types;
mod usertypes;
mod rng;
mod sexp;
mod watch;
#[cfg(all(agdb_verif, feature = "h1_multimap"))]
mod omaprun;
#[cfg(all(agdb_verif, feature = "h4_dbvec"))]
mod collrun;
mod valrun;
#[cfg(agdb_verif)]
mod walrun;
#[cfg(agdb_verif)]
mod crashrun;
#[cfg(agdb_verif)]
mod storrun;
#[cfg(agdb_verif)]
mod concrun;
#[cfg(agdb_verif)]
mod storedrun;
#[cfg(agdb_verif)]
mod opsrun;

use std::collections::BTreeMap;
use std::io::Write;

pub static LAST_PANIC: std::sync::Mutex<String> = std::sync::Mutex::new(String::new());

#[global_allocator]
static GLOBAL: alloc::Tracking = alloc::Tracking;

fn arg(args: &[String], name: &str, default: &str) -> String {
    args.iter().position(|a| a == name).and_then(|i| args.get(i + 1)).cloned().unwrap_or(default.to_string())
}

fn json_str(s: &str) -> String {
    let mut o = String::from("\"");
    for c in s.chars() {
        match c {
            '"' => o.push_str("\\\""),
            '\\' => o.push_str("\\\\"),
            '\n' => o.push_str("\\n"),
            c if (c as u32) < 0x20 => o.push_str(&format!("\\u{:04x}", c as u32)),
            c => o.push(c),
        }
    }
    o.push('"');
    o
}

pub fn write_lines(path: &str, lines: &[String]) {
    let mut f = std::io::BufWriter::new(std::fs::File::create(path).unwrap());
    for l in lines { writeln!(f, "{}", l).unwrap(); }
}

pub fn write_stats(path: &str, stats: &BTreeMap<String, u64>, evaluations: u64, nontrivial: u64, samples: &[String]) {
    let mut s = String::from("{\n \"dist\": {");
    s.push_str(&stats.iter().map(|(k, v)| format!("{}: {}", json_str(k), v)).collect::<Vec<_>>().join(", "));
    s.push_str(&format!("}},\n \"evaluations\": {},\n \"distinct_nontrivial\": {},\n \"samples\": [", evaluations, nontrivial));
    s.push_str(&samples.iter().map(|x| json_str(x)).collect::<Vec<_>>().join(", "));
    s.push_str("]\n}\n");
    std::fs::write(path, s).unwrap();
}

fn main() {
    let args: Vec<String> = std::env::args().collect();
    let cmd = args.get(1).cloned().unwrap_or_default();
    if cmd == "c07-worker" {
        damrun::worker();
        return;
    }
    if cmd == "c07-child" {
        // c07-child <path> <variant> <allocation limit>
        damrun::child(&args[2], &args[3], args.get(4).and_then(|x| x.parse().ok()).unwrap_or(usize::MAX));
        return;
    }
    let seed: u64 = arg(&args, "--seed", "1").parse().unwrap();
    let n: usize = arg(&args, "--n", "10").parse().unwrap();
    let out = arg(&args, "--out", ".");
    let start: usize = arg(&args, "--start", "0").parse().unwrap();
    std::fs::create_dir_all(&out).unwrap();
    std::panic::set_hook(Box::new(|info| {
        // remember where the last panic happened (used to classify failures by site)
        let loc = info.location().map(|l| format!("{}:{}", l.file(), l.line())).unwrap_or_default();
        let msg = if let Some(s) = info.payload().downcast_ref::<&str>() { s.to_string() }
                  else if let Some(s) = info.payload().downcast_ref::<String>() { s.clone() } else { String::new() };
        *LAST_PANIC.lock().unwrap() = format!("{} @ {}", msg.chars().take(120).collect::<String>(), loc);
    }));
    let profile = if cfg!(debug_assertions) { 'd' } else { 'r' };
    match cmd.as_str() {
        "c20" | "c21" => {
            let live = if cmd == "c21" {
                Some(std::fs::OpenOptions::new().create(true).append(true).open(format!("{}/impl_live_{}.txt", out, profile)).unwrap())
            } else { None };
            let mut ctx = codec::Ctx {
                rng: rng::Rng::new(seed), n, cases: vec![], imp: vec![], oracle: vec![], stats: BTreeMap::new(),
                distinct: Default::default(), nontrivial: 0, profile, start, out: live, samples: vec![],
            };
            if cmd == "c20" { codec::run_roundtrip(&mut ctx); } else { codec::run_decode(&mut ctx); }
            let sfx = if cmd == "c21" { format!("_{}", profile) } else { String::new() };
            write_lines(&format!("{}/cases{}.txt", out, sfx), &ctx.cases);
            write_lines(&format!("{}/impl{}.txt", out, sfx), &ctx.imp);
            write_lines(&format!("{}/oracle{}.txt", out, sfx), &ctx.oracle);
            write_stats(&format!("{}/stats{}.json", out, sfx), &ctx.stats, ctx.cases.len() as u64, ctx.nontrivial, &ctx.samples);
        }
        #[cfg(agdb_verif)]
        "c01" => {
            let mut o = walrun::Out { cases: vec![], imp: vec![], oracle: vec![], stats: BTreeMap::new(), samples: vec![], nontrivial: 0, programs: 0, snapshots: 0, damaged: 0, traced: 0, in_recovery: 0 };
            let mut r = rng::Rng::new(seed);
            let guard = arg(&args, "--guard", "0") == "1";
            let max_ops: u64 = arg(&args, "--steps", "14").parse().unwrap();
            for i in 0..n {
                let mut pr = r.fork();
                walrun::run_program(&mut pr, &out, i, i % 3 == 2, max_ops, guard, &mut o);
            }
            write_lines(&format!("{}/cases.txt", out), &o.cases);
            write_lines(&format!("{}/impl.txt", out), &o.imp);
            write_lines(&format!("{}/oracle.txt", out), &o.oracle);
            o.stats.insert("snapshots".into(), o.snapshots);
            o.stats.insert("damaged-logs".into(), o.damaged);
            o.stats.insert("recovery-call-traces".into(), o.traced);
            o.stats.insert("cuts-inside-recovery-vs-model".into(), o.in_recovery);
            write_stats(&format!("{}/stats.json", out), &o.stats, o.snapshots + o.damaged, o.nontrivial, &o.samples);
        }
        #[cfg(agdb_verif)]
        "crash" => {
            let mut o = crashrun::Out { oracle: vec![], stats: BTreeMap::new(), samples: vec![], nontrivial: 0, histories: 0, snapshots: 0, cases: vec![], imp: vec![] };
            let mut r = rng::Rng::new(seed);
            let max_steps: u64 = arg(&args, "--steps", "8").parse().unwrap();
            for i in 0..n {
                let mut pr = r.fork();
                crashrun::run_history(&mut pr, &out, i, i % 2 == 1, max_steps, arg(&args, "--sample", "1000").parse().unwrap(), &mut o);
            }
            write_lines(&format!("{}/oracle.txt", out), &o.oracle);
            o.stats.insert("snapshots".into(), o.snapshots);
            write_stats(&format!("{}/stats.json", out), &o.stats, o.snapshots, o.nontrivial, &o.samples);
        }
        #[cfg(agdb_verif)]
        "c23" => {
            // --dbs D --n QUERIES --threads T --small M
            let mut o = concrun::Out::new();
            let mut r = rng::Rng::new(seed);
            let mut sr = r.fork();
            let mut br = r.fork();
            concrun::run_small(&mut sr, &out, arg(&args, "--small", "100").parse().unwrap(), &mut o);
            // the small cases are on disk before the stress starts: a stress run that dies (garbage reads can abort
            // the process on an impossible allocation) is attributed through progress.txt by checks/c23.py
            write_lines(&format!("{}/cases.txt", out), &o.cases);
            write_lines(&format!("{}/impl.txt", out), &o.imp);
            write_lines(&format!("{}/oracle.txt", out), &o.oracle);
            concrun::run_stress(&mut br, &out, arg(&args, "--dbs", "6").parse().unwrap(), n, arg(&args, "--threads", "32").parse().unwrap(), &mut o);
            write_lines(&format!("{}/oracle.txt", out), &o.oracle);
            write_stats(&format!("{}/stats.json", out), &o.stats, o.evaluations, o.nontrivial, &o.samples);
        }
        "c22" => {
            use gen_user_types::*;
            let mut c = usertypes::Ctx { rng: rng::Rng::new(seed), n, dir: out.clone(), cases: vec![], imp: vec![], oracle: vec![],
                                         stats: BTreeMap::new(), samples: vec![], nontrivial: 0, evaluations: 0 };
            fn go<T: usertypes::Ut + agdb::DbType<ValueType = T>>(c: &mut usertypes::Ctx) { usertypes::run_type::<T>(c) }
            for_each_user_type!(go, &mut c);
            write_lines(&format!("{}/cases.txt", out), &c.cases);
            write_lines(&format!("{}/impl.txt", out), &c.imp);
            write_lines(&format!("{}/oracle.txt", out), &c.oracle);
            write_stats(&format!("{}/stats.json", out), &c.stats, c.evaluations, c.nontrivial, &c.samples);
        }
        "fail" => {
            let mut o = failrun::Out { live: Some(std::fs::OpenOptions::new().create(true).append(true).open(format!("{}/oracle_live.txt", out)).unwrap()), oracle: vec![], stats: BTreeMap::new(), samples: vec![], nontrivial: 0, runs: 0 };
            failrun::start_watchdog(format!("{}/oracle_live.txt", out), arg(&args, "--watchdog-ms", "30000").parse().unwrap());
            let mut r = rng::Rng::new(seed);
            let max_steps: u64 = arg(&args, "--steps", "6").parse().unwrap();
            let max_k: u64 = arg(&args, "--maxk", "40").parse().unwrap();
            for i in 0..n {
                let mut pr = r.fork();
                if i < start { continue; }
                {
                    use std::io::Write;
                    if let Some(f) = o.live.as_mut() { let _ = writeln!(f, "#HISTORY {}", i); let _ = f.flush(); }
                }
                failrun::run_history(&mut pr, &out, i, i % 2 == 1, max_steps, max_k, &mut o);
            }
            write_lines(&format!("{}/oracle.txt", out), &o.oracle);
            write_stats(&format!("{}/stats.json", out), &o.stats, o.runs, o.nontrivial, &o.samples);
        }
        "c07-seeds" => {
            // writes the seed files (and their recovery logs) to --out, for manual experiments
            let mut r = rng::Rng::new(seed);
            for (name, data, wal) in damrun::build_seeds(&format!("{}/tmp", out), &mut r, arg(&args, "--tier", "quick") == "thorough") {
                std::fs::write(format!("{}/{}.agdb", out, name), &data).unwrap();
                if let Some(w) = wal { std::fs::write(format!("{}/.{}.agdb", out, name), &w).unwrap(); }
                println!("{} {}", name, data.len());
            }
        }
        "c07" => {
            let thorough = arg(&args, "--tier", "quick") == "thorough";
            let jobs: usize = arg(&args, "--jobs", "16").parse().unwrap();
            let variants: Vec<String> = arg(&args, "--variants", "file,mapped,memory").split(',').map(|x| x.to_string()).collect();
            let rep = damrun::run(seed, &out, thorough, jobs, &variants, &arg(&args, "--corpus", "/nonexistent"), n, &arg(&args, "--guards", "1111"), arg(&args, "--dbload", "1") == "1");
            write_lines(&format!("{}/cases.txt", out), &rep.cases);
            write_lines(&format!("{}/impl.txt", out), &rep.imp);
            write_lines(&format!("{}/oracle.txt", out), &rep.oracle);
            write_lines(&format!("{}/cases_db.txt", out), &rep.cases_db);
            write_lines(&format!("{}/impl_db.txt", out), &rep.imp_db);
            write_lines(&format!("{}/desc_db.txt", out), &rep.desc_db);
            write_lines(&format!("{}/skipped_db.txt", out), &rep.desc_db_skipped);
            write_stats(&format!("{}/stats.json", out), &rep.stats, rep.evaluations, rep.nontrivial, &rep.samples);
        }
        "c12" => {
            let mut o = valrun::Out::new();
            let mut r = rng::Rng::new(seed);
            valrun::run(&mut r, n, &out, &mut o);
            write_lines(&format!("{}/cases.txt", out), &o.cases);
            write_lines(&format!("{}/impl.txt", out), &o.imp);
            write_lines(&format!("{}/oracle.txt", out), &o.oracle);
            write_stats(&format!("{}/stats.json", out), &o.stats, o.evaluations, o.nontrivial, &o.samples);
        }
        #[cfg(agdb_verif)]
        "c04" => {
            // --n histories (each run on the three back-ends), --steps max operations, --exhaustive D (0 = off)
            let mut o = storrun::Out::new();
            let mut r = rng::Rng::new(seed);
            let max_ops: u64 = arg(&args, "--steps", "60").parse().unwrap();
            let exhaustive: usize = arg(&args, "--exhaustive", "0").parse().unwrap();
            let backends = [storrun::Backend::Mem, storrun::Backend::File, storrun::Backend::Mapped];
            for i in 0..n {
                let hs = r.next();
                for b in backends {
                    let mut pr = rng::Rng(hs);
                    storrun::run_history(&mut pr, b, i % 2 == 1, &out, i, max_ops, &mut o);
                }
            }
            if exhaustive > 0 {
                storrun::run_exhaustive(storrun::Backend::Mem, &out, exhaustive, &mut o);
                if exhaustive > 1 {
                    storrun::run_exhaustive(storrun::Backend::File, &out, exhaustive - 1, &mut o);
                    storrun::run_exhaustive(storrun::Backend::Mapped, &out, exhaustive - 1, &mut o);
                }
            }
            write_lines(&format!("{}/cases.txt", out), &o.cases);
            write_lines(&format!("{}/impl.txt", out), &o.imp);
            write_lines(&format!("{}/oracle.txt", out), &o.oracle);
            o.stats.insert("histories".into(), o.histories);
            write_stats(&format!("{}/stats.json", out), &o.stats, o.steps, o.nontrivial, &o.samples);
        }
        "db" => {
            let opts = dbrun::Opts {
                profile: dbgen::profile_of(&arg(&args, "--profile", "all")),
                steps: arg(&args, "--steps", "30").parse().unwrap(),
                rev: arg(&args, "--rev", "pinned"),
                dump_every: arg(&args, "--dump-every", "10").parse().unwrap(),
                variants: { let v = arg(&args, "--variants", ""); if v.is_empty() { vec![] } else { v.split(',').map(|x| x.to_string()).collect() } },
                maintenance: arg(&args, "--maintenance", "0") == "1",
                dir: out.clone(),
            };
            // C19: per-step watchdog (exit code 3 + oracle line `timeout ...` when one step exceeds the limit)
            watch::start(arg(&args, "--watchdog-ms", "0").parse().unwrap(), format!("{}/oracle.txt", out));
            let mut o = dbrun::Out::new();
            let mut r = rng::Rng::new(seed);
            for h in 0..n {
                let mut hr = r.fork();
                dbrun::run_history(&mut hr, &opts, &mut o, h);
            }
            write_lines(&format!("{}/cases.txt", out), &o.cases);
            write_lines(&format!("{}/impl.txt", out), &o.imp);
            write_lines(&format!("{}/oracle.txt", out), &o.oracle);
            write_stats(&format!("{}/stats.json", out), &o.stats, o.histories, o.nontrivial, &o.samples);
        }
        "dbsmall" => {
            // exhaustive small multigraphs: --nodes N --edges M --rev R --out DIR [--paths 0|1] [--traverse 0|1] [--reuse-full L] [--reuse-k K]
            let opts = dbsmall::SmallOpts {
                nodes: arg(&args, "--nodes", "3").parse().unwrap(),
                edges: arg(&args, "--edges", "3").parse().unwrap(),
                rev: arg(&args, "--rev", "pinned"),
                paths: arg(&args, "--paths", "1") == "1",
                traverse: arg(&args, "--traverse", "1") == "1",
                reuse_full: arg(&args, "--reuse-full", "5").parse().unwrap(),
                reuse_k: arg(&args, "--reuse-k", "8").parse().unwrap(),
            };
            let mut o = dbrun::Out::new();
            dbsmall::run(&opts, &mut o);
            write_lines(&format!("{}/cases.txt", out), &o.cases);
            write_lines(&format!("{}/impl.txt", out), &o.imp);
            write_lines(&format!("{}/oracle.txt", out), &o.oracle);
            write_stats(&format!("{}/stats.json", out), &o.stats, o.histories, o.nontrivial, &o.samples);
        }
        #[cfg(all(agdb_verif, feature = "h1_multimap"))]
        "omap" => {
            let steps: usize = arg(&args, "--steps", "200").parse().unwrap();
            let mut o = omaprun::Out { cases: vec![], imp: vec![], oracle: vec![], stats: BTreeMap::new(), samples: vec![], nontrivial: 0, histories: 0 };
            omaprun::start_watchdog(format!("{}/oracle.txt", out), arg(&args, "--watchdog-ms", "10000").parse().unwrap());
            let replay = arg(&args, "--replay", "");
            if !replay.is_empty() {
                // --replay FILE: the operation lines of one history (ins/ior/rk/rv/reserve/value/values, hex numbers)
                let lines: Vec<String> = std::fs::read_to_string(&replay).expect("replay file").lines().map(|l| l.to_string()).collect();
                omaprun::replay(&lines, &mut o);
            } else {
                let mut r = rng::Rng::new(seed);
                for _ in 0..n {
                    let mut hr = r.fork();
                    omaprun::run_history(&mut hr, steps, &mut o);
                }
            }
            write_lines(&format!("{}/cases.txt", out), &o.cases);
            write_lines(&format!("{}/impl.txt", out), &o.imp);
            write_lines(&format!("{}/oracle.txt", out), &o.oracle);
            write_stats(&format!("{}/stats.json", out), &o.stats, o.histories, o.nontrivial, &o.samples);
        }
        #[cfg(all(agdb_verif, feature = "h4_dbvec"))]
        "coll" => {
            // C05, collection layer: --n histories (each on the three back-ends), --steps max operations per history
            let steps: u64 = arg(&args, "--steps", "60").parse().unwrap();
            let mut o = collrun::Out::new();
            let mut r = rng::Rng::new(seed);
            for i in 0..n {
                let mut hr = r.fork();
                collrun::run_history(&mut hr, &out, i as u64, steps, &mut o);
            }
            write_lines(&format!("{}/cases.txt", out), &o.cases);
            write_lines(&format!("{}/impl.txt", out), &o.imp);
            write_lines(&format!("{}/oracle.txt", out), &o.oracle);
            o.stats.insert("histories".into(), o.histories);
            write_stats(&format!("{}/stats.json", out), &o.stats, o.steps, o.nontrivial, &o.samples);
        }
        #[cfg(agdb_verif)]
        "stored" => {
            // C05, database level: load_db (extracted) on the raw records of real files; --n histories, --steps max queries per history
            let steps: usize = arg(&args, "--steps", "25").parse().unwrap();
            let mut o = storedrun::Out::new();
            let mut r = rng::Rng::new(seed);
            for i in 0..n {
                let mut hr = r.fork();
                storedrun::run_history(&mut hr, &out, i, steps, &mut o);
            }
            write_lines(&format!("{}/cases.txt", out), &o.cases);
            write_lines(&format!("{}/impl.txt", out), &o.imp);
            write_lines(&format!("{}/hist.txt", out), &o.hist);
            write_lines(&format!("{}/oracle.txt", out), &o.oracle);
            o.stats.insert("histories".into(), o.histories);
            o.stats.insert("records".into(), o.records);
            let ev = o.cases.len() as u64;
            write_stats(&format!("{}/stats.json", out), &o.stats, ev, o.nontrivial, &o.samples);
        }
        #[cfg(agdb_verif)]
        "ops" => {
            // C05, database level: the core mutations as storage programs (StoredDbOps.v) against the record bytes of real files;
            // --n histories (1..3 cases each), --steps max queries per history
            let steps: usize = arg(&args, "--steps", "25").parse().unwrap();
            let mut o = opsrun::Out::new();
            let mut r = rng::Rng::new(seed);
            for i in 0..n {
                let mut hr = r.fork();
                opsrun::run_history(&mut hr, &out, i, steps, &mut o);
            }
            write_lines(&format!("{}/cases.txt", out), &o.cases);
            write_lines(&format!("{}/impl.txt", out), &o.imp);
            write_lines(&format!("{}/hist.txt", out), &o.hist);
            write_lines(&format!("{}/oracle.txt", out), &o.oracle);
            o.stats.insert("histories".into(), o.histories);
            o.stats.insert("records".into(), o.records);
            o.stats.insert("file_bytes".into(), o.file_bytes);
            let ev = o.cases.len() as u64;
            write_stats(&format!("{}/stats.json", out), &o.stats, ev, o.nontrivial, &o.samples);
        }
        _ => {
            eprintln!("unknown command {}", cmd);
            std::process::exit(2);
        }
    }
}
