// concrun.rs — C23: concurrent immutable queries / read transactions on a shared file-backed database
// return their sequential results.
//   (1) stress: fixed databases (DbFile, Db, DbAny::new_file) built from a generated history; a battery of
//       random select / search queries with a sequential baseline; T reader threads share the database
//       behind RwLock read guards and execute the battery in random orders (db.exec, a read transaction
//       with one query, a read transaction with several queries).  The cfg(agdb_verif) file-system hook
//       delays a share of the lock holders inside FileStorage::read's critical section so that other
//       threads take the contended branch (private handle); ReadLocked / ReadContended events are counted.
//       Oracle: every result string = baseline, no error where the baseline is ok, no panic.
//   (2) small cases for the Coq model (ConcRead.v): 2-3 threads x <= 3 raw FileStorage::read calls on a small
//       file; the hook logs ReadLocked / ReadDone / ReadContended per thread, the threads log the return of
//       each read; the extracted model replays the log as a schedule (trace acceptor) and its results
//       are compared with the implementation's.
use crate::dbgen::*;
use crate::dbq::*;
use crate::dbrun::refresh_live;
use crate::rng::Rng;
use crate::sexp::hex;
use agdb::verif::{set_fs_hook, FsEvent};
use agdb::*;
use std::cell::Cell;
use std::collections::BTreeMap;
use std::panic::{catch_unwind, AssertUnwindSafe};
use std::sync::atomic::{AtomicU64, Ordering::Relaxed};
use std::sync::{Arc, Barrier, Mutex, RwLock};
use std::time::{Duration, Instant};

pub struct Out {
    pub cases: Vec<String>, pub imp: Vec<String>, pub oracle: Vec<String>,
    pub stats: BTreeMap<String, u64>, pub samples: Vec<String>, pub nontrivial: u64, pub evaluations: u64,
}

impl Out {
    pub fn new() -> Self { Out { cases: vec![], imp: vec![], oracle: vec![], stats: BTreeMap::new(), samples: vec![], nontrivial: 0, evaluations: 0 } }
    fn add(&mut self, k: &str, n: u64) { *self.stats.entry(k.to_string()).or_insert(0) += n; }
}

fn spin_us(us: u64) {
    let t = Instant::now();
    while t.elapsed() < Duration::from_micros(us) { std::hint::spin_loop(); }
}

fn mix(mut z: u64) -> u64 {
    z = z.wrapping_add(0x9E37_79B9_7F4A_7C15);
    z = (z ^ (z >> 30)).wrapping_mul(0xBF58_476D_1CE4_E5B9);
    z = (z ^ (z >> 27)).wrapping_mul(0x94D0_49BB_1331_11EB);
    z ^ (z >> 31)
}

// ------------------------------------------------------------------------------------------ stress
// failures are also appended to oracle_live.txt at once: garbage reads may abort the whole process
static LIVE: Mutex<Option<std::fs::File>> = Mutex::new(None);
fn live_fail(line: &str) {
    use std::io::Write;
    if let Ok(mut g) = LIVE.lock() { if let Some(f) = g.as_mut() { let _ = writeln!(f, "{}", line); let _ = f.flush(); } }
}
static N_LOCKED: AtomicU64 = AtomicU64::new(0);
static N_CONTENDED: AtomicU64 = AtomicU64::new(0);
static N_DONE: AtomicU64 = AtomicU64::new(0);
static N_DELAYED: AtomicU64 = AtomicU64::new(0);
static HOOK_SEED: AtomicU64 = AtomicU64::new(0);

// The hook is process wide and is taken out while it runs: it re-installs itself first, so that the events
// of the other threads are (almost) all seen while this one waits inside the critical section.
fn stress_hook(e: &FsEvent) {
    set_fs_hook(Some(Box::new(stress_hook)));
    match e {
        FsEvent::ReadLocked(..) => {
            let k = N_LOCKED.fetch_add(1, Relaxed);
            match mix(k ^ HOOK_SEED.load(Relaxed)) % 16 {
                z @ 0..=2 => { N_DELAYED.fetch_add(1, Relaxed); spin_us(20 + 10 * z); }
                3 => { N_DELAYED.fetch_add(1, Relaxed); std::thread::sleep(Duration::from_micros(30)); }
                4 | 5 => std::thread::yield_now(),
                _ => {}
            }
        }
        FsEvent::ReadContended(..) => { N_CONTENDED.fetch_add(1, Relaxed); }
        FsEvent::ReadDone => { N_DONE.fetch_add(1, Relaxed); }
        _ => {}
    }
}

fn build_db<S: StorageData>(db: &mut DbImpl<S>, r: &mut Rng, steps: usize) {
    for k in ["k1", "k2"] { let _ = run_q(db, &Q::InsertIndex(DbValue::String(k.into()))); }
    let _ = run_q(db, &Q::InsertIndex(DbValue::I64(1)));
    for _ in 0..steps {
        let live = refresh_live(db);
        // growth first: removals only once there is something to remove
        let q = loop {
            let q = gen_mut(r, &live, Profile::All);
            let shrinking = matches!(q, Q::Remove(..) | Q::RemoveIndex(..));
            if !shrinking || (live.nodes.len() > 12 && r.chance(1, 3)) { break q; }
        };
        let _ = run_q(db, &q);
    }
}

fn battery<S: StorageData>(db: &DbImpl<S>, r: &mut Rng, n: usize) -> Vec<Q> {
    let live = refresh_live(db);
    (0..n).map(|i| match i % 4 {
        0 | 1 => gen_select(r, &live, Profile::All),
        _ => Q::SearchQ(Box::new(gen_search(r, &live, true, false))),
    }).collect()
}

fn seq_result<S: StorageData>(db: &DbImpl<S>, q: &Q) -> String {
    match catch_unwind(AssertUnwindSafe(|| show_result(&run_select(db, q).expect("immutable query"), false))) {
        Ok(s) => s,
        Err(_) => "panic".into(),
    }
}

struct ThreadRes { fails: Vec<String>, evals: u64, nontrivial: u64, modes: [u64; 3] }

// one database: baseline, then `threads` readers
fn stress_db<S: StorageData + Send + Sync + 'static>(kind: &str, db: DbImpl<S>, r: &mut Rng, nq: usize, threads: usize, out: &mut Out) {
    let qs = battery(&db, r, nq);
    let base1: Vec<String> = qs.iter().map(|q| seq_result(&db, q)).collect();
    let base2: Vec<String> = qs.iter().map(|q| seq_result(&db, q)).collect();
    // a query whose result is not even stable sequentially cannot be compared (none expected)
    let stable: Vec<bool> = base1.iter().zip(&base2).map(|(a, b)| a == b && a != "panic").collect();
    out.add("battery:unstable-sequentially", stable.iter().filter(|s| !**s).count() as u64);
    for (q, b) in qs.iter().zip(&base1) {
        out.add(&format!("query:{}", q.name()), 1);
        out.add(&format!("baseline:{}", if b.starts_with("ok") { if b.contains("(e ") { "ok-with-elements" } else { "ok-empty" } } else { b.as_str() }), 1);
    }
    if out.samples.len() < 3 {
        if let Some(i) = base1.iter().position(|b| b.contains("(e ")) {
            out.samples.push(format!("db={} query={} baseline={}", kind, show_q(&qs[i]), &base1[i].chars().take(300).collect::<String>()));
        }
    }
    let live = refresh_live(&db);
    out.add(&format!("db:{}:elements", kind), (live.nodes.len() + live.edges.len()) as u64);
    let shared = Arc::new(RwLock::new(db));
    let qs = Arc::new(qs);
    let base = Arc::new(base1);
    let stable = Arc::new(stable);
    let barrier = Arc::new(Barrier::new(threads));
    let kind_s = kind.to_string();
    let handles: Vec<_> = (0..threads).map(|ti| {
        let (shared, qs, base, stable, barrier, kind) = (shared.clone(), qs.clone(), base.clone(), stable.clone(), barrier.clone(), kind_s.clone());
        let mut tr = r.fork();
        std::thread::spawn(move || {
            let mut res = ThreadRes { fails: vec![], evals: 0, nontrivial: 0, modes: [0; 3] };
            let mut order: Vec<usize> = (0..qs.len()).collect();
            for i in (1..order.len()).rev() { let j = tr.below(i as u64 + 1) as usize; order.swap(i, j); }
            barrier.wait();
            let mut i = 0;
            while i < order.len() {
                let mode = tr.below(3) as usize;
                let k = if mode == 2 { 1 + tr.below(3) as usize } else { 1 };
                let chunk: Vec<usize> = order[i..(i + k).min(order.len())].to_vec();
                i += chunk.len();
                res.modes[mode] += 1;
                let got = catch_unwind(AssertUnwindSafe(|| -> Vec<String> {
                    let g = shared.read().unwrap();
                    if mode == 0 {
                        chunk.iter().map(|&qi| show_result(&run_select(&g, &qs[qi]).expect("immutable query"), false)).collect()
                    } else {
                        g.transaction(|t| -> Result<Vec<String>, DbError> {
                            Ok(chunk.iter().map(|&qi| show_result(&run_select_txn(t, &qs[qi]).expect("immutable query"), false)).collect())
                        }).unwrap()
                    }
                }));
                match got {
                    Err(_) => {
                        let at = crate::LAST_PANIC.lock().map(|s| s.clone()).unwrap_or_default();
                        if res.fails.len() < 5 {
                            let l = format!("conc-panic db={} thread={} mode={} queries=[{}] panic={}", kind, ti, mode,
                                chunk.iter().map(|&qi| show_q(&qs[qi])).collect::<Vec<_>>().join(" ;; "), at);
                            live_fail(&l);
                            res.fails.push(l);
                        }
                        res.evals += chunk.len() as u64;
                    }
                    Ok(lines) => {
                        for (&qi, l) in chunk.iter().zip(&lines) {
                            if !stable[qi] { continue; }
                            res.evals += 1;
                            if base[qi].contains("(e ") { res.nontrivial += 1; }
                            if *l != base[qi] && res.fails.len() < 5 {
                                let cls = if l.starts_with("err") && base[qi].starts_with("ok") { "conc-error" } else { "conc-mismatch" };
                                let l = format!("{} db={} thread={} mode={} query={} sequential={} concurrent={}", cls, kind, ti,
                                    ["exec", "transaction", "transaction-multi"][mode], show_q(&qs[qi]), base[qi], l);
                                live_fail(&l);
                                res.fails.push(l);
                            }
                        }
                    }
                }
            }
            res
        })
    }).collect();
    for h in handles {
        match h.join() {
            Ok(res) => {
                out.evaluations += res.evals;
                out.nontrivial += res.nontrivial;
                out.add("mode:exec", res.modes[0]); out.add("mode:transaction", res.modes[1]); out.add("mode:transaction-multi", res.modes[2]);
                out.oracle.extend(res.fails);
            }
            Err(_) => out.oracle.push(format!("conc-panic db={} a reader thread died outside a query", kind)),
        }
    }
    // reads changed nothing: the sequential results after the concurrent phase are the baseline
    let g = shared.read().unwrap();
    for (i, q) in qs.iter().enumerate() {
        if stable[i] {
            let after = seq_result(&g, q);
            if after != base[i] {
                out.oracle.push(format!("conc-mismatch db={} after-the-readers query={} sequential={} afterwards={}", kind, show_q(q), base[i], after));
                break;
            }
        }
    }
}

fn rm_db(path: &str) {
    let _ = std::fs::remove_file(path);
    if let Some((dir, name)) = path.rsplit_once('/') { let _ = std::fs::remove_file(format!("{}/.{}", dir, name)); }
}

pub fn run_stress(r: &mut Rng, dir: &str, dbs: usize, nq: usize, threads: usize, out: &mut Out) {
    HOOK_SEED.store(r.next(), Relaxed);
    *LIVE.lock().unwrap() = std::fs::File::create(format!("{}/oracle_live.txt", dir)).ok();
    for d in 0..dbs {
        let kind = ["file", "mapped", "any_file"][d % 3];
        let steps = [40usize, 90, 160, 60, 120, 200][d % 6];
        let path = format!("{}/c23_{}_{}.agdb", dir, d, kind);
        rm_db(&path);
        let mut dr = r.fork();
        let _ = std::fs::write(format!("{}/progress.txt", dir), format!("db={} index={} seed={:x} threads={} queries={}\n", kind, d, dr.0, threads, nq));
        let (l0, c0, d0, y0) = (N_LOCKED.load(Relaxed), N_CONTENDED.load(Relaxed), N_DONE.load(Relaxed), N_DELAYED.load(Relaxed));
        let built = catch_unwind(AssertUnwindSafe(|| -> Result<(), DbError> {
            match kind {
                "file" => { let mut db = DbFile::new(&path)?; build_db(&mut db, &mut dr, steps); set_fs_hook(Some(Box::new(stress_hook))); stress_db(kind, db, &mut dr, nq, threads, out); }
                "mapped" => { let mut db = Db::new(&path)?; build_db(&mut db, &mut dr, steps); set_fs_hook(Some(Box::new(stress_hook))); stress_db(kind, db, &mut dr, nq, threads, out); }
                _ => { let mut db = DbAny::new_file(&path)?; build_db(&mut db, &mut dr, steps); set_fs_hook(Some(Box::new(stress_hook))); stress_db(kind, db, &mut dr, nq, threads, out); }
            }
            Ok(())
        }));
        set_fs_hook(None);
        match built {
            Ok(Ok(())) => {}
            Ok(Err(e)) => out.oracle.push(format!("conc-error db={} could not be created: {}", kind, e.description)),
            Err(_) => out.oracle.push(format!("conc-panic db={} outside the readers: {}", kind, crate::LAST_PANIC.lock().map(|s| s.clone()).unwrap_or_default())),
        }
        out.add(&format!("events:{}:read-locked", kind), N_LOCKED.load(Relaxed) - l0);
        out.add(&format!("events:{}:read-contended", kind), N_CONTENDED.load(Relaxed) - c0);
        out.add(&format!("events:{}:read-done", kind), N_DONE.load(Relaxed) - d0);
        out.add(&format!("events:{}:holder-delayed", kind), N_DELAYED.load(Relaxed) - y0);
        out.add(&format!("db:{}", kind), 1);
        rm_db(&path);
    }
    out.add("threads-per-db", threads as u64);
}

// ------------------------------------------------------------------------------------------ small cases
thread_local! { static TID: Cell<u32> = const { Cell::new(u32::MAX) }; }
static EVLOG: Mutex<Vec<(char, u32)>> = Mutex::new(vec![]);
static SMALL_CTR: AtomicU64 = AtomicU64::new(0);

fn ev(k: char) {
    let t = TID.with(|c| c.get());
    EVLOG.lock().unwrap_or_else(|e| e.into_inner()).push((k, t));
}

fn small_hook(e: &FsEvent) {
    set_fs_hook(Some(Box::new(small_hook)));
    match e {
        FsEvent::ReadLocked(..) => {
            ev('L');
            let z = mix(SMALL_CTR.fetch_add(1, Relaxed) ^ HOOK_SEED.load(Relaxed));
            match z % 4 { 0 => {} 1 => spin_us(z / 4 % 40), _ => spin_us(20 + z / 4 % 120) }
        }
        FsEvent::ReadContended(..) => ev('C'),
        FsEvent::ReadDone => ev('D'),
        _ => {}
    }
}

fn show_res(r: &Option<Vec<u8>>) -> String { match r { Some(b) => hex(b), None => "err".into() } }

pub fn run_small(r: &mut Rng, dir: &str, n: usize, out: &mut Out) {
    HOOK_SEED.store(r.next(), Relaxed);
    for ci in 0..n {
        let len = r.range(4, 48) as usize;
        let content: Vec<u8> = (0..len).map(|_| r.next() as u8).collect();
        let path = format!("{}/c23_small_{}.bin", dir, ci % 4);
        rm_db(&path);
        std::fs::write(&path, &content).unwrap();
        let nt = r.range(2, 3) as usize;
        let reqs: Vec<Vec<(u64, u64)>> = (0..nt).map(|_| (0..r.range(1, 3)).map(|_| {
            match r.below(8) {
                0 => (r.below(len as u64 + 6), 0),                                  // empty read, also beyond the end
                1 => (r.below(len as u64 + 6), r.range(1, 8)),                      // may straddle / lie beyond the end
                _ => { let p = r.below(len as u64); (p, r.range(1, (len as u64 - p).min(8))) }
            }
        }).collect()).collect();
        let fs = match FileStorage::new(&path) { Ok(f) => Arc::new(f), Err(e) => { out.oracle.push(format!("conc-error small: FileStorage::new failed: {}", e.description)); continue; } };
        EVLOG.lock().unwrap().clear();
        set_fs_hook(Some(Box::new(small_hook)));
        // spinning start line: the threads begin their reads within the same microsecond
        let barrier = Arc::new(AtomicU64::new(0));
        let handles: Vec<_> = (0..nt).map(|t| {
            let (fs, barrier, my) = (fs.clone(), barrier.clone(), reqs[t].clone());
            let mut tr = r.fork();
            std::thread::spawn(move || {
                TID.with(|c| c.set(t as u32));
                barrier.fetch_add(1, std::sync::atomic::Ordering::SeqCst);
                while barrier.load(std::sync::atomic::Ordering::SeqCst) < nt as u64 { std::hint::spin_loop(); }
                let mut res: Vec<Option<Vec<u8>>> = vec![];
                for (p, l) in my {
                    if tr.chance(1, 2) { spin_us(tr.below(60)); }
                    let x = catch_unwind(AssertUnwindSafe(|| fs.read(p, l).ok().map(|s| s.to_vec())));
                    ev('E');
                    match x { Ok(v) => res.push(v), Err(_) => return Err(()) }
                }
                Ok(res)
            })
        }).collect();
        let results: Vec<Result<Vec<Option<Vec<u8>>>, ()>> = handles.into_iter().map(|h| h.join().unwrap_or(Err(()))).collect();
        set_fs_hook(None);
        drop(fs);
        let events: Vec<(char, u32)> = EVLOG.lock().unwrap().clone();
        let desc = format!("content={} reqs=[{}]", hex(&content), reqs.iter().map(|l| l.iter().map(|(p, n)| format!("({},{})", p, n)).collect::<Vec<_>>().join(" ")).collect::<Vec<_>>().join(" | "));
        if results.iter().any(|x| x.is_err()) {
            out.oracle.push(format!("conc-panic small {} panic={}", desc, crate::LAST_PANIC.lock().map(|s| s.clone()).unwrap_or_default()));
            continue;
        }
        let results: Vec<Vec<Option<Vec<u8>>>> = results.into_iter().map(|x| x.unwrap()).collect();
        out.evaluations += 1;
        // direct oracle: the sequential result of every read
        for t in 0..nt {
            for (i, (p, l)) in reqs[t].iter().enumerate() {
                let (p, l) = (*p as usize, *l as usize);
                // FileStorage::read run alone: a range beyond the file is an error (also an empty one), else the bytes
                let want = if p + l <= len { Some(content[p..p + l].to_vec()) } else { None };
                if results[t][i] != want {
                    let cls = if results[t][i].is_none() { "conc-error" } else { "conc-mismatch" };
                    out.oracle.push(format!("{} small thread={} read=({},{}) sequential={} concurrent={} {}", cls, t, p, l, show_res(&want), show_res(&results[t][i]), desc));
                }
            }
        }
        // the log of every thread must have the shape (L D? E | C E | E)* with a bare E exactly for the reads beyond the
        // file (rejected before the lock); otherwise a hook event was lost in the window between the hook being taken
        // out and re-installing itself: the case is not replayed
        let mut complete = true;
        let (mut nl, mut nc, mut nb) = (0u64, 0u64, 0u64);
        for t in 0..nt {
            let mine: Vec<char> = events.iter().filter(|(_, u)| *u == t as u32).map(|(k, _)| *k).collect();
            let mut j = 0;
            for i in 0..reqs[t].len() {
                if reqs[t][i].0 + reqs[t][i].1 > len as u64 {
                    if mine.get(j) == Some(&'E') { j += 1; nb += 1; continue; } else { complete = false; break; }
                }
                match mine.get(j) {
                    Some('L') => { nl += 1; j += 1; if mine.get(j) == Some(&'D') { j += 1; } else if results[t][i].is_some() { complete = false; } }
                    Some('C') => { nc += 1; j += 1; }
                    _ => { complete = false; }
                }
                if mine.get(j) == Some(&'E') { j += 1; } else { complete = false; }
                if !complete { break; }
            }
            if j != mine.len() { complete = false; }
        }
        if events.iter().any(|(_, u)| *u as usize >= nt) { complete = false; }
        if !complete { out.add("small:lost-hook-event (not replayed)", 1); continue; }
        out.add("small:cases-replayed", 1);
        out.add("small:reads-locked", nl);
        out.add("small:reads-contended", nc);
        out.add("small:reads-beyond-the-file (rejected before the lock)", nb);
        out.add(&format!("small:threads-{}", nt), 1);
        if nl >= 1 && nc >= 1 { out.nontrivial += 1; out.add("small:cases-with-locked-and-contended-reads", 1); }
        let reqs_s = reqs.iter().map(|l| format!("({})", l.iter().map(|(p, n)| format!("({:x} {:x})", p, n)).collect::<Vec<_>>().join(" "))).collect::<Vec<_>>().join(" ");
        let evs_s = events.iter().map(|(k, t)| format!("({} {:x})", k, t)).collect::<Vec<_>>().join(" ");
        out.cases.push(format!("conc replay {} ({}) ({})", hex(&content), reqs_s, evs_s));
        out.imp.push(format!("ok {}", results.iter().map(|l| l.iter().map(show_res).collect::<Vec<_>>().join(" ")).collect::<Vec<_>>().join(" | ")));
        if out.samples.len() < 3 && nl >= 1 && nc >= 1 { out.samples.push(format!("small: {} events=[{}]", desc, evs_s)); }
        rm_db(&path);
    }
}
