// vclock.rs — virtual clock substituted for std::time::Instant in the copy of raft.rs.
// Time is a thread-local millisecond counter that only the harness moves.
use std::cell::Cell;
use std::ops::{Add, Sub};
use std::time::Duration;

thread_local! { static NOW: Cell<u64> = const { Cell::new(1 << 40) }; }

pub fn now_ms() -> u64 { NOW.with(|n| n.get()) }
pub fn set_now_ms(ms: u64) { NOW.with(|n| n.set(ms)) }
pub fn advance_ms(ms: u64) { NOW.with(|n| n.set(n.get() + ms)) }

#[derive(Clone, Copy, Debug, PartialEq, Eq, PartialOrd, Ord, Hash)]
pub struct Instant(u64);

impl Instant {
    pub fn now() -> Self { Instant(now_ms()) }
    pub fn before_now(ms: u64) -> Self { Instant(now_ms().saturating_sub(ms)) }
    pub fn elapsed(&self) -> Duration { Duration::from_millis(now_ms().saturating_sub(self.0)) }
    pub fn duration_since(&self, earlier: Instant) -> Duration { Duration::from_millis(self.0.saturating_sub(earlier.0)) }
}
impl Add<Duration> for Instant { type Output = Instant; fn add(self, d: Duration) -> Instant { Instant(self.0 + d.as_millis() as u64) } }
impl Sub<Duration> for Instant { type Output = Instant; fn sub(self, d: Duration) -> Instant { Instant(self.0.saturating_sub(d.as_millis() as u64)) } }
impl Sub<Instant> for Instant { type Output = Duration; fn sub(self, o: Instant) -> Duration { self.duration_since(o) } }
