// hx_raft — drives the real agdb_server/src/raft.rs (build-time copy, virtual clock) from event lists.
//   hx_raft gen     --seed S --n N --len L --out DIR      random adversarial event lists (3 nodes, every 6th case 5 nodes),
//                                                         then max(3, N/40) instances of each scripted gadget (gadget.rs) with random variations
//   hx_raft replay  --file F --out DIR                    explicit event lists, one per line: "[G:d1,d2 ]<nodes> (T ..) (D ..) ..."
//   hx_raft live    --seed S --n N --out DIR              fault-free timed simulations (C30): real timeouts, every message delivered
//   hx_raft explore --depth D --budget B --out DIR        bounded exhaustive exploration of 3-node clusters (search only)
//   hx_raft probe                                         print the revision bits "abc" of raft.rs found by behaviour
// Every sub-command takes --rev <abc> (default 000): the revision of raft.rs the check read from the source
// tree (a: vote_request adopts the term, b: response() counts a Vote/Ok only for the current term, c: a leader counts
// only acknowledgements of its current term — rows reset at election, Ok answers of other terms ignored); it is written
// into the case lines (`raft run r<abc> ...`) so that the model runs the same revision.
// Files written to DIR: cases.txt (input of the model driver), impl.txt (implementation's observations, same order),
// oracle.txt (direct violations of the properties on the implementation), stats.json.
mod raft {
    include!(concat!(env!("OUT_DIR"), "/raft_src.rs"));
}
mod gadget;
mod rng;
mod server_error;
mod sim;
mod vclock;

use rng::Rng;
use sim::{Ev, World, show_events};
use std::collections::{BTreeMap, HashSet};
use std::io::Write;

fn arg(args: &[String], name: &str, default: &str) -> String {
    args.iter().position(|a| a == name).and_then(|i| args.get(i + 1)).cloned().unwrap_or(default.to_string())
}

fn json_str(s: &str) -> String {
    let mut o = String::from("\"");
    for c in s.chars() {
        match c {
            '"' => o.push_str("\\\""),
            '\\' => o.push_str("\\\\"),
            '\n' => o.push_str("\\n"),
            c if (c as u32) < 0x20 => o.push_str(&format!("\\u{:04x}", c as u32)),
            c => o.push(c),
        }
    }
    o.push('"');
    o
}

#[derive(Default)]
struct Out {
    cases: Vec<String>,
    imp: Vec<String>,
    oracle: Vec<String>,
    stats: BTreeMap<String, u64>,
    samples: Vec<String>,
    nontrivial: u64,
    events: u64,
}

impl Out {
    fn bump(&mut self, k: &str, by: u64) { *self.stats.entry(k.to_string()).or_insert(0) += by; }

    /// run one event list on the implementation; record case, observations, oracle failures
    fn run_case(&mut self, n: u64, evs: &[Ev], tag: &str, goal: Option<&[u64]>) -> World {
        let mut w = World::new(n);
        let mut lines = Vec::with_capacity(evs.len());
        for e in evs {
            w.apply(e);
            lines.push(w.show());
        }
        let evtxt = show_events(n, evs);
        let caseno = self.cases.len() / 2;
        self.cases.push(format!("raft run r{} {}", sim::rev_str(), evtxt));
        self.imp.push(lines.join(" ;; "));
        self.cases.push(format!("raft flags r{} {}", sim::rev_str(), evtxt));
        self.imp.push(w.orc.flags());
        if let Some(data) = goal {
            if !w.synced(data) {
                w.orc.failures.push(sim::Failure { prop: "C30", kind: "no-convergence", cls: "unclassified-no-convergence".to_string(),
                    at: evs.len(), detail: format!("fault-free schedule did not reach one leader with all logs = {:?} committed everywhere; final: {}", data, w.show()) });
            }
        }
        for f in &w.orc.failures {
            self.oracle.push(format!("{} cls={} kind={} case={} tag={} at={} detail=<{}> events={}", f.prop, f.cls, f.kind, caseno, tag, f.at, f.detail, evtxt));
            self.bump(&format!("failure:{}:{}", f.prop, f.cls), 1);
        }
        self.events += evs.len() as u64;
        self.bump(&format!("cases:{}:n{}", tag, n), 1);
        self.bump("elections-started", w.orc.elections);
        self.bump("leaders-elected", w.orc.leader_changes);
        self.bump("entries-committed", w.orc.commits);
        for e in evs {
            let k = match e { Ev::Tick { .. } => "ev:tick", Ev::Deliver { .. } => "ev:deliver", Ev::Drop { .. } => "ev:drop", Ev::Dup { .. } => "ev:duplicate", Ev::Append { .. } => "ev:append" };
            self.bump(k, 1);
        }
        if w.orc.leader_changes >= 1 { self.nontrivial += 1; }
        if w.orc.leader_changes >= 2 { self.bump("cases-with-2+-leaders-elected", 1); }
        if w.orc.commits >= 1 { self.bump("cases-with-commit", 1); }
        if self.samples.len() < 3 && w.orc.leader_changes >= 1 && evs.len() <= 40 { self.samples.push(format!("{}: {}", tag, evtxt)); }
        w
    }

    fn write(&self, out: &str) {
        let wl = |name: &str, lines: &[String]| {
            let mut f = std::io::BufWriter::new(std::fs::File::create(format!("{}/{}", out, name)).unwrap());
            for l in lines { writeln!(f, "{}", l).unwrap(); }
        };
        wl("cases.txt", &self.cases);
        wl("impl.txt", &self.imp);
        wl("oracle.txt", &self.oracle);
        let mut s = String::from("{\n \"dist\": {");
        s.push_str(&self.stats.iter().map(|(k, v)| format!("{}: {}", json_str(k), v)).collect::<Vec<_>>().join(", "));
        s.push_str(&format!("}},\n \"rev\": {},\n \"probe_rev\": {},\n \"evaluations\": {},\n \"distinct_nontrivial\": {},\n \"events\": {},\n \"samples\": [",
            json_str(&sim::rev_str()), json_str(&probe_rev()), self.cases.len() / 2, self.nontrivial, self.events));
        s.push_str(&self.samples.iter().map(|x| json_str(x)).collect::<Vec<_>>().join(", "));
        s.push_str("]\n}\n");
        std::fs::write(format!("{}/stats.json", out), s).unwrap();
    }
}

// ---------------------------------------------------------------- revision probe

/// Which repairs the raft.rs under test has, determined by BEHAVIOUR on scripted 3-node histories (independent of
/// --rev, which the check derives from the source text; the check compares the two):
///   a = after granting a Vote request of term 1 the voter's term is 1 (vote_request adopts the term);
///   b = a candidate of term 2 that receives the Ok answer to its Vote request of term 1 does not mark the voter;
///   c = (probe_ack) a node that becomes Leader clears the (index, term, commit) rows of the other nodes AND a Leader of
///       term 3 ignores the Ok answer to its Append request of term 1 ('?' if only one of the two halves is present).
/// Returns "abc" ("??" + c if the first scripted history did not unfold as expected, c = '?' if the second did not).
fn probe_rev() -> String { format!("{}{}", probe_election(), probe_ack()) }

/// bit c of the revision.  One history: node 0 is Leader of term 1, appends entry 1, node 2 acknowledges it (row[2] of
/// node 0 = 1.1.0), node 1 acknowledges it too but that answer stays in flight; node 2 is elected for term 2 and its
/// heartbeat makes node 0 a follower; node 0 is elected for term 3 — are the rows of the others cleared? — and then
/// receives the old Ok answer to its Append of term 1 — is row[1] written?
fn probe_ack() -> char {
    let mut w = World::new(3);
    let find = |w: &World, pre: &str| -> Option<usize> { w.net.iter().position(|m| m.show().starts_with(pre)) };
    let deliver = |w: &mut World, pre: &str, elapsed: u64| -> bool {
        match find(w, pre) { Some(k) => { w.apply(&Ev::Deliver { k, elapsed }); true } None => false }
    };
    let late = sim::TT_MS + 1;
    // node 0 elected for term 1 by node 1; heartbeats delivered and answered
    w.apply(&Ev::Tick { i: 0, elapsed: 0, due: vec![] });
    for pre in ["Q(P:0>1:", "R(ok;P:0>1:", "Q(V:0>1:t1:", "R(ok;V:0>1:t1:", "Q(H:0>1:t1:", "R(ok;H:0>1:t1:", "Q(H:0>2:t1:", "R(ok;H:0>2:t1:"] {
        if !deliver(&mut w, pre, 0) { return '?'; }
    }
    if !(w.nodes[0].vx_is_leader() && w.nodes[0].vx_term() == 1) { return '?'; }
    // entry 1: acknowledged by node 2 (counted: row[2] = 1.1.0, committed), acknowledged by node 1 (answer kept in flight)
    w.apply(&Ev::Append { i: 0, d: 7 });
    for pre in ["Q(A:0>2:t1:", "R(ok;A:0>2:t1:", "Q(A:0>1:t1:"] {
        if !deliver(&mut w, pre, 0) { return '?'; }
    }
    if w.nodes[0].vx_peers()[2].0 != 1 || find(&w, "R(ok;A:0>1:t1:").is_none() { return '?'; }
    // node 2 elected for term 2 by node 1
    w.apply(&Ev::Tick { i: 2, elapsed: late, due: vec![] });
    let et2 = w.nodes[2].vx_et_ms();
    w.apply(&Ev::Tick { i: 2, elapsed: et2, due: vec![] });
    if !deliver(&mut w, "Q(P:2>1:", late) || !deliver(&mut w, "R(ok;P:2>1:", 0) { return '?'; }
    w.apply(&Ev::Tick { i: 1, elapsed: late, due: vec![] });
    if !deliver(&mut w, "Q(V:2>1:t2:", 0) || !deliver(&mut w, "R(ok;V:2>1:t2:", 0) { return '?'; }
    if !(w.nodes[2].vx_is_leader() && w.nodes[2].vx_term() == 2) { return '?'; }
    if !deliver(&mut w, "Q(H:2>0:t2:", 0) { return '?'; }
    if w.nodes[0].vx_follows() != Some(2) || w.nodes[0].vx_peers()[2].0 != 1 { return '?'; }
    // node 0 elected for term 3 by node 1
    w.apply(&Ev::Tick { i: 0, elapsed: late, due: vec![] });
    w.apply(&Ev::Tick { i: 0, elapsed: 0, due: vec![] });
    for pre in ["Q(P:0>1:", "R(ok;P:0>1:", "Q(V:0>1:t3:", "R(ok;V:0>1:t3:"] {
        if !deliver(&mut w, pre, 0) { return '?'; }
    }
    if !(w.nodes[0].vx_is_leader() && w.nodes[0].vx_term() == 3) { return '?'; }
    let reset = w.nodes[0].vx_peers()[2].0 == 0;
    if w.nodes[0].vx_peers()[1].0 != 0 { return '?'; }
    // the Ok answer to the Append request of term 1 arrives at the Leader of term 3
    if !deliver(&mut w, "R(ok;A:0>1:t1:", 0) { return '?'; }
    let guard = w.nodes[0].vx_peers()[1].0 == 0;
    match (reset, guard) { (true, true) => '1', (false, false) => '0', _ => '?' }
}

fn probe_election() -> String {
    let mut w = World::new(3);
    let find = |w: &World, pre: &str| -> Option<usize> { w.net.iter().position(|m| m.show().starts_with(pre)) };
    let mut deliver = |w: &mut World, pre: &str| -> bool {
        match find(w, pre) { Some(k) => { w.apply(&Ev::Deliver { k, elapsed: 0 }); true } None => false }
    };
    // node 0: pre-election, pre-vote of node 1, candidate of term 1 (Vote requests of term 1 stay in flight)
    w.apply(&Ev::Tick { i: 0, elapsed: 0, due: vec![] });
    if !deliver(&mut w, "Q(P:0>1:") || !deliver(&mut w, "R(ok;P:0>1:") { return "??".to_string(); }
    if !(w.nodes[0].vx_is_candidate() && w.nodes[0].vx_term() == 1) { return "??".to_string(); }
    // term timeout, second pre-election, candidate of term 2
    w.apply(&Ev::Tick { i: 0, elapsed: sim::TT_MS + 1, due: vec![] });
    w.apply(&Ev::Tick { i: 0, elapsed: 0, due: vec![] });
    if !deliver(&mut w, "Q(P:0>1:") || !deliver(&mut w, "R(ok;P:0>1:") { return "??".to_string(); }
    if !(w.nodes[0].vx_is_candidate() && w.nodes[0].vx_term() == 2) { return "??".to_string(); }
    // node 2 grants the old Vote request of term 1
    if !deliver(&mut w, "Q(V:0>2:t1:") { return "??".to_string(); }
    let a = w.nodes[2].vx_term() == 1;
    // node 0 (candidate of term 2) receives that answer
    if find(&w, "R(ok;V:0>2:t1:").is_none() { return "??".to_string(); }
    deliver(&mut w, "R(ok;V:0>2:t1:");
    let b = !w.nodes[0].vx_peers()[2].3 && !w.nodes[0].vx_is_leader();
    format!("{}{}", a as u8, b as u8)
}

// ---------------------------------------------------------------- random adversarial generator

fn pick_elapsed(rng: &mut Rng, w: &World, i: usize) -> u64 {
    let et = w.nodes[i].vx_et_ms();
    let tt = w.nodes[i].vx_tt_ms();
    match rng.below(8) {
        0 => 0,
        1 => et.saturating_sub(1),
        2 | 3 | 4 => et,
        5 => tt,
        6 => tt + 1,
        _ => rng.below(5000),
    }
}

fn gen_event(rng: &mut Rng, w: &World, mode: u64, next_data: &mut u64) -> Ev {
    let n = w.n;
    let net = w.net.len();
    let leaders = w.leader_ids();
    let roll = rng.below(100);
    // mode 0: mostly orderly (elections complete, appends replicate); mode 1: adversarial; mode 2: partition-like bursts
    let (p_deliver, p_tick, p_append, p_drop) = match mode { 0 => (62, 20, 12, 3), 1 => (45, 25, 10, 10), _ => (40, 30, 12, 12) };
    if net > 0 && (roll < p_deliver || net > 28) {
        let k = if rng.chance(1, 2) { 0 } else { rng.below(net as u64) as usize };
        let elapsed = if rng.chance(1, 5) { sim::TT_MS + 1 } else { 0 };
        return Ev::Deliver { k, elapsed };
    }
    if roll < p_deliver + p_tick || net == 0 && roll < 70 {
        let i = rng.below(n);
        let elapsed = pick_elapsed(rng, w, i as usize);
        let mut due = vec![];
        for j in 0..n { if j != i && rng.chance(1, 2) { due.push(j); } }
        return Ev::Tick { i, elapsed, due };
    }
    if roll < p_deliver + p_tick + p_append {
        let i = if !leaders.is_empty() && rng.chance(9, 10) { *rng.pick(&leaders) } else { rng.below(n) };
        *next_data += 1;
        return Ev::Append { i, d: *next_data };
    }
    if net > 0 {
        let k = rng.below(net as u64) as usize;
        if roll < p_deliver + p_tick + p_append + p_drop { Ev::Drop { k } } else { Ev::Dup { k } }
    } else {
        Ev::Tick { i: rng.below(n), elapsed: sim::TT_MS + 1, due: vec![] }
    }
}

fn gen_case(rng: &mut Rng, n: u64, len: usize, mode: u64) -> Vec<Ev> {
    let mut w = World::new(n);
    let mut evs = vec![];
    let mut data = 0;
    // optional orderly prefix: elect a first leader quickly so that deeper scenarios are reached
    if rng.chance(2, 3) {
        let starter = rng.below(n);
        let pre = vec![Ev::Tick { i: starter, elapsed: w.nodes[starter as usize].vx_et_ms(), due: vec![] }];
        for e in pre { w.apply(&e); evs.push(e); }
    }
    while evs.len() < len && !w.poisoned {
        let e = gen_event(rng, &w, mode, &mut data);
        w.apply(&e);
        evs.push(e);
    }
    evs
}

// ---------------------------------------------------------------- C30: fault-free timed simulation

/// Real timeouts, virtual time advancing in `step` ms; every process() call is recorded as a Tick with the
/// elapsed values the implementation really saw; every message is delivered, in order, `lat` rounds later.
fn live_case(rng: &mut Rng, n: u64, appends: usize) -> (Vec<Ev>, Vec<u64>, String) {
    let step = *rng.pick(&[10u64, 50, 100, 250]);
    let lat = rng.below(3) as usize; // rounds a message stays in flight before it is delivered
    let mut w = World::new(n);
    let mut evs: Vec<Ev> = vec![];
    let mut age: Vec<usize> = vec![]; // age (rounds) of each in-flight message, parallel to w.net
    let mut data: Vec<u64> = vec![];
    let mut next_append_at: Option<u64> = None;
    let mut t = 0u64;
    let horizon = 40_000u64;
    let sync = |w: &World, age: &mut Vec<usize>| { while age.len() < w.net.len() { age.push(0); } };
    while t < horizon {
        // 1. process() on every node, with the real timers
        for i in 0..n as usize {
            let elapsed = w.nodes[i].vx_elapsed_ms(i as u64);
            let hb = w.nodes[i].vx_hb_ms();
            let due: Vec<u64> = (0..n).filter(|j| *j as usize != i && w.nodes[i].vx_elapsed_ms(*j) > hb).collect();
            let e = Ev::Tick { i: i as u64, elapsed, due };
            let before = w.show();
            w.apply_timed(&e);
            // calls that changed nothing are not recorded (keeps the lists short); a model that
            // would fire where the implementation did not is still caught by the final-state check
            if w.show() != before { evs.push(e); }
            sync(&w, &mut age);
        }
        // 2. deliver every message that has been in flight for `lat` rounds, oldest first
        let mut k = 0;
        while k < w.net.len() {
            if age[k] >= lat {
                let target_elapsed = match &w.net[k] { sim::Msg::Req(r) => w.nodes[r.target as usize].vx_elapsed_ms(r.target), _ => 0 };
                let e = Ev::Deliver { k, elapsed: target_elapsed };
                age.remove(k);
                w.apply_timed(&e);
                evs.push(e);
                sync(&w, &mut age);
            } else { age[k] += 1; k += 1; }
        }
        // 3. client appends at the leader once it exists
        let leaders = w.leader_ids();
        if leaders.len() == 1 && data.len() < appends {
            match next_append_at {
                None => next_append_at = Some(t + rng.below(1500)),
                Some(at) if t >= at => {
                    let d = 100 + data.len() as u64;
                    let e = Ev::Append { i: leaders[0], d };
                    w.apply_timed(&e);
                    evs.push(e);
                    sync(&w, &mut age);
                    data.push(d);
                    next_append_at = None;
                }
                _ => {}
            }
        }
        if data.len() == appends && w.net.is_empty() && w.synced(&data) && t > 4000 { break; }
        vclock::advance_ms(step);
        t += step;
    }
    let fin = w.show();
    (evs, data, fin)
}

// ---------------------------------------------------------------- bounded exhaustive exploration (search)

fn enabled(w: &World, appends_left: bool, dups_left: bool) -> Vec<Ev> {
    let mut v = vec![];
    for i in 0..w.n {
        let nd = &w.nodes[i as usize];
        if nd.vx_is_leader() {
            let others: Vec<u64> = (0..w.n).filter(|j| *j != i).collect();
            v.push(Ev::Tick { i, elapsed: 0, due: others });
            if appends_left { v.push(Ev::Append { i, d: 7 }); }
        } else {
            if nd.vx_is_election() { v.push(Ev::Tick { i, elapsed: nd.vx_et_ms().min(sim::TT_MS), due: vec![] }); }
            else { v.push(Ev::Tick { i, elapsed: sim::TT_MS + 1, due: vec![] }); }
        }
    }
    for k in 0..w.net.len() {
        v.push(Ev::Deliver { k, elapsed: 0 });
        if let sim::Msg::Req(r) = &w.net[k] {
            if raft::vx_req_kind(r) == 'P' && w.nodes[r.target as usize].vx_follows().is_some() {
                v.push(Ev::Deliver { k, elapsed: sim::TT_MS + 1 });
            }
        }
        if dups_left { v.push(Ev::Dup { k }); }
    }
    v
}

fn explore(out: &mut Out, root: &[Ev], depth: usize, budget: usize) {
    // iterative DFS by replay; a state is identified by its printed line (network as a sorted multiset) + oracle summary
    let mut seen: HashSet<String> = HashSet::new();
    let depth = root.len() + depth;
    let mut stack: Vec<Vec<Ev>> = vec![root.to_vec()];
    let mut visited = 0usize;
    let mut failing: Vec<Vec<Ev>> = vec![];
    let mut fail_keys: HashSet<String> = HashSet::new();
    let mut sample_paths: Vec<Vec<Ev>> = vec![];
    while let Some(path) = stack.pop() {
        if visited >= budget { break; }
        let mut w = World::new(3);
        for e in &path { w.apply(e); }
        visited += 1;
        if !w.orc.failures.is_empty() {
            let key = w.orc.failures.iter().map(|f| format!("{}:{}", f.kind, f.cls)).collect::<Vec<_>>().join("+");
            if fail_keys.insert(key) { failing.push(path.clone()); }
            continue;
        }
        if path.len() >= depth { if sample_paths.len() < 400 && visited % 97 == 0 { sample_paths.push(path.clone()); } continue; }
        let appends = path.iter().filter(|e| matches!(e, Ev::Append { .. })).count();
        let dups = path.iter().filter(|e| matches!(e, Ev::Dup { .. })).count();
        for e in enabled(&w, appends < 2, dups < 1) {
            let mut w2 = World::new(3);
            for x in &path { w2.apply(x); }
            w2.apply(&e);
            let line = w2.show();
            let (nodes, net) = line.split_once(" | ").unwrap_or((&line, ""));
            let mut msgs: Vec<&str> = net.split(' ').collect();
            msgs.sort();
            let key = format!("{}|{}|{}|{:?}|{:?}|{}", nodes, msgs.join(" "), w2.orc.flags(), w2.orc.leaders, w2.orc.lcommits, path.len() + 1);
            if seen.insert(key) {
                let mut p = path.clone();
                p.push(e);
                stack.push(p);
            }
        }
    }
    out.bump("explore:states-visited", visited as u64);
    out.bump("explore:distinct-states", seen.len() as u64);
    for p in failing.iter().chain(sample_paths.iter()) { out.run_case(3, p, "explore", None); }
}

impl World {
    /// apply without touching the timers (live mode: the virtual clock is real)
    fn apply_timed(&mut self, ev: &Ev) {
        self.timed = true;
        self.apply(ev);
        self.timed = false;
    }
}

fn main() {
    let args: Vec<String> = std::env::args().collect();
    let cmd = args.get(1).cloned().unwrap_or_default();
    let seed: u64 = arg(&args, "--seed", "1").parse().unwrap();
    let n: usize = arg(&args, "--n", "10").parse().unwrap();
    let len: usize = arg(&args, "--len", "60").parse().unwrap();
    let outdir = arg(&args, "--out", ".");
    std::fs::create_dir_all(&outdir).unwrap();
    std::panic::set_hook(Box::new(|_| {}));
    let rev = arg(&args, "--rev", "000");
    if rev.len() != 3 || !rev.chars().all(|c| c == '0' || c == '1') { eprintln!("bad --rev {}", rev); std::process::exit(2); }
    sim::set_rev(&rev[0..1] == "1", &rev[1..2] == "1", &rev[2..3] == "1");
    if cmd == "probe" { println!("{}", probe_rev()); return; }
    let mut out = Out::default();
    let mut rng = Rng::new(seed);
    match cmd.as_str() {
        "gen" => {
            for c in 0..n {
                let size = if c % 6 == 5 { 5 } else { 3 };
                let mode = rng.below(3);
                let l = if rng.chance(1, 4) { len / 2 } else { len };
                let mut r = rng.fork();
                let evs = gen_case(&mut r, size, l.max(4), mode);
                out.run_case(size, &evs, "random", None);
            }
            // scripted situations the random lists do not reach (gadget.rs), with random variations
            for _ in 0..(n / 40).max(3) {
                let mut r = rng.fork();
                let (size, evs, done) = gadget::delayed_vote(&mut r, false, &mut |r, w, d| gen_event(r, w, 1, d));
                out.run_case(size, &evs, if done { "gadget-delayed-vote" } else { "gadget-delayed-vote-incomplete" }, None);
                let mut r = rng.fork();
                let (size, evs, goal) = gadget::partition_heal(&mut r, false);
                out.run_case(size, &evs, if goal.is_some() { "gadget-partition-heal" } else { "gadget-partition-heal-incomplete" }, goal.as_deref());
            }
        }
        "replay" => {
            let file = arg(&args, "--file", "");
            let text = std::fs::read_to_string(&file).unwrap_or_else(|e| { eprintln!("cannot read {}: {}", file, e); std::process::exit(2) });
            for line in text.lines() {
                let line = line.trim();
                if line.is_empty() || line.starts_with('#') { continue; }
                // optional prefix "G:d1,d2,.. " = the run must end synced with exactly these entries (C30 goal)
                let (goal, line) = match line.strip_prefix("G:") {
                    Some(rest) => {
                        let (g, l) = rest.split_once(' ').unwrap_or((rest, ""));
                        (Some(g.split(',').filter(|x| !x.is_empty()).map(|x| x.parse::<u64>().unwrap()).collect::<Vec<u64>>()), l.trim())
                    }
                    None => (None, line),
                };
                match sim::parse_events(line) {
                    Some((size, evs)) => { out.run_case(size, &evs, "corpus", goal.as_deref()); }
                    None => { eprintln!("bad event list: {}", line); std::process::exit(2); }
                }
            }
        }
        "live" => {
            // number of client appends per simulated cluster: 1..=max_appends
            let max_appends: u64 = arg(&args, "--max-appends", "3").parse().unwrap();
            for c in 0..n {
                let size = if c % 4 == 3 { 5 } else { 3 };
                let mut r = rng.fork();
                let appends = 1 + r.below(max_appends.max(1)) as usize;
                vclock::set_now_ms(1 << 40);
                let (evs, data, fin) = live_case(&mut r, size, appends);
                // replay the recorded abstract event list with forced timers: same observations expected
                let w = out.run_case(size, &evs, "live", Some(&data));
                if w.show() != fin {
                    out.oracle.push(format!("C30 cls=unclassified-live-replay-mismatch kind=live-replay-mismatch case={} tag=live at=0 detail=<timed run ended in {} but its recorded event list replays to {}> events={}",
                        out.cases.len() / 2 - 1, fin, w.show(), show_events(size, &evs)));
                }
            }
        }
        "explore" => {
            let depth: usize = arg(&args, "--depth", "10").parse().unwrap();
            let budget: usize = arg(&args, "--budget", "200000").parse().unwrap();
            // from the initial state, and (an eighth of the budget each, shallower) from the states the two gadgets reach
            explore(&mut out, &[], depth, budget);
            for v in 0..4u64 {
                let mut r = Rng::new(seed + v);
                let (_, a, ok) = gadget::delayed_vote(&mut r, true, &mut |r, w, d| gen_event(r, w, 1, d));
                if ok { explore(&mut out, &a, depth.min(7), budget / 32); }
                let mut r = Rng::new(seed + v);
                let (_, b, goal) = gadget::partition_heal(&mut r, true);
                if goal.is_some() { explore(&mut out, &b, depth.min(7), budget / 32); }
            }
        }
        _ => {
            eprintln!("unknown command {}", cmd);
            std::process::exit(2);
        }
    }
    out.write(&outdir);
}
