// minimal stand-in for agdb_server/src/server_error.rs (raft.rs uses ServerResult and `e.description`)
#[derive(Debug)]
pub(crate) struct ServerError {
    pub(crate) description: String,
}

pub(crate) type ServerResult<T = ()> = Result<T, ServerError>;

impl<E: ToString> From<E> for ServerError {
    fn from(value: E) -> Self {
        Self { description: value.to_string() }
    }
}
