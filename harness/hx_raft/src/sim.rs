// sim.rs — a cluster of real `raft::Cluster` values driven by an event list, the canonical
// state printer (same format as extract/m_raft.ml) and the properties' direct oracles.
use crate::raft::{self, Cluster, ClusterSettings, Log, Request, Response, Storage};
use crate::server_error::ServerResult;
use crate::vclock;
use std::collections::{BTreeMap, BTreeSet};
use std::time::Duration;

// ---------------------------------------------------------------- storage (truncate-on-append)

#[derive(Default)]
pub struct MemStorage {
    pub logs: Vec<Log<u64>>,
    pub commit: u64,
}

impl Storage<u64, ()> for MemStorage {
    async fn append(&mut self, log: Log<u64>, _notifier: Option<()>) -> ServerResult<()> {
        // ClusterStorage::append: remove_uncommitted_logs(log.index) then append_log; the
        // in-file test storage: truncate(index - 1); push
        self.logs.truncate((log.index - 1) as usize);
        self.logs.push(log);
        Ok(())
    }
    async fn commit(&mut self, index: u64) -> ServerResult<()> {
        self.commit = index;
        Ok(())
    }
    fn log_index(&self) -> u64 { self.logs.last().map(|l| l.index).unwrap_or(0) }
    fn log_term(&self) -> u64 { self.logs.last().map(|l| l.term).unwrap_or(0) }
    fn log_commit(&self) -> u64 { self.commit }
    async fn logs(&self, from_index: u64) -> ServerResult<Vec<Log<u64>>> {
        // ClusterLog::logs_since: the newest (count - from) entries, none if from >= count
        Ok(self.logs.iter().skip(from_index as usize).cloned().collect())
    }
}

pub type Node = Cluster<u64, (), MemStorage>;

/// the futures of the in-memory storage never pend
pub fn block_on<F: std::future::Future>(f: F) -> F::Output {
    let mut f = std::pin::pin!(f);
    let mut cx = std::task::Context::from_waker(std::task::Waker::noop());
    match f.as_mut().poll(&mut cx) {
        std::task::Poll::Ready(v) => v,
        std::task::Poll::Pending => panic!("future pended"),
    }
}

// ---------------------------------------------------------------- events

#[derive(Clone, Debug, PartialEq)]
pub enum Ev {
    Tick { i: u64, elapsed: u64, due: Vec<u64> },
    Deliver { k: usize, elapsed: u64 },
    Drop { k: usize },
    Dup { k: usize },
    Append { i: u64, d: u64 },
}

impl Ev {
    pub fn show(&self) -> String {
        match self {
            Ev::Tick { i, elapsed, due } => format!("(T {} {} ({}))", i, elapsed,
                due.iter().map(|x| x.to_string()).collect::<Vec<_>>().join(" ")),
            Ev::Deliver { k, elapsed } => format!("(D {} {})", k, elapsed),
            Ev::Drop { k } => format!("(X {})", k),
            Ev::Dup { k } => format!("(U {})", k),
            Ev::Append { i, d } => format!("(A {} {})", i, d),
        }
    }
}

pub fn show_events(n: u64, evs: &[Ev]) -> String {
    format!("{} {}", n, evs.iter().map(|e| e.show()).collect::<Vec<_>>().join(" "))
}

/// parse "<n> (T 0 0 ()) (D 1 0) ..."
pub fn parse_events(s: &str) -> Option<(u64, Vec<Ev>)> {
    let toks: Vec<String> = s.replace('(', " ( ").replace(')', " ) ").split_whitespace().map(|x| x.to_string()).collect();
    if toks.is_empty() { return None; }
    let n: u64 = toks[0].parse().ok()?;
    let mut evs = vec![];
    let mut p = 1;
    let num = |t: &String| -> Option<u64> { t.parse().ok() };
    while p < toks.len() {
        if toks[p] != "(" { return None; }
        let tag = toks.get(p + 1)?.clone();
        p += 2;
        match tag.as_str() {
            "T" => {
                let i = num(toks.get(p)?)?; let e = num(toks.get(p + 1)?)?;
                if toks.get(p + 2)? != "(" { return None; }
                p += 3;
                let mut due = vec![];
                while toks.get(p)? != ")" { due.push(num(&toks[p])?); p += 1; }
                p += 1;
                evs.push(Ev::Tick { i, elapsed: e, due });
            }
            "D" => { evs.push(Ev::Deliver { k: num(toks.get(p)?)? as usize, elapsed: num(toks.get(p + 1)?)? }); p += 2; }
            "X" => { evs.push(Ev::Drop { k: num(toks.get(p)?)? as usize }); p += 1; }
            "U" => { evs.push(Ev::Dup { k: num(toks.get(p)?)? as usize }); p += 1; }
            "A" => { evs.push(Ev::Append { i: num(toks.get(p)?)?, d: num(toks.get(p + 1)?)? }); p += 2; }
            _ => return None,
        }
        if toks.get(p)? != ")" { return None; }
        p += 1;
    }
    Some((n, evs))
}

// ---------------------------------------------------------------- world

pub enum Msg {
    Req(Request<u64>),
    Resp(Request<u64>, Response),
}

impl Msg {
    pub fn show(&self) -> String {
        match self {
            Msg::Req(r) => format!("Q({})", raft::vx_req(r)),
            Msg::Resp(r, s) => format!("R({};{})", raft::vx_res(s), raft::vx_req(r)),
        }
    }
    fn dup(&self) -> Msg {
        match self {
            Msg::Req(r) => Msg::Req(raft::vx_clone_req(r)),
            Msg::Resp(r, s) => Msg::Resp(raft::vx_clone_req(r), raft::vx_clone_res(s)),
        }
    }
}

// revision of raft.rs under test, as selected by the check from the source tree (--rev <abc>:
// a = vote_request adopts the request's term, b = response() counts a Vote/Ok only for the current term,
// c = a leader counts only acknowledgements of its current term);
// it is written into every case line (the model runs the same revision) and bit b decides what "counted" means
// for the stale-vote marker.  `main::probe_rev` determines the same three bits by behaviour.
static REV_VOTE_TERM: std::sync::atomic::AtomicBool = std::sync::atomic::AtomicBool::new(false);
static REV_VOTE_MATCH: std::sync::atomic::AtomicBool = std::sync::atomic::AtomicBool::new(false);
static REV_ACK_TERM: std::sync::atomic::AtomicBool = std::sync::atomic::AtomicBool::new(false);
pub fn set_rev(vote_term: bool, vote_match: bool, ack_term: bool) {
    REV_VOTE_TERM.store(vote_term, std::sync::atomic::Ordering::Relaxed);
    REV_VOTE_MATCH.store(vote_match, std::sync::atomic::Ordering::Relaxed);
    REV_ACK_TERM.store(ack_term, std::sync::atomic::Ordering::Relaxed);
}
pub fn rev_vote_term() -> bool { REV_VOTE_TERM.load(std::sync::atomic::Ordering::Relaxed) }
pub fn rev_vote_match() -> bool { REV_VOTE_MATCH.load(std::sync::atomic::Ordering::Relaxed) }
pub fn rev_ack_term() -> bool { REV_ACK_TERM.load(std::sync::atomic::Ordering::Relaxed) }
pub fn rev_str() -> String { format!("{}{}{}", rev_vote_term() as u8, rev_vote_match() as u8, rev_ack_term() as u8) }

pub const FACTOR_MS: u64 = 1000;
pub const HB_MS: u64 = 1000;
pub const TT_MS: u64 = 3000;

type Ent = (u64, u64, u64);

#[derive(Clone)]
pub struct Snap {
    pub leader: bool,
    pub candidate: bool,
    pub term: u64,
    pub commit: u64,
    pub li: u64,
    pub logs: Vec<Ent>,
}

#[derive(Clone, Debug)]
pub struct Failure {
    pub prop: &'static str,
    pub kind: &'static str,
    pub cls: String,
    pub at: usize,
    pub detail: String,
}

#[derive(Default)]
pub struct Oracle {
    pub step: usize,
    pub leaders: BTreeMap<u64, BTreeSet<u64>>,              // term -> nodes that were Leader with it
    pub supports: BTreeMap<(u64, u64), BTreeSet<u64>>,       // (voter, term) -> candidates supported
    pub lcommits: Vec<(u64, Option<Ent>, u64)>,              // (index, entry, term of the committing leader)
    pub m_dv: Option<usize>, pub m_sv: Option<usize>, pub m_ad: Option<usize>, pub m_ot: Option<usize>, pub m_av: Option<usize>,
    pub m_nq: Option<usize>,                                // commit-without-quorum (RaftLog.v: nq_node)
    pub m_sa: Option<usize>,                                // root cause of it: a leader counted a row that is not an acknowledgement
                                                            // of its current term (RaftLog.v: stale_ack_counted_b)
    pub fresh: BTreeSet<(u64, u64)>,                        // ghost of that marker: (leader i, peer j) = row j of i was written by commit()
                                                            // from an Ok answer to a request of i's current term since i became Leader
    pub acting: Option<(u64, Option<(u64, u64)>)>,          // node acting in the current step, counted Ok answer (peer, request term)
    pub voted_term: BTreeMap<u64, u64>,                     // voter -> highest term it answered Ok to a Vote request for
    pub failures: Vec<Failure>,
    pub seen: BTreeSet<&'static str>,
    pub elections: u64, pub commits: u64, pub leader_changes: u64,
}

impl Oracle {
    fn classify(&self, markers: &[(&'static str, Option<usize>)]) -> String {
        let mut best: Option<(usize, &'static str)> = None;
        for (name, m) in markers {
            if let Some(at) = m { if best.is_none() || *at < best.unwrap().0 { best = Some((*at, name)); } }
        }
        best.map(|b| b.1.to_string()).unwrap_or_else(|| "unclassified".to_string())
    }
    fn fail(&mut self, prop: &'static str, kind: &'static str, detail: String) {
        if !self.seen.insert(kind) { return; }
        let election = [("double-vote", self.m_dv), ("stale-vote-counted", self.m_sv)];
        let all = [("double-vote", self.m_dv), ("stale-vote-counted", self.m_sv),
                   ("ack-from-diverged-log", self.m_ad), ("old-term-commit", self.m_ot),
                   ("ack-below-voted-term", self.m_av), ("commit-without-quorum", self.m_nq)];
        let cls = match kind {
            "two-leaders-in-term" => self.classify(&election),
            "committed-entries-differ" | "new-leader-misses-committed-entry" => self.classify(&all),
            _ => "unclassified".to_string(),
        };
        let cls = if cls == "unclassified" { format!("unclassified-{}", kind) } else { cls };
        self.failures.push(Failure { prop, kind, cls, at: self.step, detail });
    }
    pub fn flags(&self) -> String {
        let f = |k: &str| if self.seen.contains(k) { 0 } else { 1 };
        let m = |x: &Option<usize>| if x.is_some() { 1 } else { 0 };
        format!("es={} agree={} lc={} dv={} sv={} ad={} ot={} av={} nq={} sa={}", f("two-leaders-in-term"), f("committed-entries-differ"),
                f("new-leader-misses-committed-entry"), m(&self.m_dv), m(&self.m_sv), m(&self.m_ad), m(&self.m_ot), m(&self.m_av), m(&self.m_nq), m(&self.m_sa))
    }
}

pub struct World {
    pub n: u64,
    pub nodes: Vec<Node>,
    pub net: Vec<Msg>,
    pub orc: Oracle,
    pub poisoned: bool,
    pub timed: bool,
}

fn ents(logs: &[Log<u64>]) -> Vec<Ent> { logs.iter().map(|l| (l.index, l.term, l.data)).collect() }

impl World {
    pub fn new(n: u64) -> World {
        let nodes: Vec<Node> = (0..n).map(|index| Cluster::new(MemStorage::default(), ClusterSettings {
            index, size: n, hash: 123, election_factor_ms: FACTOR_MS,
            heartbeat_timeout: Duration::from_millis(HB_MS), term_timeout: Duration::from_millis(TT_MS),
        })).collect();
        let mut w = World { n, nodes, net: vec![], orc: Oracle::default(), poisoned: false, timed: false };
        let snaps = w.snaps();
        for (i, s) in snaps.iter().enumerate() {
            if s.leader { w.orc.leaders.entry(s.term).or_default().insert(i as u64); }
        }
        w
    }

    pub fn snap(&self, i: usize) -> Snap {
        let nd = &self.nodes[i];
        Snap { leader: nd.vx_is_leader(), candidate: nd.vx_is_candidate(), term: nd.vx_term(),
               commit: nd.storage.commit, li: nd.vx_local_log_index(), logs: ents(&nd.storage.logs) }
    }
    pub fn snaps(&self) -> Vec<Snap> { (0..self.nodes.len()).map(|i| self.snap(i)).collect() }

    pub fn show(&self) -> String {
        if self.poisoned { return "PANIC".to_string(); }
        let nodes: Vec<String> = self.nodes.iter().map(|nd| {
            let peers: Vec<String> = nd.vx_peers().iter().map(|p| format!("{}.{}.{}.{}", p.0, p.1, p.2, if p.3 { 1 } else { 0 })).collect();
            format!("{}:{}:{}:{}:c{}:{}:[{}]", nd.vx_index(), nd.vx_state(), nd.vx_term(), nd.vx_et_ms(), nd.storage.commit,
                    raft::vx_entries(&nd.storage.logs), peers.join(","))
        }).collect();
        let msgs: Vec<String> = self.net.iter().map(|m| m.show()).collect();
        format!("{} | {}", nodes.join(" "), msgs.join(" "))
    }

    pub fn leader_ids(&self) -> Vec<u64> {
        self.nodes.iter().filter(|n| n.vx_is_leader()).map(|n| n.vx_index()).collect()
    }

    /// apply one event to the implementation (panics are caught) and run the oracles
    pub fn apply(&mut self, ev: &Ev) {
        if self.poisoned { return; }
        let before = self.snaps();
        let r = std::panic::catch_unwind(std::panic::AssertUnwindSafe(|| self.apply_inner(ev, &before)));
        self.orc.step += 1;
        if r.is_err() {
            self.poisoned = true;
            self.orc.fail("ALL", "panic", format!("the implementation panicked handling {}", ev.show()));
            return;
        }
        let after = self.snaps();
        self.check(&before, &after);
    }

    fn apply_inner(&mut self, ev: &Ev, before: &[Snap]) {
        let step = self.orc.step;
        self.orc.acting = None;
        match ev {
            Ev::Tick { i, elapsed, due } => {
                let i = *i as usize;
                if i >= self.nodes.len() { return; }
                self.orc.acting = Some((i as u64, None));
                let nd = &mut self.nodes[i];
                let hb = nd.vx_hb_ms();
                for j in 0..(if self.timed { 0 } else { self.n }) {
                    if j as usize == i { nd.vx_set_elapsed(j, *elapsed); }
                    else { nd.vx_set_elapsed(j, if due.contains(&j) { hb + 1 } else { 0 }); }
                }
                if let Some(reqs) = nd.process() {
                    for r in reqs { self.net.push(Msg::Req(r)); }
                }
            }
            Ev::Append { i, d } => {
                let i = *i as usize;
                if i >= self.nodes.len() { return; }
                self.orc.acting = Some((i as u64, None));
                if !self.nodes[i].vx_is_leader() { return; }
                let reqs = block_on(self.nodes[i].append(*d, None)).expect("append");
                for r in reqs { self.net.push(Msg::Req(r)); }
            }
            Ev::Drop { k } => { if *k < self.net.len() { self.net.remove(*k); } }
            Ev::Dup { k } => { if *k < self.net.len() { let m = self.net[*k].dup(); self.net.push(m); } }
            Ev::Deliver { k, elapsed } => {
                if *k >= self.net.len() { return; }
                match self.net.remove(*k) {
                    Msg::Req(r) => {
                        let t = r.target as usize;
                        if t >= self.nodes.len() { return; }
                        self.orc.acting = Some((t as u64, None));
                        let me = self.nodes[t].vx_index();
                        if !self.timed { self.nodes[t].vx_set_elapsed(me, *elapsed); }
                        let resp = block_on(self.nodes[t].request(&r));
                        // markers
                        let kind = raft::vx_req_kind(&r);
                        if raft::vx_res_is_ok(&resp) {
                            if kind == 'V' {
                                let set = self.orc.supports.entry((t as u64, raft::vx_req_term(&r))).or_default();
                                set.insert(r.index);
                                if set.len() > 1 && self.orc.m_dv.is_none() { self.orc.m_dv = Some(step); }
                                let e = self.orc.voted_term.entry(t as u64).or_insert(0);
                                *e = (*e).max(raft::vx_req_term(&r));
                            }
                            if kind == 'A' || kind == 'H' {
                                let vt = self.orc.voted_term.get(&(t as u64)).copied().unwrap_or(0);
                                if raft::vx_req_term(&r) < vt && self.orc.m_av.is_none() { self.orc.m_av = Some(step); }
                                let s = r.index as usize;
                                if s < self.nodes.len() {
                                    let li = self.nodes[t].vx_local_log_index() as usize;
                                    let a = ents(&self.nodes[t].storage.logs);
                                    let b = ents(&self.nodes[s].storage.logs);
                                    let fa = &a[..li.min(a.len())];
                                    let fb = &b[..li.min(b.len())];
                                    if fa != fb && self.orc.m_ad.is_none() { self.orc.m_ad = Some(step); }
                                }
                            }
                        }
                        self.net.push(Msg::Resp(r, resp));
                    }
                    Msg::Resp(r, s) => {
                        let t = s.target as usize;
                        if t >= self.nodes.len() { return; }
                        // an Ok answer to an Append/Heartbeat that the (Leader, .., OK) arm of response() passes to commit():
                        // every such answer before the acknowledgement repair, only those of the current term after it
                        let k = raft::vx_req_kind(&r);
                        let counted = (k == 'A' || k == 'H') && raft::vx_res_is_ok(&s)
                            && (!rev_ack_term() || raft::vx_req_term(&r) == before[t].term);
                        self.orc.acting = Some((t as u64, if counted { Some((r.target, raft::vx_req_term(&r))) } else { None }));
                        // marker "stale vote COUNTED": a revision whose response() checks the request's term
                        // (rev_vote_match, from --rev) receives such an answer but does not count it
                        if before[t].candidate && raft::vx_req_kind(&r) == 'V' && raft::vx_res_is_ok(&s)
                            && !rev_vote_match()
                            && raft::vx_req_term(&r) != before[t].term && self.orc.m_sv.is_none() {
                            self.orc.m_sv = Some(step);
                        }
                        if let Some(reqs) = block_on(self.nodes[t].response(&r, &s)).expect("response") {
                            for q in reqs { self.net.push(Msg::Req(q)); }
                        }
                    }
                }
            }
        }
    }

    fn check(&mut self, before: &[Snap], after: &[Snap]) {
        let step = self.orc.step - 1;
        // root-cause marker of commit-without-quorum (RaftLog.v: ackg_step): ghost `fresh` of the acting node, then
        // "a node that is and stays Leader raised its commit index and counted a row that is not fresh"
        if let Some((i, ack)) = self.orc.acting.take() {
            let (b, a) = (&before[i as usize], &after[i as usize]);
            if b.leader && a.leader {
                if let Some((j, t)) = ack {
                    if t == b.term { self.orc.fresh.insert((i, j)); } else { self.orc.fresh.remove(&(i, j)); }
                }
                if a.commit > b.commit {
                    let rows = self.nodes[i as usize].vx_peers();
                    let me = self.nodes[i as usize].vx_index();
                    let stale = (0..rows.len() as u64).any(|j| j != me && rows[j as usize].0 >= a.commit && !self.orc.fresh.contains(&(i, j)));
                    if stale && self.orc.m_sa.is_none() { self.orc.m_sa = Some(step); }
                }
            } else {
                self.orc.fresh.retain(|(x, _)| *x != i);
            }
        }
        for i in 0..after.len() {
            let (b, a) = (&before[i], &after[i]);
            // self-support of a new candidacy
            if a.candidate && !(b.candidate && b.term == a.term) {
                self.orc.elections += 1;
                let set = self.orc.supports.entry((i as u64, a.term)).or_default();
                set.insert(i as u64);
                if set.len() > 1 && self.orc.m_dv.is_none() { self.orc.m_dv = Some(step); }
            }
            // C27
            if a.leader {
                let set = self.orc.leaders.entry(a.term).or_default();
                set.insert(i as u64);
                if set.len() > 1 {
                    let d = format!("term {} has leaders {:?}", a.term, set);
                    self.orc.fail("C27", "two-leaders-in-term", d);
                }
            }
            // C29 (Raft's Leader Completeness): a node that becomes leader holds every entry committed before by a
            // leader of a LOWER term.  A stale candidate that becomes leader of an older term after the commit
            // (delayed votes) is not covered: it cannot commit anything, and textbook Raft allows it too
            // (Props/C29.v: C29_literal_refuted_by_late_leader; corpus/C29/00_late_leader_older_term.txt).
            if a.leader && !b.leader {
                self.orc.leader_changes += 1;
                let miss: Vec<String> = self.orc.lcommits.iter()
                    .filter(|(idx, e, t)| *t < a.term && a.logs.get((*idx - 1) as usize).copied() != *e)
                    .map(|(idx, e, t)| format!("index {} committed {:?} in term {} new leader {} (term {}) has {:?}", idx, e, t, i, a.term, a.logs.get((*idx - 1) as usize)))
                    .collect();
                if !miss.is_empty() { self.orc.fail("C29", "new-leader-misses-committed-entry", miss.join("; ")); }
            }
            // C28 a
            if a.commit < b.commit {
                self.orc.fail("C28", "commit-index-decreased", format!("node {} commit {} -> {}", i, b.commit, a.commit));
            }
            // C28 b
            for idx in 1..=b.commit {
                let x = b.logs.get((idx - 1) as usize);
                if x.is_some() && x != a.logs.get((idx - 1) as usize) {
                    self.orc.fail("C28", "committed-entry-replaced", format!("node {} index {} was {:?} now {:?}", i, idx, x, a.logs.get((idx - 1) as usize)));
                }
            }
            if a.commit > b.commit {
                self.orc.commits += a.commit - b.commit;
                if a.leader && b.leader {
                    for idx in (b.commit + 1)..=a.commit {
                        let e = a.logs.get((idx - 1) as usize).copied();
                        let old = match e { Some(x) => x.1 != a.term, None => true };
                        if old && self.orc.m_ot.is_none() { self.orc.m_ot = Some(step); }
                        // commit-without-quorum: fewer than size/2+1 nodes of the leader's term hold its entry at idx
                        // (the leader counted a peer-table row that is not an acknowledgement of its entry)
                        let holders = after.iter().filter(|s| s.term == a.term && s.logs.get((idx - 1) as usize).copied() == e).count() as u64;
                        if holders < (after.len() as u64) / 2 + 1 && self.orc.m_nq.is_none() { self.orc.m_nq = Some(step); }
                        self.orc.lcommits.push((idx, e, a.term));
                    }
                }
            }
        }
        // C28 c
        for i in 0..after.len() {
            for j in (i + 1)..after.len() {
                let m = after[i].commit.min(after[j].commit);
                for idx in 1..=m {
                    let (x, y) = (after[i].logs.get((idx - 1) as usize), after[j].logs.get((idx - 1) as usize));
                    if x != y {
                        self.orc.fail("C28", "committed-entries-differ", format!("index {}: node {} has {:?}, node {} has {:?}", idx, i, x, j, y));
                    }
                }
            }
        }
    }

    /// C30 goal: one leader, everybody else follows it, logs equal and fully committed
    pub fn synced(&self, data: &[u64]) -> bool {
        let l = self.leader_ids();
        if l.len() != 1 { return false; }
        let ld = &self.nodes[l[0] as usize];
        let llogs = ents(&ld.storage.logs);
        if llogs.iter().map(|e| e.2).collect::<Vec<_>>() != data { return false; }
        self.nodes.iter().all(|nd| (nd.vx_is_leader() || nd.vx_follows() == Some(l[0]))
            && ents(&nd.storage.logs) == llogs && nd.storage.commit == llogs.len() as u64)
    }
}
