// gadget.rs — scripted event-list templates ("gadgets") with random variations.  The random adversarial generator
// practically never reaches situations that need two timer expiries plus one delayed message in the right order, or a
// partition with several divergent entries; the gadgets put the cluster there and hand over to the random generator.
//   A  delayed-vote-after-log-advance: a candidate collects pre-votes while the logs are short, its Vote requests are
//      delayed, the leader replicates and commits entries to the future voters, their term timers expire, then the
//      delayed Vote requests arrive (they must be refused: validate_log_for_vote in vote_request).
//   B  partition-heal with k >= 2 divergent uncommitted entries: an isolated leader accepts k client appends, the rest
//      elects a new leader that commits fewer entries, then the network heals and everything is delivered in order;
//      the run must converge (goal = the new leader's entries committed everywhere).
// Every step is applied to a World of the implementation under test while the list is built, so message positions are
// the real ones; the result is an ordinary event list (replayed on the model like every other case).
use crate::rng::Rng;
use crate::sim::{self, Ev, World};

pub struct Script {
    pub w: World,
    pub evs: Vec<Ev>,
}

impl Script {
    pub fn new(n: u64) -> Script { Script { w: World::new(n), evs: vec![] } }

    pub fn push(&mut self, e: Ev) { self.w.apply(&e); self.evs.push(e); }

    fn find(&self, pre: &str) -> Option<usize> { self.w.net.iter().position(|m| m.show().starts_with(pre)) }

    /// deliver the first in-flight message whose printed form starts with `pre`
    pub fn deliver(&mut self, pre: &str, elapsed: u64) -> bool {
        match self.find(pre) { Some(k) => { self.push(Ev::Deliver { k, elapsed }); true } None => false }
    }

    /// request `kind:from>to` and the answer to it
    pub fn round_trip(&mut self, kind: char, from: u64, to: u64, elapsed: u64) -> bool {
        let q = format!("Q({}:{}>{}:", kind, from, to);
        if !self.deliver(&q, elapsed) { return false; }
        // the answer is the newest message: R(<res>;<req>)
        let tail = format!(";{}:{}>{}:", kind, from, to);
        match self.w.net.iter().rposition(|m| { let s = m.show(); s.starts_with("R(") && s.contains(&tail) }) {
            Some(k) => { self.push(Ev::Deliver { k, elapsed: 0 }); true }
            None => false,
        }
    }

    pub fn drop_where(&mut self, f: &dyn Fn(&str) -> bool) {
        loop {
            match self.w.net.iter().position(|m| f(&m.show())) { Some(k) => self.push(Ev::Drop { k }), None => break }
        }
    }

    pub fn drop_all(&mut self) { self.drop_where(&|_| true); }

    /// deliver everything in flight, oldest first, until the network is empty (at most `cap` deliveries)
    pub fn drain(&mut self, cap: usize) {
        let mut c = 0;
        while !self.w.net.is_empty() && c < cap && !self.w.poisoned { self.push(Ev::Deliver { k: 0, elapsed: 0 }); c += 1; }
    }

    /// make node i start a pre-election now (term timeout first if it is not in state Election)
    fn pre_election(&mut self, i: u64) -> bool {
        if self.w.nodes[i as usize].vx_is_leader() { return false; }
        if !self.w.nodes[i as usize].vx_is_election() { self.push(Ev::Tick { i, elapsed: sim::TT_MS + 1, due: vec![] }); }
        let et = self.w.nodes[i as usize].vx_et_ms();
        self.push(Ev::Tick { i, elapsed: et, due: vec![] });
        self.w.nodes[i as usize].vx_is_election()
    }

    /// node `cand` becomes leader with the votes of `voters` (pre-vote and vote round trips; a voter that follows a
    /// leader sees an expired term timer); other requests of the election stay in flight
    pub fn elect(&mut self, cand: u64, voters: &[u64]) -> bool {
        if !self.pre_election(cand) { return false; }
        // a Follower refuses Vote requests (validate_vote_state): the voters' term timers expire first
        for v in voters {
            let nd = &self.w.nodes[*v as usize];
            if !nd.vx_is_election() && !nd.vx_is_leader() { self.push(Ev::Tick { i: *v, elapsed: sim::TT_MS + 1, due: vec![] }); }
        }
        for v in voters { self.round_trip('P', cand, *v, sim::TT_MS + 1); }
        if !self.w.nodes[cand as usize].vx_is_candidate() { return false; }
        for v in voters { self.round_trip('V', cand, *v, 0); }
        self.w.nodes[cand as usize].vx_is_leader()
    }
}

fn others(n: u64, not: &[u64]) -> Vec<u64> { (0..n).filter(|j| !not.contains(j)).collect() }

fn shuffle(rng: &mut Rng, v: &mut Vec<u64>) {
    for i in (1..v.len()).rev() { let j = rng.below(i as u64 + 1) as usize; v.swap(i, j); }
}

/// A: returns the event list (no goal) and whether the script unfolded to the delayed votes
/// `prefix3`: 3 nodes, stop before the voters' timers expire (root of a bounded exhaustive exploration)
pub fn delayed_vote(rng: &mut Rng, prefix3: bool, tail: &mut dyn FnMut(&mut Rng, &World, &mut u64) -> Ev) -> (u64, Vec<Ev>, bool) {
    let n = if !prefix3 && rng.chance(1, 3) { 5 } else { 3 };
    let q = n / 2; // voters needed besides the candidate itself
    let mut s = Script::new(n);
    let mut data = 10u64;
    let leader = rng.below(n);
    let mut rest = others(n, &[leader]);
    shuffle(rng, &mut rest);
    let cand = rest[0];
    let voters: Vec<u64> = rest[1..1 + q as usize].to_vec();
    // 1. a first leader; everybody follows it
    let all_others = others(n, &[leader]);
    if !s.elect(leader, &all_others[..q as usize]) { return (n, s.evs, false); }
    s.drop_where(&|m| m.starts_with("Q(P:") || m.starts_with("Q(V:") || m.starts_with("R("));
    s.drain(40);
    // optional: some entries replicated and committed everywhere before
    for _ in 0..rng.below(2) { data += 1; s.push(Ev::Append { i: leader, d: data }); s.drain(40); }
    // 2. the candidate and its future voters time out; the candidate collects the pre-votes, its Vote requests stay in flight
    if !s.pre_election(cand) { return (n, s.evs, false); }
    for v in &voters { s.round_trip('P', cand, *v, sim::TT_MS + 1); }
    if !s.w.nodes[cand as usize].vx_is_candidate() { return (n, s.evs, false); }
    s.drop_where(&|m| m.starts_with("Q(P:"));
    if rng.chance(1, 3) { if let Some(k) = s.w.net.iter().position(|m| m.show().starts_with("Q(V:")) { s.push(Ev::Dup { k }); } }
    // 3. the leader replicates 1-2 entries to the future voters and commits them
    let m = 1 + rng.below(2);
    for _ in 0..m {
        data += 1;
        s.push(Ev::Append { i: leader, d: data });
        for v in &voters { s.round_trip('A', leader, *v, 0); }
    }
    if rng.chance(1, 2) { s.drop_where(&|m| m.starts_with("Q(H:") || m.starts_with("Q(A:")); }
    if prefix3 { return (n, s.evs, true); }
    // 4. the voters' term timers expire (Follower -> Election), then the delayed Vote requests arrive
    for v in &voters { s.push(Ev::Tick { i: *v, elapsed: sim::TT_MS + 1, due: vec![] }); }
    let mut done = true;
    for v in &voters { done &= s.round_trip('V', cand, *v, 0); }
    // 5. random continuation
    for _ in 0..rng.below(12) { if s.w.poisoned { break; } let e = tail(rng, &s.w, &mut data); s.push(e); }
    (n, s.evs, done)
}

/// B: returns the event list and the goal (entries that must be committed everywhere), None if the script did not unfold
/// `prefix3`: 3 nodes, stop before the network heals
pub fn partition_heal(rng: &mut Rng, prefix3: bool) -> (u64, Vec<Ev>, Option<Vec<u64>>) {
    let n = if !prefix3 && rng.chance(1, 3) { 5 } else { 3 };
    let q = n / 2;
    let mut s = Script::new(n);
    let mut data = 20u64;
    let old = rng.below(n);
    let mut rest = others(n, &[old]);
    shuffle(rng, &mut rest);
    let new = rest[0];
    let majority: Vec<u64> = rest[1..1 + q as usize].to_vec(); // with `new` a quorum that excludes `old`
    let minority: Vec<u64> = rest[1 + q as usize..].to_vec();  // n = 5: one more node, may share the old leader's tail
    let mut goal: Vec<u64> = vec![];
    if !s.elect(old, &rest[..q as usize]) { return (n, s.evs, None); }
    s.drop_where(&|m| m.starts_with("Q(P:") || m.starts_with("Q(V:") || m.starts_with("R("));
    s.drain(40);
    // optional common committed prefix
    for _ in 0..rng.below(2) { data += 1; goal.push(data); s.push(Ev::Append { i: old, d: data }); s.drain(40); }
    // the old leader is cut off and accepts k >= 2 appends; in a 5-node cluster a minority node may receive them too
    let k = 2 + rng.below(3);
    let share = !minority.is_empty() && rng.chance(1, 2);
    for _ in 0..k {
        data += 1;
        s.push(Ev::Append { i: old, d: data });
        if share { for v in &minority { s.round_trip('A', old, *v, 0); } }
    }
    s.drop_all();
    // the rest elects a new leader, which commits fewer entries
    if !s.elect(new, &majority) { return (n, s.evs, None); }
    s.drop_all();
    let j = 1 + rng.below(k - 1);
    for _ in 0..j {
        data += 1; goal.push(data);
        s.push(Ev::Append { i: new, d: data });
        for v in &majority { s.round_trip('A', new, *v, 0); }
        s.drop_where(&|m| m.starts_with("Q(A:"));
    }
    s.drop_all();
    if prefix3 { return (n, s.evs, Some(goal)); }
    // heal: the new leader's heartbeats reach everybody, everything is delivered in order
    for _ in 0..3 {
        s.push(Ev::Tick { i: new, elapsed: 0, due: others(n, &[new]) });
        s.drain(120);
    }
    (n, s.evs, Some(goal))
}
