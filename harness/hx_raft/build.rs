// build.rs — copies the CURRENT raft.rs of the checked tree into OUT_DIR, replacing the one
// line `use std::time::Instant;` by the virtual clock, and appends the inspection code
// (src/inspect.rs.in).  Nothing else of the source is touched.  (`use crate::server_error::ServerResult;`
// resolves to the minimal compatible type in src/server_error.rs.)
//   HX_RAFT_SRC  overrides the source path (used to test detection on mutated copies).
use std::{env, fs, path::PathBuf};

fn main() {
    let src = env::var("HX_RAFT_SRC").unwrap_or_else(|_| "/repo/agdb_server/src/raft.rs".to_string());
    println!("cargo:rerun-if-env-changed=HX_RAFT_SRC");
    println!("cargo:rerun-if-changed={}", src);
    println!("cargo:rerun-if-changed=src/inspect.rs.in");
    println!("cargo:rerun-if-changed=build.rs");
    let text = fs::read_to_string(&src).unwrap_or_else(|e| panic!("cannot read {}: {}", src, e));
    let needle = "use std::time::Instant;";
    assert!(text.matches(needle).count() == 1, "raft.rs: expected exactly one `{}`", needle);
    let mut out = text.replace(needle, "use crate::vclock::Instant;");
    assert!(!out.contains("std::time::Instant") && !out.contains("SystemTime"),
            "raft.rs reads a clock the virtual clock does not replace");
    let inspect = fs::read_to_string("src/inspect.rs.in").expect("src/inspect.rs.in");
    out.push_str("\n// ---- appended by harness/hx_raft/build.rs (inspection + clock control) ----\n");
    out.push_str(&inspect);
    let dst = PathBuf::from(env::var("OUT_DIR").unwrap()).join("raft_src.rs");
    fs::write(&dst, out).unwrap();
}
