// model.rs — the request language shared with the Coq model (Auth.v) and its text form
// (s-expressions read by extract/m_server.ml; numbers in hex), the mapping of abstract
// names to the strings sent to the server, and the canonical printers of responses.
use agdb::{DbId, DbValue, QueryBuilder, QueryId, QueryIds, QueryResult, QueryType, QueryValues};

pub fn hx(n: u64) -> String { format!("{:x}", n) }

#[derive(Clone, Copy, Debug, PartialEq, Eq, PartialOrd, Ord)]
pub enum Role { Admin, Write, Read }
impl Role {
    pub fn s(self) -> &'static str { match self { Role::Admin => "admin", Role::Write => "write", Role::Read => "read" } }
    pub fn api(self) -> agdb_api::DbUserRole {
        match self { Role::Admin => agdb_api::DbUserRole::Admin, Role::Write => agdb_api::DbUserRole::Write, Role::Read => agdb_api::DbUserRole::Read }
    }
    pub fn from_api(r: agdb_api::DbUserRole) -> Role {
        match r { agdb_api::DbUserRole::Admin => Role::Admin, agdb_api::DbUserRole::Write => Role::Write, agdb_api::DbUserRole::Read => Role::Read }
    }
}
#[derive(Clone, Copy, Debug, PartialEq, Eq)]
pub enum Kind { Mapped, File }
impl Kind {
    pub fn s(self) -> &'static str { match self { Kind::Mapped => "mapped", Kind::File => "file" } }
    pub fn api(self) -> agdb_api::DbKind { match self { Kind::Mapped => agdb_api::DbKind::Mapped, Kind::File => agdb_api::DbKind::File } }
}
#[derive(Clone, Copy, Debug, PartialEq, Eq)]
pub enum Res { All, Db, Audit, Backup }
impl Res {
    pub fn s(self) -> &'static str { match self { Res::All => "all", Res::Db => "db", Res::Audit => "audit", Res::Backup => "backup" } }
    pub fn api(self) -> agdb_api::DbResource {
        match self { Res::All => agdb_api::DbResource::All, Res::Db => agdb_api::DbResource::Db, Res::Audit => agdb_api::DbResource::Audit, Res::Backup => agdb_api::DbResource::Backup }
    }
}
#[derive(Clone, Copy, Debug, PartialEq, Eq)]
pub enum Sel { Cur, All, Others, Sid(u64) }
impl Sel {
    pub fn s(self) -> String {
        match self { Sel::Cur => "cur".into(), Sel::All => "all".into(), Sel::Others => "others".into(), Sel::Sid(n) => format!("(sid {})", hx(n)) }
    }
}

#[derive(Clone, Copy, Debug, PartialEq, Eq)]
pub enum Ref { Id(u64), Res(usize) }
pub const PROBES: [&str; 12] = ["insert_alias", "insert_edges", "insert_index", "remove", "remove_aliases", "remove_index",
    "select_aliases", "select_all_aliases", "select_edge_count", "select_indexes", "select_keys", "select_key_count"];
pub const WRITE_PROBES: [usize; 6] = [0, 1, 2, 3, 4, 5];
pub const READ_PROBES: [usize; 6] = [6, 7, 8, 9, 10, 11];

#[derive(Clone, Debug, PartialEq, Eq)]
pub enum Q { InsNode(u64), SetVal(Vec<Ref>, u64), RmVal(Vec<Ref>), Select(Vec<Ref>), Count, Search, Probe(usize) }

fn refs_s(r: &[Ref]) -> String {
    format!("({})", r.iter().map(|x| match x { Ref::Id(n) => format!("(id {})", hx(*n)), Ref::Res(k) => format!("(res {})", k) }).collect::<Vec<_>>().join(" "))
}
impl Q {
    pub fn s(&self) -> String {
        match self {
            Q::InsNode(m) => format!("(insnode {})", hx(*m)),
            Q::SetVal(r, m) => format!("(setval {} {})", refs_s(r), hx(*m)),
            Q::RmVal(r) => format!("(rmval {})", refs_s(r)),
            Q::Select(r) => format!("(select {})", refs_s(r)),
            Q::Count => "count".into(),
            Q::Search => "search".into(),
            Q::Probe(p) => format!("(probe {})", PROBES[*p]),
        }
    }
    pub fn is_write(&self) -> bool {
        match self { Q::InsNode(_) | Q::SetVal(..) | Q::RmVal(_) => true, Q::Probe(p) => *p < 6, _ => false }
    }
    pub fn to_query(&self) -> QueryType {
        let ids = |r: &[Ref]| -> Vec<QueryId> {
            r.iter().map(|x| match x { Ref::Id(n) => QueryId::Id(DbId(*n as i64)), Ref::Res(k) => QueryId::Alias(format!(":{k}")) }).collect()
        };
        let none: Vec<QueryId> = vec![];
        match self {
            Q::InsNode(m) => QueryBuilder::insert().nodes().values([[("v", *m).into()]]).query().into(),
            Q::SetVal(r, m) => QueryBuilder::insert().values_uniform([("v", *m).into()]).ids(ids(r)).query().into(),
            Q::RmVal(r) => QueryBuilder::remove().values("v").ids(ids(r)).query().into(),
            Q::Select(r) => QueryBuilder::select().ids(ids(r)).query().into(),
            Q::Count => QueryBuilder::select().node_count().query().into(),
            Q::Search => QueryBuilder::search().elements().query().into(),
            Q::Probe(p) => match *p {
                0 => QueryBuilder::insert().aliases(Vec::<String>::new()).ids(none).query().into(),
                1 => QueryBuilder::insert().edges().from(none.clone()).to(none).query().into(),
                2 => QueryBuilder::insert().index("pidx").query().into(),
                3 => QueryBuilder::remove().ids(none).query().into(),
                4 => QueryBuilder::remove().aliases("nope").query().into(),
                5 => QueryBuilder::remove().index("pidx").query().into(),
                6 => QueryBuilder::select().aliases().ids(none).query().into(),
                7 => QueryBuilder::select().aliases().query().into(),
                8 => QueryBuilder::select().edge_count().ids(none).query().into(),
                9 => QueryBuilder::select().indexes().query().into(),
                10 => QueryBuilder::select().keys().ids(none).query().into(),
                _ => QueryBuilder::select().key_count().ids(none).query().into(),
            },
        }
    }
}

fn value_u64(v: &DbValue) -> Option<u64> {
    match v { DbValue::U64(n) => Some(*n), DbValue::I64(n) if *n >= 0 => Some(*n as u64), _ => None }
}
fn ids_refs(ids: &QueryIds) -> Option<String> {
    match ids {
        QueryIds::Ids(v) => {
            let mut out = vec![];
            for id in v {
                match id {
                    QueryId::Id(DbId(n)) if *n >= 0 => out.push(format!("(id {})", hx(*n as u64))),
                    QueryId::Alias(a) if a.starts_with(':') && a[1..].parse::<usize>().is_ok() => out.push(format!("(res {})", &a[1..])),
                    _ => return None,
                }
            }
            Some(format!("({})", out.join(" ")))
        }
        _ => None,
    }
}
fn single_v(values: &QueryValues) -> Option<u64> {
    let kvs = match values {
        QueryValues::Single(kvs) => kvs,
        QueryValues::Multi(m) if m.len() == 1 => &m[0],
        _ => return None,
    };
    if kvs.len() == 1 && kvs[0].key == DbValue::from("v") { value_u64(&kvs[0].value) } else { None }
}

/// canonical text of a real query as found in the audit log (post-injection form)
pub fn canon_query(q: &QueryType) -> String {
    let unknown = |n: &str| format!("(unknown {})", n);
    match q {
        QueryType::InsertNodes(x) => match single_v(&x.values) { Some(m) if x.aliases.is_empty() => format!("(insnode {})", hx(m)), _ => unknown("insert_nodes") },
        QueryType::InsertValues(x) => match (ids_refs(&x.ids), single_v(&x.values)) { (Some(r), Some(m)) => format!("(setval {} {})", r, hx(m)), _ => unknown("insert_values") },
        QueryType::RemoveValues(x) => match ids_refs(&x.0.ids) { Some(r) => format!("(rmval {})", r), _ => unknown("remove_values") },
        QueryType::SelectValues(x) => match ids_refs(&x.ids) { Some(r) => format!("(select {})", r), _ => unknown("select_values") },
        QueryType::SelectNodeCount(_) => "count".into(),
        QueryType::Search(_) => "search".into(),
        QueryType::InsertAlias(_) => "(probe insert_alias)".into(),
        QueryType::InsertEdges(_) => "(probe insert_edges)".into(),
        QueryType::InsertIndex(_) => "(probe insert_index)".into(),
        QueryType::Remove(_) => "(probe remove)".into(),
        QueryType::RemoveAliases(_) => "(probe remove_aliases)".into(),
        QueryType::RemoveIndex(_) => "(probe remove_index)".into(),
        QueryType::SelectAliases(_) => "(probe select_aliases)".into(),
        QueryType::SelectAllAliases(_) => "(probe select_all_aliases)".into(),
        QueryType::SelectEdgeCount(_) => "(probe select_edge_count)".into(),
        QueryType::SelectIndexes(_) => "(probe select_indexes)".into(),
        QueryType::SelectKeys(_) => "(probe select_keys)".into(),
        QueryType::SelectKeyCount(_) => "(probe select_key_count)".into(),
    }
}

/// canonical text of one QueryResult: (result (id values...)...)
pub fn canon_result(r: &QueryResult) -> String {
    let mut s = format!("({}", hx(r.result));
    for e in &r.elements {
        s.push_str(&format!(" ({}", if e.id.0 >= 0 { hx(e.id.0 as u64) } else { format!("-{}", hx(e.id.0.unsigned_abs())) }));
        for kv in &e.values {
            match value_u64(&kv.value) { Some(n) => s.push_str(&format!(" {}", hx(n))), None => s.push_str(" ?") }
        }
        s.push(')');
    }
    s.push(')');
    s
}

#[derive(Clone, Debug, PartialEq, Eq)]
pub enum Op {
    Add(Kind), Audit, Backup, Clear(Res), Convert(Kind), Copy(u64, u64), Delete, Exec(Vec<Q>), ExecMut(Vec<Q>),
    Optimize, Remove, Rename(u64, u64), Restore, Rollback, UAdd(u64, Role), UList, URemove(u64),
}
impl Op {
    pub fn s(&self) -> String {
        match self {
            Op::Add(k) => format!("(add {})", k.s()),
            Op::Audit => "audit".into(),
            Op::Backup => "backup".into(),
            Op::Clear(r) => format!("(clear {})", r.s()),
            Op::Convert(k) => format!("(convert {})", k.s()),
            Op::Copy(no, nd) => format!("(copy {} {})", hx(*no), hx(*nd)),
            Op::Delete => "delete".into(),
            Op::Exec(q) => format!("(exec{})", q.iter().map(|x| format!(" {}", x.s())).collect::<String>()),
            Op::ExecMut(q) => format!("(execmut{})", q.iter().map(|x| format!(" {}", x.s())).collect::<String>()),
            Op::Optimize => "optimize".into(),
            Op::Remove => "remove".into(),
            Op::Rename(no, nd) => format!("(rename {} {})", hx(*no), hx(*nd)),
            Op::Restore => "restore".into(),
            Op::Rollback => "rollback".into(),
            Op::UAdd(u, r) => format!("(uadd {} {})", hx(*u), r.s()),
            Op::UList => "ulist".into(),
            Op::URemove(u) => format!("(uremove {})", hx(*u)),
        }
    }
    pub fn tag(&self) -> &'static str {
        match self {
            Op::Add(_) => "add", Op::Audit => "audit", Op::Backup => "backup", Op::Clear(_) => "clear", Op::Convert(_) => "convert",
            Op::Copy(..) => "copy", Op::Delete => "delete", Op::Exec(_) => "exec", Op::ExecMut(_) => "exec_mut", Op::Optimize => "optimize",
            Op::Remove => "remove", Op::Rename(..) => "rename", Op::Restore => "restore", Op::Rollback => "rollback",
            Op::UAdd(..) => "user_add", Op::UList => "user_list", Op::URemove(_) => "user_remove",
        }
    }
}

#[derive(Clone, Debug, PartialEq, Eq)]
pub enum Req {
    Login(u64, u64), Logout(Sel), ChPw(u64, u64), Status, DbList, Db(u64, u64, Op), ADbList, ADb(u64, u64, Op),
    AUAdd(u64, u64), AUChPw(u64, u64), AUDel(u64), AULogout(u64, Sel), AULogoutAll, AUList, AStatus,
}
impl Req {
    pub fn s(&self) -> String {
        match self {
            Req::Login(u, p) => format!("(login {} {})", hx(*u), hx(*p)),
            Req::Logout(s) => format!("(logout {})", s.s()),
            Req::ChPw(o, n) => format!("(chpw {} {})", hx(*o), hx(*n)),
            Req::Status => "(status)".into(),
            Req::DbList => "(dblist)".into(),
            Req::Db(o, d, op) => format!("(db {} {} {})", hx(*o), hx(*d), op.s()),
            Req::ADbList => "(adblist)".into(),
            Req::ADb(o, d, op) => format!("(adb {} {} {})", hx(*o), hx(*d), op.s()),
            Req::AUAdd(u, p) => format!("(auadd {} {})", hx(*u), hx(*p)),
            Req::AUChPw(u, p) => format!("(auchpw {} {})", hx(*u), hx(*p)),
            Req::AUDel(u) => format!("(audel {})", hx(*u)),
            Req::AULogout(u, s) => format!("(aulogout {} {})", hx(*u), s.s()),
            Req::AULogoutAll => "(aulogoutall)".into(),
            Req::AUList => "(aulist)".into(),
            Req::AStatus => "(astatus)".into(),
        }
    }
    pub fn tag(&self) -> String {
        match self {
            Req::Login(..) => "login".into(), Req::Logout(_) => "logout".into(), Req::ChPw(..) => "change_password".into(),
            Req::Status => "status".into(), Req::DbList => "db_list".into(), Req::Db(_, _, op) => format!("db_{}", op.tag()),
            Req::ADbList => "admin_db_list".into(), Req::ADb(_, _, op) => format!("admin_db_{}", op.tag()),
            Req::AUAdd(..) => "admin_user_add".into(), Req::AUChPw(..) => "admin_user_change_password".into(),
            Req::AUDel(_) => "admin_user_delete".into(), Req::AULogout(..) => "admin_user_logout".into(),
            Req::AULogoutAll => "admin_user_logout_all".into(), Req::AUList => "admin_user_list".into(), Req::AStatus => "admin_status".into(),
        }
    }
}

#[derive(Clone, Copy, Debug, PartialEq, Eq)]
pub enum Tok { None, T(u64), Garbage }
impl Tok {
    pub fn s(self) -> String { match self { Tok::None => "-".into(), Tok::T(n) => format!("t{}", hx(n)), Tok::Garbage => "tffffff".into() } }
}

// ---- abstract names <-> strings sent to the server
pub fn user_name(u: u64) -> String {
    if u == 0 { "admin".into() } else if u >= 1000 { format!("z{}", (u - 1000) % 10) } else { format!("user{}", u) }
}
pub fn user_id(s: &str) -> Option<u64> {
    if s == "admin" { Some(0) } else { s.strip_prefix("user").and_then(|x| x.parse().ok()) }
}
pub fn db_name(d: u64) -> String { format!("db{}", d) }
pub fn db_id(s: &str) -> Option<u64> { s.strip_prefix("db").and_then(|x| x.parse().ok()) }
pub fn password(p: u64) -> String {
    if p == 1 { "admin".into() } else if p < 100 { format!("pw{}", p) } else { format!("password{}", p) }
}
