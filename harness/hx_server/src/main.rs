// hx_server — harness driving the real agdb_server over HTTP (agdb_api client) for C24, C25, C26.
//   hx_server <c24|c25|c26> --server <agdb_server binary> --seed S --n N --len L --out DIR [--expiry 0|1]
// Writes cases*.txt (driver input), impl*.txt (observations of the implementation, same order),
// oracle*.txt (direct violations of the property, with the request sequence), stats.json.
mod c26;
mod exec;
mod genreq;
mod launch;
mod model;
mod parse;
mod rng;

use exec::Session;
use model::*;
use std::collections::{BTreeMap, BTreeSet};
use std::io::Write;

fn arg(args: &[String], name: &str, default: &str) -> String {
    args.iter().position(|a| a == name).and_then(|i| args.get(i + 1)).cloned().unwrap_or(default.to_string())
}

pub fn json_str(s: &str) -> String {
    let mut o = String::from("\"");
    for c in s.chars() {
        match c {
            '"' => o.push_str("\\\""),
            '\\' => o.push_str("\\\\"),
            '\n' => o.push_str("\\n"),
            c if (c as u32) < 0x20 => o.push_str(&format!("\\u{:04x}", c as u32)),
            c => o.push(c),
        }
    }
    o.push('"');
    o
}

pub fn write_lines(path: &str, lines: &[String]) {
    let mut f = std::io::BufWriter::new(std::fs::File::create(path).unwrap());
    for l in lines { writeln!(f, "{}", l).unwrap(); }
}

pub fn write_stats(path: &str, stats: &BTreeMap<String, u64>, evaluations: u64, nontrivial: u64, samples: &[String]) {
    let mut s = String::from("{\n \"dist\": {");
    s.push_str(&stats.iter().map(|(k, v)| format!("{}: {}", json_str(k), v)).collect::<Vec<_>>().join(", "));
    s.push_str(&format!("}},\n \"evaluations\": {},\n \"distinct_nontrivial\": {},\n \"samples\": [", evaluations, nontrivial));
    s.push_str(&samples.iter().map(|x| json_str(x)).collect::<Vec<_>>().join(", "));
    s.push_str("]\n}\n");
    std::fs::write(path, s).unwrap();
}

async fn ensure_users(s: &mut Session, want: &[u64]) {
    for u in want {
        if !s.users.contains_key(u) {
            s.step(Tok::T(0), Req::AUAdd(*u, 100 + *u)).await;
        }
    }
}

/// C24: generated multi-user request sequences
async fn c24_main(s: &mut Session, seed: u64, n: usize, len: usize, trig: &mut BTreeSet<String>) -> Result<(), String> {
    let mut top = rng::Rng::new(seed);
    for _ in 0..n {
        let mut g = genreq::Gen::new(top.fork());
        s.cleanup().await?;
        s.begin();
        s.step(Tok::None, Req::Login(0, *s.users.get(&0).unwrap_or(&1))).await;
        ensure_users(s, &[1, 2, 3]).await;
        for _ in 0..len {
            if s.observer.is_none() {
                // the observer session was logged out by the sequence itself: log in again (a modelled step)
                let pw = *s.users.get(&0).unwrap_or(&1);
                let c = s.step(Tok::None, Req::Login(0, pw)).await;
                if c != 200 { return Err(format!("cannot re-establish the observer session: {c}")); }
                continue;
            }
            let (tok, req) = g.request(s);
            let c = s.step(tok, req.clone()).await;
            if matches!(c, 401 | 403 | 404) { trig.insert(format!("{} {}", tok.s(), req.s())); }
            if s.seq_failed || s.now() + 10 > s.ttl { break; }
        }
    }
    Ok(())
}

/// C24, token expiry: part 1 creates sessions, part 2 (after the expiry time) uses them
async fn expiry_part1(s: &mut Session) {
    s.begin();
    s.step(Tok::None, Req::Login(0, 1)).await;                       // t0 admin
    s.step(Tok::T(0), Req::AUAdd(1, 101)).await;
    s.step(Tok::T(0), Req::AUAdd(2, 102)).await;
    s.step(Tok::None, Req::Login(1, 101)).await;                     // t1
    s.step(Tok::None, Req::Login(2, 102)).await;                     // t2
    s.step(Tok::T(1), Req::Db(1, 1, Op::Add(Kind::Mapped))).await;
    s.step(Tok::T(1), Req::Db(1, 1, Op::ExecMut(vec![Q::InsNode(1)]))).await;
    s.step(Tok::T(1), Req::Db(1, 1, Op::UAdd(2, Role::Write))).await;
    s.step(Tok::T(2), Req::Db(1, 1, Op::ExecMut(vec![Q::InsNode(2)]))).await;
}
async fn expiry_part2(s: &mut Session) {
    // wait until every token of part 1 is certainly expired (expires_at < now)
    while s.now() < s.ttl + 4 { tokio::time::sleep(std::time::Duration::from_millis(250)).await; }
    let reqs = vec![
        (Tok::T(1), Req::Db(1, 1, Op::ExecMut(vec![Q::InsNode(3)]))),
        (Tok::T(1), Req::Db(1, 1, Op::Exec(vec![Q::Count]))),
        (Tok::T(1), Req::DbList),
        (Tok::T(2), Req::Db(1, 1, Op::ExecMut(vec![Q::InsNode(4)]))),
        (Tok::T(1), Req::Db(1, 1, Op::Delete)),
        (Tok::T(1), Req::Logout(Sel::Cur)),
        (Tok::T(1), Req::Status),
        (Tok::T(0), Req::ADb(1, 1, Op::Delete)),
        (Tok::T(0), Req::AUDel(2)),
        (Tok::T(0), Req::AUList),
    ];
    // the harness regards the old tokens as dead from here on (documentation: tokens are valid for ttl seconds)
    for t in s.tokens.iter_mut() { t.alive = false; }
    s.observer = None;
    let c = s.step(Tok::None, Req::Login(0, 1)).await;                // t3: fresh admin session, observer again
    if c != 200 { s.fatal = Some(format!("login after expiry failed: {c}")); return; }
    for (t, r) in reqs { s.step(t, r).await; }
    s.step(Tok::None, Req::Login(1, 101)).await;                     // t4: a fresh login works again
    s.step(Tok::T(4), Req::Db(1, 1, Op::ExecMut(vec![Q::InsNode(5)]))).await;
}

/// C25: batches through exec / exec_mut by owner, writer, db admin and server admin
async fn c25_main(s: &mut Session, seed: u64, n: usize, len: usize, trig: &mut BTreeSet<String>) -> Result<(), String> {
    let mut top = rng::Rng::new(seed ^ 0x25);
    for si in 0..n {
        let mut g = genreq::Gen::new(top.fork());
        s.cleanup().await?;
        s.begin();
        s.step(Tok::None, Req::Login(0, *s.users.get(&0).unwrap_or(&1))).await;     // t0
        ensure_users(s, &[1, 2, 3]).await;
        let p1 = *s.users.get(&1).unwrap();
        let p2 = *s.users.get(&2).unwrap();
        let p3 = *s.users.get(&3).unwrap();
        s.step(Tok::None, Req::Login(1, p1)).await;                                  // t1 owner
        s.step(Tok::None, Req::Login(2, p2)).await;                                  // t2 writer
        s.step(Tok::None, Req::Login(3, p3)).await;                                  // t3 db admin
        s.step(Tok::T(1), Req::Db(1, 1, Op::Add(if si % 2 == 0 { Kind::Mapped } else { Kind::File }))).await;
        s.step(Tok::T(1), Req::Db(1, 1, Op::UAdd(2, Role::Write))).await;
        s.step(Tok::T(1), Req::Db(1, 1, Op::UAdd(3, Role::Admin))).await;
        for _ in 0..len {
            let nodes = s.last.db(1, 1).map(|d| d.nodes.len() as u64).unwrap_or(0);
            let style = *g.rng.pick(&[1u64, 1, 1, 2, 2, 2, 3, 0]);
            let qs = g.batch(style, nodes, 6);
            let who = g.rng.below(10);
            let (tok, req) = match who {
                0..=3 => (Tok::T(1), Req::Db(1, 1, if g.rng.chance(1, 8) { Op::Exec(qs.clone()) } else { Op::ExecMut(qs.clone()) })),
                4..=6 => (Tok::T(2), Req::Db(1, 1, if g.rng.chance(1, 8) { Op::Exec(qs.clone()) } else { Op::ExecMut(qs.clone()) })),
                7 => (Tok::T(3), Req::Db(1, 1, Op::ExecMut(qs.clone()))),
                _ => (Tok::T(0), Req::ADb(1, 1, if g.rng.chance(1, 8) { Op::Exec(qs.clone()) } else { Op::ExecMut(qs.clone()) })),
            };
            let c = s.step(tok, req.clone()).await;
            if c == 470 || qs.iter().any(|q| q.is_write()) { trig.insert(req.s()); }
            if s.seq_failed || s.now() + 10 > s.ttl { break; }
        }
    }
    Ok(())
}

fn main() {
    let args: Vec<String> = std::env::args().collect();
    let cmd = args.get(1).cloned().unwrap_or_default();
    let seed: u64 = arg(&args, "--seed", "1").parse().unwrap();
    let n: usize = arg(&args, "--n", "4").parse().unwrap();
    let len: usize = arg(&args, "--len", "60").parse().unwrap();
    let out = arg(&args, "--out", ".");
    let server = arg(&args, "--server", "");
    let server = std::fs::canonicalize(&server).map(|p| p.to_string_lossy().to_string()).unwrap_or(server);
    let expiry = arg(&args, "--expiry", "1") == "1";
    let mode = arg(&args, "--mode", "none");
    std::fs::create_dir_all(&out).unwrap();
    let rt = tokio::runtime::Builder::new_current_thread().enable_all().build().unwrap();
    let rc = rt.block_on(async move {
        match cmd.as_str() {
            "c24" | "c25" => {
                let mut trig = BTreeSet::new();
                let mut srv = match launch::Server::start(&server, "main", 3600).await { Ok(s) => s, Err(e) => { eprintln!("{e}"); return 2; } };
                let mut s = Session::new(&srv.address, 3600, &srv.data);
                // token expiry scenario on a second server process with the shortest configurable expiry (60 s)
                let mut exp = None;
                if cmd == "c24" && expiry {
                    match launch::Server::start(&server, "expiry", 60).await {
                        Ok(es) => { let mut x = Session::new(&es.address, 60, &es.data); expiry_part1(&mut x).await; exp = Some((es, x)); }
                        Err(e) => { eprintln!("{e}"); return 2; }
                    }
                }
                let r = if cmd == "c24" { c24_main(&mut s, seed, n, len, &mut trig).await } else { c25_main(&mut s, seed, n, len, &mut trig).await };
                if let Err(e) = r { eprintln!("harness: {e}"); srv.stop(); return 2; }
                let mut stats = s.stats.clone();
                let mut evaluations = s.cases.len() as u64;
                let mut oracle = s.oracle.clone();
                write_lines(&format!("{out}/cases.txt"), &s.cases);
                write_lines(&format!("{out}/impl.txt"), &s.impls);
                if let Some((mut es, mut x)) = exp {
                    expiry_part2(&mut x).await;
                    if let Some(f) = &x.fatal { eprintln!("harness: {f}"); es.stop(); srv.stop(); return 2; }
                    write_lines(&format!("{out}/cases_expiry.txt"), &x.cases);
                    write_lines(&format!("{out}/impl_expiry.txt"), &x.impls);
                    evaluations += x.cases.len() as u64;
                    oracle.extend(x.oracle.iter().cloned());
                    for (k, v) in &x.stats { *stats.entry(format!("expiry_{k}")).or_insert(0) += v; }
                    es.stop();
                }
                let oracle: Vec<String> = oracle.iter().map(|l| l.replace('\n', " ").replace('\r', " ")).collect();
                write_lines(&format!("{out}/oracle.txt"), &oracle);
                let samples: Vec<String> = s.cases.iter().skip(5).take(3).cloned().collect();
                write_stats(&format!("{out}/stats.json"), &stats, evaluations, trig.len() as u64, &samples);
                srv.stop();
                0
            }
            "c26" => c26::run(&server, seed, n, &out, &mode, len > 0).await,
            "replay" => {
                // re-execute stored sequences (corpus files, violation replays): --file F[,F...]
                let mut srv = match launch::Server::start(&server, "replay", 3600).await { Ok(s) => s, Err(e) => { eprintln!("{e}"); return 2; } };
                let mut s = Session::new(&srv.address, 3600, &srv.data);
                let mut started = false;
                for f in arg(&args, "--file", "").split(',').filter(|x| !x.is_empty()) {
                    let text = match std::fs::read_to_string(f) { Ok(t) => t, Err(e) => { eprintln!("{f}: {e}"); srv.stop(); return 2; } };
                    for l in text.lines() {
                        match parse::line(l) {
                            Ok(None) => {}
                            Ok(Some(parse::Line::Reset(users))) => {
                                if let Err(e) = s.cleanup().await { eprintln!("harness: {e}"); srv.stop(); return 2; }
                                if let Err(e) = s.sync_users(&users).await { eprintln!("harness: {e}"); srv.stop(); return 2; }
                                s.begin();
                                started = true;
                            }
                            Ok(Some(parse::Line::Req(t, r))) => {
                                if !started { s.begin(); started = true; }
                                s.step(t, r).await;
                            }
                            Err(e) => { eprintln!("{f}: {e}"); srv.stop(); return 2; }
                        }
                    }
                }
                write_lines(&format!("{out}/cases.txt"), &s.cases);
                write_lines(&format!("{out}/impl.txt"), &s.impls);
                write_lines(&format!("{out}/oracle.txt"), &s.oracle);
                write_stats(&format!("{out}/stats.json"), &s.stats, s.cases.len() as u64, 0, &[]);
                srv.stop();
                0
            }
            _ => { eprintln!("usage: hx_server <c24|c25|c26> --server BIN --seed S --n N --len L --out DIR"); 2 }
        }
    });
    std::process::exit(rc);
}
