// launch.rs — own launcher for the real agdb_server binary: one process on a free port,
// generated agdb_server.yaml in a sandbox directory
//     <sandbox>/outer/cwd/{agdb_server.yaml, data/...}
// (the two extra levels let C26 see files written *around* the data directory).
use std::path::{Path, PathBuf};
use std::process::{Child, Command, Stdio};

pub struct Server {
    pub sandbox: PathBuf,
    pub cwd: PathBuf,
    pub data: PathBuf,
    pub port: u16,
    pub address: String,
    child: Option<Child>,
}

fn free_port() -> u16 {
    let l = std::net::TcpListener::bind("127.0.0.1:0").expect("bind");
    l.local_addr().unwrap().port()
}

impl Server {
    pub async fn start(binary: &str, tag: &str, ttl: u64) -> Result<Server, String> {
        let sandbox = std::env::temp_dir().join(format!("hx_server_{}_{}", std::process::id(), tag));
        let _ = std::fs::remove_dir_all(&sandbox);
        let cwd = sandbox.join("outer").join("cwd");
        std::fs::create_dir_all(&cwd).map_err(|e| e.to_string())?;
        for attempt in 0..5 {
            let port = free_port();
            let cfg = format!(
                "bind: \"127.0.0.1:{port}\"\naddress: \"http://127.0.0.1:{port}\"\nadmin: admin\ntoken_expiry_seconds: {ttl}\ndata_dir: data\nlog_level: OFF\n");
            std::fs::write(cwd.join("agdb_server.yaml"), cfg).map_err(|e| e.to_string())?;
            let out = std::fs::File::create(sandbox.join("server.out")).map_err(|e| e.to_string())?;
            let err = out.try_clone().map_err(|e| e.to_string())?;
            let mut child = Command::new(binary).current_dir(&cwd).stdin(Stdio::null()).stdout(out).stderr(err)
                .spawn().map_err(|e| format!("cannot spawn {binary}: {e}"))?;
            let address = format!("http://127.0.0.1:{port}");
            let client = reqwest::Client::new();
            let mut up = false;
            for _ in 0..200 {
                if let Ok(Some(_)) = child.try_wait() { break; }
                if let Ok(r) = client.get(format!("{address}/api/v1/status")).send().await {
                    if r.status().as_u16() == 200 { up = true; break; }
                }
                tokio::time::sleep(std::time::Duration::from_millis(50)).await;
            }
            if up {
                return Ok(Server { data: cwd.join("data"), sandbox, cwd, port, address, child: Some(child) });
            }
            let _ = child.kill();
            let _ = child.wait();
            if attempt == 4 {
                let log = std::fs::read_to_string(sandbox.join("server.out")).unwrap_or_default();
                return Err(format!("server did not come up: {}", log.chars().take(2000).collect::<String>()));
            }
        }
        Err("unreachable".into())
    }

    pub fn alive(&mut self) -> bool {
        match &mut self.child { Some(c) => matches!(c.try_wait(), Ok(None)), None => false }
    }

    pub fn stop(&mut self) {
        if let Some(mut c) = self.child.take() {
            let _ = c.kill();
            let _ = c.wait();
        }
        let _ = std::fs::remove_dir_all(&self.sandbox);
    }
}

impl Drop for Server {
    fn drop(&mut self) { self.stop(); }
}

/// all files (not directories) below `root`, relative paths, sorted; with size and mtime
pub fn tree(root: &Path) -> Vec<(String, u64, u128, bool)> {
    fn walk(base: &Path, dir: &Path, out: &mut Vec<(String, u64, u128, bool)>) {
        if let Ok(rd) = std::fs::read_dir(dir) {
            for e in rd.flatten() {
                let p = e.path();
                let md = match std::fs::symlink_metadata(&p) { Ok(m) => m, Err(_) => continue };
                let rel = p.strip_prefix(base).unwrap().to_string_lossy().to_string();
                if md.is_dir() {
                    out.push((rel, 0, 0, true));
                    walk(base, &p, out);
                } else {
                    let mt = md.modified().ok().and_then(|t| t.duration_since(std::time::UNIX_EPOCH).ok()).map(|d| d.as_nanos()).unwrap_or(0);
                    out.push((rel, md.len(), mt, false));
                }
            }
        }
    }
    let mut out = vec![];
    walk(root, root, &mut out);
    out.sort();
    out
}
