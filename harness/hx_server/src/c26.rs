// c26.rs — database names vs. files on disk.  For every (name, operation) of the adversarial
// list: set up victims (user1/v1, user1/src, user2/v1 with content, audit and backup), run the
// operation with the adversarial name as user1, list the file tree under and around the data
// directory before/after, and check: every touched file lies inside data/user1/, no victim file
// is touched, the victims still answer with their content / audit / backup, valid names work.
use crate::launch::{tree, Server};
use crate::model::{canon_query, hx};
use crate::rng::Rng;
use crate::{write_lines, write_stats};
use agdb::{QueryBuilder, QueryType};
use agdb_api::{AgdbApi, DbKind, DbResource, ReqwestClient};
use std::collections::{BTreeMap, BTreeSet};
use std::path::{Path, PathBuf};

fn enc(name: &str) -> String {
    // percent-encode everything except unreserved characters, so the decoded name reaches the handler
    let mut s = String::new();
    for b in name.bytes() {
        if b.is_ascii_alphanumeric() || b == b'-' || b == b'_' || b == b'.' || b == b'~' { s.push(b as char) } else { s.push_str(&format!("%{:02X}", b)) }
    }
    if s == "." { s = "%2E".into() } else if s == ".." { s = "%2E%2E".into() }
    s
}
/// printable form of a path, identical to extract/m_paths.ml string_of_bytes
fn esc(p: &str) -> String {
    p.bytes().map(|b| if b > 32 && b < 127 && b != b'(' && b != b')' && b != b'%' { (b as char).to_string() } else { format!("%{:02x}", b) }).collect()
}
fn hexs(s: &str) -> String { format!("x{}", s.bytes().map(|b| format!("{:02x}", b)).collect::<String>()) }

fn ins(m: u64) -> QueryType { QueryBuilder::insert().nodes().values([[("v", m).into()]]).query().into() }
fn dump() -> Vec<QueryType> { vec![QueryBuilder::select().search().elements().query().into()] }

struct Ctx {
    api: AgdbApi<ReqwestClient>,
    admin: String,
    t1: String,
    t2: String,
    sandbox: PathBuf,
    cwd: PathBuf,
    abs: Vec<PathBuf>,
}

type Snap = BTreeMap<String, (u64, u128, bool)>;

impl Ctx {
    fn as_user(&mut self, who: u8) { self.api.token = Some(match who { 0 => self.admin.clone(), 1 => self.t1.clone(), _ => self.t2.clone() }); }

    /// path relative to the server's working directory ("../x" above it), or absolute outside the sandbox
    fn snap(&self) -> Snap {
        let mut m = Snap::new();
        for (rel, size, mt, dir) in tree(&self.sandbox) {
            let key = if let Some(r) = rel.strip_prefix("outer/cwd/") { r.to_string() }
                else if rel == "outer/cwd" || rel == "outer" { continue }
                else if let Some(r) = rel.strip_prefix("outer/") { format!("../{r}") }
                else { format!("../../{rel}") };
            m.insert(key, (size, mt, dir));
        }
        for p in &self.abs {
            if let Ok(md) = std::fs::symlink_metadata(p) { m.insert(p.to_string_lossy().to_string(), (md.len(), 0, md.is_dir())); }
            let w = p.parent().unwrap().join(format!(".{}", p.file_name().unwrap().to_string_lossy()));
            if let Ok(md) = std::fs::symlink_metadata(&w) { m.insert(w.to_string_lossy().to_string(), (md.len(), 0, md.is_dir())); }
        }
        m
    }

    async fn content(&mut self, who: u8, owner: &str, db: &str) -> Result<(Vec<String>, usize), String> {
        self.as_user(who);
        let (_, rs) = self.api.db_exec(owner, db, &dump()).await.map_err(|e| format!("exec {}: {}", e.status, e.description))?;
        let nodes = rs[0].elements.iter().map(|e| e.values.iter().map(|kv| format!("{}", kv.value)).collect::<Vec<_>>().join(",")).collect();
        let (_, au) = self.api.db_audit(owner, db).await.map_err(|e| format!("audit {}: {}", e.status, e.description))?;
        let _ = au.0.iter().map(|x| canon_query(&x.query)).count();
        Ok((nodes, au.0.len()))
    }

    /// victims: user1/v1 and user2/v1 (nodes a b c, audit 3, backup of a b with audit 2), user1/src (1 node, backup)
    async fn setup(&mut self, with_backup: bool) -> Result<(), String> {
        let e = |x: agdb_api::AgdbApiError| format!("setup: {} {}", x.status, x.description);
        for (who, owner) in [(1u8, "user1"), (2u8, "user2")] {
            self.as_user(who);
            self.api.db_add(owner, "v1", DbKind::Mapped).await.map_err(e)?;
            self.api.db_exec_mut(owner, "v1", &[ins(0xa), ins(0xb)]).await.map_err(e)?;
            if with_backup { self.api.db_backup(owner, "v1").await.map_err(e)?; }
            self.api.db_exec_mut(owner, "v1", &[ins(0xc)]).await.map_err(e)?;
        }
        self.as_user(1);
        // a victim whose name EXTENDS a tested valid name with a dot ("okname" is one of the names every operation is tried on):
        // an operation on `okname` must not touch the files of `okname.v2`
        self.api.db_add("user1", "okname.v2", DbKind::Mapped).await.map_err(e)?;
        self.api.db_exec_mut("user1", "okname.v2", &[ins(0x21)]).await.map_err(e)?;
        if with_backup { self.api.db_backup("user1", "okname.v2").await.map_err(e)?; }
        self.api.db_add("user1", "src", DbKind::Mapped).await.map_err(e)?;
        self.api.db_exec_mut("user1", "src", &[ins(0x5)]).await.map_err(e)?;
        if with_backup { self.api.db_backup("user1", "src").await.map_err(e)?; }
        Ok(())
    }

    async fn cleanup(&mut self) -> Result<(), String> {
        self.as_user(0);
        let (_, dbs) = self.api.admin_db_list().await.map_err(|e| format!("cleanup: {} {}", e.status, e.description))?;
        for d in dbs { let _ = self.api.admin_db_delete(&enc(&d.owner), &enc(&d.db)).await; }
        // whatever is left: remove every file the cases created (the server's own files stay)
        let data = self.cwd.join("data");
        if let Ok(rd) = std::fs::read_dir(&data) {
            for e in rd.flatten() {
                let n = e.file_name().to_string_lossy().to_string();
                if ["agdb_server.agdb", ".agdb_server.agdb", "agdb_server.log", ".agdb_server.log"].contains(&n.as_str()) { continue; }
                let p = e.path();
                if p.is_dir() { let _ = std::fs::remove_dir_all(&p); } else { let _ = std::fs::remove_file(&p); }
            }
        }
        for dir in [self.cwd.clone(), self.cwd.parent().unwrap().to_path_buf(), self.sandbox.clone()] {
            if let Ok(rd) = std::fs::read_dir(&dir) {
                for e in rd.flatten() {
                    let n = e.file_name().to_string_lossy().to_string();
                    if ["agdb_server.yaml", "data", "cwd", "outer", "server.out"].contains(&n.as_str()) { continue; }
                    let p = e.path();
                    if p.is_dir() { let _ = std::fs::remove_dir_all(&p); } else { let _ = std::fs::remove_file(&p); }
                }
            }
        }
        for p in &self.abs {
            let _ = std::fs::remove_file(p);
            let _ = std::fs::remove_file(p.parent().unwrap().join(format!(".{}", p.file_name().unwrap().to_string_lossy())));
        }
        Ok(())
    }
}

fn diff(a: &Snap, b: &Snap) -> (BTreeSet<String>, BTreeSet<String>, BTreeSet<String>) {
    let ignore = |k: &str| ["data/agdb_server.agdb", "data/.agdb_server.agdb", "data/agdb_server.log", "data/.agdb_server.log", "../../server.out"].contains(&k);
    let mut new = BTreeSet::new();
    let mut gone = BTreeSet::new();
    let mut changed = BTreeSet::new();
    for (k, v) in b {
        if ignore(k) { continue; }
        match a.get(k) {
            None => { new.insert(if v.2 { format!("{k}/") } else { k.clone() }); }
            Some(o) if !v.2 && (o.0 != v.0 || o.1 != v.1) => { changed.insert(k.clone()); }
            _ => {}
        }
    }
    for (k, v) in a {
        if k == "../../server.out" { continue; }
        if !b.contains_key(k) { gone.insert(if v.2 { format!("{k}/") } else { k.clone() }); }
    }
    (new, gone, changed)
}

pub fn names(pid: u32, extra: usize, rng: &mut Rng, full: bool) -> Vec<String> {
    if !full {
        let mut v: Vec<String> = ["okname", "ok.name", "v2", "v1", ".v1", ".x", "audit", "backups", "v1.bak", "x.log", "v1.audit",
            "../user2/v1", "../user2/backups/v1.bak", "a/../v1", "./v1", "sub/x", "backups/v1.bak", "audit/v1.log", "../x", "../../../x",
            "..", "", "x\\y", "../agdb_server.agdb", "a b", "n\u{e9}", "a\u{0}b", "a\nb"].iter().map(|s| s.to_string()).collect();
        v.push(format!("/tmp/hx_abs_{pid}_a"));
        v.push(format!("../../../../../hx_esc_{pid}_b"));
        return v;
    }
    let mut v: Vec<String> = [
        // valid controls
        "okname", "ok.name", "ok-name_2", "v2", "Src", "bak", "log.x", "a.b.c",
        // existing names
        "v1", "src",
        // leading dot: the WAL of another database
        ".v1", ".src", ".x", "..v1", ".hidden",
        // reserved directory names
        "audit", "backups",
        // rollback temporaries / backup files of another database
        "v1.bak", "v1.log", "v1.audit", "src.bak", "x.bak", "x.log", "x.audit",
        // separators and dot-dot
        "../user2/v1", "../user2/.v1", "../user2/x", "../user2/backups/v1.bak", "../user2/audit/v1.log",
        "a/../v1", "./v1", "v1/", "sub/x", "backups/v1.bak", "audit/v1.log", "backups/x", "audit/x",
        "../x", "../../x", "../../../x", "../../../../x", "..", ".", "", "x\\y", "..\\user2\\v1",
        "../agdb_server.agdb", "../.agdb_server.agdb",
        // odd but harmless characters
        "a b", "a%2Fb", "a+b", "n\u{e9}", "a\u{0}b", "a\nb", "a?b", "a#b",
    ].iter().map(|s| s.to_string()).collect();
    v.push(format!("/tmp/hx_abs_{pid}_a"));
    v.push(format!("../../../../../hx_esc_{pid}_b"));
    v.push("x".repeat(300));
    let frags = ["..", ".", "/", "\\", "v1", "user2", "audit", "backups", ".bak", ".log", ".audit", "x", "y", " ", "\u{e9}", "%", "+", "src", "_"];
    for _ in 0..extra {
        let k = rng.range(1, 5);
        let s: String = (0..k).map(|_| *rng.pick(&frags)).collect();
        if !v.contains(&s) { v.push(s); }
    }
    v
}

const OPS: [&str; 9] = ["add", "add_fresh", "copy", "rename", "backup", "restore", "rollback", "clear", "delete"];

async fn boot(server_bin: &str, tag: &str, abs: &[PathBuf]) -> Result<(Server, Ctx), String> {
    let srv = Server::start(server_bin, tag, 3600).await?;
    let mut api = AgdbApi::new(ReqwestClient::new(), &srv.address);
    api.user_login("admin", "admin").await.map_err(|e| format!("admin login {}", e.status))?;
    let admin = api.token.clone().unwrap();
    for u in ["user1", "user2"] {
        api.admin_user_add(u, "password123").await.map_err(|e| format!("user add {}", e.status))?;
    }
    let _ = api.user_login("user1", "password123").await;
    let t1 = api.token.clone().unwrap();
    let _ = api.user_login("user2", "password123").await;
    let t2 = api.token.clone().unwrap();
    let cx = Ctx { api, admin, t1, t2, sandbox: srv.sandbox.clone(), cwd: srv.cwd.clone(), abs: abs.to_vec() };
    Ok((srv, cx))
}

pub async fn run(server_bin: &str, seed: u64, extra: usize, out: &str, mode: &str, full: bool) -> i32 {
    let pid = std::process::id();
    let mut rng = Rng::new(seed ^ 0x26);
    let names = names(pid, extra, &mut rng, full);
    let abs: Vec<PathBuf> = names.iter().filter(|n| n.starts_with('/')).map(PathBuf::from)
        .chain(names.iter().filter(|n| n.contains("hx_esc_")).map(|n| std::env::temp_dir().join(Path::new(n).file_name().unwrap()))).collect();
    let (mut srv, mut cx) = match boot(server_bin, "c26", &abs).await { Ok(x) => x, Err(e) => { eprintln!("harness: {e}"); return 2; } };
    let fail = |m: String, srv: &mut Server| -> i32 { eprintln!("harness: {m}"); srv.stop(); 2 };
    let mut boots = 0u32;
    let mut last_desc = String::from("(none)");
    let data_hex = hexs("data");
    let (mut cases, mut impls, mut oracle) = (vec![], vec![], vec![]);
    let mut stats: BTreeMap<String, u64> = BTreeMap::new();
    let mut trig = BTreeSet::new();
    'outer: for name in &names {
        let en = enc(name);
        for op in OPS {
            if std::env::var("HX_TRACE").is_ok() { eprintln!("case {name:?} {op}"); }
            let mut ready = false;
            for attempt in 0..2 {
                let r = match cx.cleanup().await { Ok(()) => cx.setup(op != "add_fresh").await, Err(e) => Err(e) };
                match r {
                    Ok(()) => { ready = true; break; }
                    Err(e) if attempt == 0 => {
                        // the previous case left the server unusable: report it against that case, start a fresh server
                        oracle.push(format!("server_state_corrupted {last_desc} :: next set-up failed: {e}"));
                        for p in &cx.abs { let _ = std::fs::remove_file(p); }
                        srv.stop();
                        boots += 1;
                        match boot(server_bin, &format!("c26r{boots}"), &abs).await {
                            Ok((s2, c2)) => { srv = s2; cx = c2; }
                            Err(e) => { eprintln!("harness: reboot failed: {e}"); return 2; }
                        }
                    }
                    Err(e) => {
                        // even a fresh server cannot set the (valid) victims up: the property cannot be exercised; report and stop
                        oracle.push(format!("valid_setup_failed name={} op={op} :: on a fresh server: {e}", hexs(name)));
                        break 'outer;
                    }
                }
            }
            if !ready { break 'outer; }
            let s0 = cx.snap();
            cx.as_user(1);
            let mut pre_code = 0u16;
            let mut s_mid = None;
            if ["backup", "restore", "rollback", "clear", "delete"].contains(&op) {
                pre_code = match cx.api.db_add("user1", &en, DbKind::Mapped).await { Ok(c) => c, Err(e) => e.status };
                if (200..300).contains(&pre_code) {
                    let _ = cx.api.db_exec_mut("user1", &en, &[ins(0x77)]).await;
                    if op != "backup" { let _ = cx.api.db_backup("user1", &en).await; }
                }
                s_mid = Some(cx.snap());
            }
            let code = match op {
                "add" | "add_fresh" => cx.api.db_add("user1", &en, DbKind::Mapped).await,
                "copy" => cx.api.db_copy("user1", "src", &en).await,
                "rename" => cx.api.db_rename("user1", "src", &en).await,
                "backup" => cx.api.db_backup("user1", &en).await,
                "restore" => cx.api.db_restore("user1", &en).await,
                "rollback" => cx.api.db_rollback("user1", &en).await,
                "clear" => cx.api.db_clear("user1", &en, DbResource::All).await.map(|x| x.0),
                _ => cx.api.db_delete("user1", &en).await,
            };
            let code = match code { Ok(c) => c, Err(e) => e.status };
            let s1 = cx.snap();
            let ok = (200..300).contains(&code);
            let (new_t, gone_t, changed_t) = diff(&s0, &s1);
            let (new_o, gone_o, _) = diff(s_mid.as_ref().unwrap_or(&s0), &s1);
            *stats.entry(format!("op_{op}")).or_insert(0) += 1;
            *stats.entry(format!("code_{code}")).or_insert(0) += 1;
            trig.insert(format!("{name}|{op}"));
            // ---- model tie: files that appeared / disappeared for this request
            let files_only = |s: &BTreeSet<String>| { let mut v: Vec<String> = s.iter().filter(|x| !x.ends_with('/')).map(|x| esc(x)).collect(); v.sort(); v.join(" ") };
            let fsop = match op { "add" | "add_fresh" => "add", "copy" => "copy_to", "rename" => "rename_to", "backup" => "backup", "restore" | "rollback" => "restore", "clear" => "clear_all", _ => "delete" };
            // (the names of the victims themselves are not fresh: no file-level prediction for them)
            let fresh = name != "v1" && name != "src";
            if fresh { cases.push(format!("paths predict {mode} {data_hex} {} {} {fsop} {}", hexs("user1"), hexs(name), if ok { 1 } else { 0 })); }
            if !fresh {} else if ok {
                let gone_here: BTreeSet<String> = if op == "rename" { BTreeSet::new() } else { gone_o.clone() };
                impls.push(format!("(new {}) (gone {})", files_only(&new_o), files_only(&gone_here)));
            } else { impls.push("rejected".into()); }
            if op == "rename" && fresh {
                cases.push(format!("paths predict {mode} {data_hex} {} {} rename_from {}", hexs("user1"), hexs("src"), if ok { 1 } else { 0 }));
                impls.push(if ok { format!("(new ) (gone {})", files_only(&gone_o)) } else { "rejected".into() });
            }
            // ---- direct oracles
            let case_mark = oracle.len();
            let desc = format!("name={} op={op} pre_add={pre_code} code={code} new=[{}] gone=[{}] changed=[{}]", hexs(name),
                new_t.iter().map(|x| esc(x)).collect::<Vec<_>>().join(" "), gone_t.iter().map(|x| esc(x)).collect::<Vec<_>>().join(" "), changed_t.iter().map(|x| esc(x)).collect::<Vec<_>>().join(" "));
            last_desc = desc.clone();
            let touched: Vec<&String> = new_t.iter().chain(gone_t.iter()).chain(changed_t.iter()).collect();
            let outside: Vec<&&String> = touched.iter().filter(|p| !p.starts_with("data/user1/")).collect();
            if !outside.is_empty() {
                oracle.push(format!("file_outside_owner_dir {desc} outside=[{}]", outside.iter().map(|s| esc(s)).collect::<Vec<_>>().join(" ")));
            }
            let mut victim_files: Vec<String> = ["v1", ".v1", "backups/v1.bak", "backups/v1.log", "audit/v1.log",
                                                 "okname.v2", ".okname.v2", "backups/okname.v2.bak", "backups/okname.v2.log", "audit/okname.v2.log"].iter().map(|f| format!("data/user1/{f}")).collect();
            if op != "rename" { victim_files.extend(["src", ".src", "backups/src.bak", "backups/src.log", "audit/src.log"].iter().map(|f| format!("data/user1/{f}"))); }
            if name != "v1" && name != "src" {
                let hit: Vec<&&String> = touched.iter().filter(|p| victim_files.contains(p)).collect();
                if !hit.is_empty() {
                    oracle.push(format!("victim_file_touched {desc} victim_files=[{}]", hit.iter().map(|s| esc(s)).collect::<Vec<_>>().join(" ")));
                }
            }
            let valid_control = ["okname", "ok.name", "ok-name_2", "v2", "Src", "bak", "log.x", "a.b.c"].contains(&name.as_str());
            if valid_control && !ok && pre_code != 0 && !(200..300).contains(&pre_code) { oracle.push(format!("valid_name_rejected {desc}")); }
            if valid_control && !ok && pre_code == 0 { oracle.push(format!("valid_name_rejected {desc}")); }
            // ---- the victims still hold their content, audit and backup, and can still be backed up
            let mark = oracle.len();
            if name != "v1" {
                let with_backup = op != "add_fresh";
                let mut bad = vec![];
                for (who, owner) in [(1u8, "user1"), (2u8, "user2")] {
                    match cx.content(who, owner, "v1").await {
                        Ok((n, a)) => if n != vec!["10", "11", "12"] || a != 3 { bad.push(format!("{owner}/v1 content {n:?} audit {a}")); },
                        Err(e) => bad.push(format!("{owner}/v1 {e}")),
                    }
                    if with_backup {
                        cx.as_user(who);
                        match cx.api.db_restore(owner, "v1").await {
                            Ok(_) => match cx.content(who, owner, "v1").await {
                                Ok((n, a)) => if n != vec!["10", "11"] || a != 2 { bad.push(format!("{owner}/v1 after restore: content {n:?} audit {a}")); },
                                Err(e) => bad.push(format!("{owner}/v1 after restore {e}")),
                            },
                            Err(e) => bad.push(format!("{owner}/v1 restore failed {} {}", e.status, e.description)),
                        }
                    }
                    cx.as_user(who);
                    if let Err(e) = cx.api.db_backup(owner, "v1").await { bad.push(format!("{owner}/v1 backup failed {} {}", e.status, e.description)); }
                }
                if !bad.is_empty() { oracle.push(format!("victim_state_changed {desc} :: {}", bad.join("; "))); }
            }
            // ---- the server process must survive every request
            tokio::time::sleep(std::time::Duration::from_millis(5)).await;
            let case_failed = oracle.len() > case_mark;
            if !srv.alive() {
                oracle.truncate(mark);
                let log = std::fs::read_to_string(srv.sandbox.join("server.out")).unwrap_or_default();
                let first = log.lines().next().unwrap_or("").to_string();
                let _ = std::fs::write(format!("{out}/server_crash_{boots}.txt"), &log);
                oracle.push(format!("server_crashed {desc} :: server process died: {first}"));
            }
            let _ = case_failed;
            if !srv.alive() {
                // start the next case from a fresh server and data directory
                for p in &cx.abs { let _ = std::fs::remove_file(p); }
                srv.stop();
                boots += 1;
                match boot(server_bin, &format!("c26r{boots}"), &abs).await {
                    Ok((s2, c2)) => { srv = s2; cx = c2; }
                    Err(e) => { eprintln!("harness: reboot failed: {e}"); return 2; }
                }
            }
        }
    }
    // ---- ownership transfer by the server admin (direct oracle): a database with content, audit log and backup is renamed to
    // ANOTHER owner; afterwards none of its files may remain in the previous owner's directory, every file that appeared lies in
    // the new owner's directory, the transferred database keeps content, audit and a restorable backup, and deleting it removes
    // every one of its files
    if srv.alive() {
        for new_name in ["moved", "src", "ok.name"] {
            let ready = match cx.cleanup().await { Ok(()) => cx.setup(true).await, Err(e) => Err(e) };
            if let Err(e) = ready { oracle.push(format!("valid_setup_failed transfer new_name={new_name} :: {e}")); break; }
            let s0 = cx.snap();
            cx.as_user(0);
            let code = match cx.api.admin_db_rename("user1", "src", "user2", new_name).await { Ok(c) => c, Err(e) => e.status };
            let s1 = cx.snap();
            let (new_t, gone_t, changed_t) = diff(&s0, &s1);
            *stats.entry("op_transfer".into()).or_insert(0) += 1;
            *stats.entry(format!("code_{code}")).or_insert(0) += 1;
            trig.insert(format!("{new_name}|transfer"));
            let desc = format!("op=transfer user1/src -> user2/{new_name} code={code} new=[{}] gone=[{}] changed=[{}]",
                new_t.iter().map(|x| esc(x)).collect::<Vec<_>>().join(" "), gone_t.iter().map(|x| esc(x)).collect::<Vec<_>>().join(" "), changed_t.iter().map(|x| esc(x)).collect::<Vec<_>>().join(" "));
            if !(200..300).contains(&code) { oracle.push(format!("valid_transfer_rejected {desc}")); continue; }
            let rel = |n: &str| -> Vec<String> { vec![n.to_string(), format!(".{n}"), format!("backups/{n}.bak"), format!("backups/{n}.log"), format!("audit/{n}.log")] };
            let mut left: Vec<String> = vec![];
            for n in ["src", new_name] {
                for f in rel(n) { let p = format!("data/user1/{f}"); if s1.contains_key(&p) { left.push(p); } }
            }
            left.sort(); left.dedup();
            if !left.is_empty() { oracle.push(format!("transfer_left_file_in_old_owner_dir {desc} left=[{}]", left.iter().map(|x| esc(x)).collect::<Vec<_>>().join(" "))); }
            let stray: Vec<&String> = new_t.iter().filter(|p| !p.starts_with("data/user2/")).collect();
            if !stray.is_empty() { oracle.push(format!("file_outside_owner_dir {desc} outside=[{}]", stray.iter().map(|x| esc(x)).collect::<Vec<_>>().join(" "))); }
            match cx.content(2, "user2", new_name).await {
                Ok((n, a)) => if n != vec!["5"] || a != 1 { oracle.push(format!("transfer_changed_database {desc} :: content {n:?} audit {a}")); },
                Err(e) => oracle.push(format!("transfer_changed_database {desc} :: {e}")),
            }
            cx.as_user(2);
            match cx.api.db_restore("user2", new_name).await {
                Ok(_) => match cx.content(2, "user2", new_name).await {
                    Ok((n, a)) => if n != vec!["5"] || a != 1 { oracle.push(format!("transfer_lost_backup {desc} :: after restore content {n:?} audit {a}")); },
                    Err(e) => oracle.push(format!("transfer_lost_backup {desc} :: after restore {e}")),
                },
                Err(e) => oracle.push(format!("transfer_lost_backup {desc} :: restore failed {} {}", e.status, e.description)),
            }
            cx.as_user(2);
            let _ = cx.api.db_delete("user2", new_name).await;
            let s2 = cx.snap();
            let mut rest: Vec<String> = vec![];
            for owner in ["user1", "user2"] { for f in rel(new_name) { let p = format!("data/{owner}/{f}"); if s2.contains_key(&p) && !(new_name == "src" && false) { rest.push(p); } } }
            if !rest.is_empty() { oracle.push(format!("delete_left_files {desc} left=[{}]", rest.join(" "))); }
            if !srv.alive() { oracle.push(format!("server_crashed {desc}")); break; }
        }
    }
    let _ = cx.cleanup().await;
    let _ = hx(0);
    write_lines(&format!("{out}/cases.txt"), &cases);
    write_lines(&format!("{out}/impl.txt"), &impls);
    let oracle: Vec<String> = oracle.iter().map(|l| l.replace('\n', " ").replace('\r', " ")).collect();
    write_lines(&format!("{out}/oracle.txt"), &oracle);
    let samples: Vec<String> = cases.iter().take(3).cloned().collect();
    write_stats(&format!("{out}/stats.json"), &stats, cases.len() as u64, trig.len() as u64, &samples);
    srv.stop();
    0
}
