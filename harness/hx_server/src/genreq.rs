// gen.rs — seeded generators of multi-user request sequences (C24) and query batches (C25).
// A mostly-valid stream over the live users / tokens / databases the harness has observed,
// plus an invalid stream: missing, garbage, logged-out tokens, wrong roles, non-owners.
use crate::exec::Session;
use crate::model::*;
use crate::rng::Rng;

pub const USERS: [u64; 4] = [0, 1, 2, 3];
pub const DBS: [u64; 3] = [1, 2, 3];

fn weighted(rng: &mut Rng, w: &[u64]) -> usize {
    let total: u64 = w.iter().sum();
    let mut r = rng.below(total);
    for (i, x) in w.iter().enumerate() {
        if r < *x { return i; }
        r -= *x;
    }
    w.len() - 1
}

pub struct Gen { pub rng: Rng, pub marker: u64 }

impl Gen {
    pub fn new(rng: Rng) -> Gen { Gen { rng, marker: 0 } }
    fn mark(&mut self) -> u64 { self.marker += 1; self.marker }

    fn live(&self, s: &Session) -> Vec<u64> { s.tokens.iter().enumerate().filter(|(_, t)| t.alive).map(|(i, _)| i as u64).collect() }
    fn dead(&self, s: &Session) -> Vec<u64> { s.tokens.iter().enumerate().filter(|(_, t)| !t.alive).map(|(i, _)| i as u64).collect() }

    pub fn token(&mut self, s: &Session) -> Tok {
        let live = self.live(s);
        let dead = self.dead(s);
        let r = self.rng.below(100);
        if r < 74 && !live.is_empty() {
            // prefer non-admin callers
            let non_admin: Vec<u64> = live.iter().copied().filter(|k| s.tokens[*k as usize].user != 0).collect();
            if !non_admin.is_empty() && self.rng.chance(3, 4) { Tok::T(*self.rng.pick(&non_admin)) } else { Tok::T(*self.rng.pick(&live)) }
        } else if r < 86 && !dead.is_empty() {
            Tok::T(*self.rng.pick(&dead))
        } else if r < 91 {
            Tok::Garbage
        } else if r < 95 {
            Tok::None
        } else if !s.tokens.is_empty() {
            Tok::T(self.rng.below(s.tokens.len() as u64))
        } else {
            Tok::None
        }
    }

    fn admin_token(&mut self, s: &Session) -> Option<Tok> {
        let v: Vec<u64> = self.live(s).into_iter().filter(|k| s.tokens[*k as usize].user == 0).collect();
        if v.is_empty() { None } else { Some(Tok::T(*self.rng.pick(&v))) }
    }

    fn user(&mut self) -> u64 { *self.rng.pick(&USERS) }
    fn known_pw(&mut self, s: &Session, u: u64) -> u64 { *s.users.get(&u).unwrap_or(&150) }

    fn refs(&mut self, pos: usize, nodes: u64, valid: bool) -> Vec<Ref> {
        let n = self.rng.range(1, 2);
        (0..n).map(|_| {
            let r = self.rng.below(100);
            if r < 45 && pos > 0 { Ref::Res(self.rng.below(pos as u64) as usize) }
            else if r < 90 || valid { if nodes > 0 { Ref::Id(self.rng.range(1, nodes)) } else if pos > 0 { Ref::Res(0) } else { Ref::Id(0) } }
            else if r < 94 { Ref::Res(pos + self.rng.below(3) as usize) }
            else if r < 97 { Ref::Id(0) }
            else { Ref::Id(nodes + 5) }
        }).collect()
    }

    /// a batch for the exec / exec_mut endpoints.  `style`: 0 = read only, 1 = mutating and
    /// meant to succeed, 2 = any mix (may fail anywhere), 3 = inserts then a failing query
    pub fn batch(&mut self, style: u64, nodes: u64, max: u64) -> Vec<Q> {
        let len = self.rng.range(1, max);
        let mut out: Vec<Q> = vec![];
        let mut n = nodes;
        for i in 0..len as usize {
            let q = match style {
                0 => match self.rng.below(6) {
                    0 => Q::Count, 1 => Q::Search, 2 | 3 => Q::Select(self.refs(i, n, true)),
                    _ => Q::Probe(*self.rng.pick(&READ_PROBES)),
                },
                1 => match self.rng.below(10) {
                    0..=3 => { n += 1; Q::InsNode(self.mark()) }
                    4 | 5 => { let m = self.mark(); Q::SetVal(self.refs(i, n, true), m) }
                    6 => Q::RmVal(self.refs(i, n, true)),
                    7 => Q::Select(self.refs(i, n, true)),
                    8 => Q::Probe(*self.rng.pick(&[0usize, 3, 4, 5])),
                    _ => Q::Count,
                },
                2 => match self.rng.below(14) {
                    0..=3 => { n += 1; Q::InsNode(self.mark()) }
                    4..=6 => { let m = self.mark(); Q::SetVal(self.refs(i, n, false), m) }
                    7 => Q::RmVal(self.refs(i, n, false)),
                    8 | 9 => Q::Select(self.refs(i, n, false)),
                    10 => Q::Probe(*self.rng.pick(&WRITE_PROBES)),
                    11 => Q::Probe(*self.rng.pick(&READ_PROBES)),
                    12 => Q::Search,
                    _ => Q::Count,
                },
                _ => { n += 1; Q::InsNode(self.mark()) }
            };
            out.push(q);
        }
        if style == 3 {
            out.push(if self.rng.chance(1, 2) { Q::Select(vec![Ref::Id(n + 7)]) } else { Q::Probe(1) });
        }
        out
    }

    fn db_target(&mut self, s: &Session, caller: Option<u64>) -> (u64, u64) {
        let dbs = &s.last.dbs;
        if !dbs.is_empty() && self.rng.chance(82, 100) {
            let mine: Vec<(u64, u64)> = dbs.iter().filter(|d| caller.map(|c| d.role(c).is_some()).unwrap_or(false)).map(|d| (d.owner, d.name)).collect();
            if !mine.is_empty() && self.rng.chance(7, 10) { return *self.rng.pick(&mine); }
            let d = self.rng.pick(dbs);
            return (d.owner, d.name);
        }
        let o = if let (Some(c), true) = (caller, self.rng.chance(2, 3)) { c } else { self.user() };
        (o, *self.rng.pick(&DBS))
    }

    fn db_op(&mut self, s: &Session, o: u64, d: u64, caller: Option<u64>, admin_ep: bool) -> Op {
        let nodes = s.last.db(o, d).map(|x| x.nodes.len() as u64).unwrap_or(0);
        let exists = s.last.db(o, d).is_some();
        let w: [u64; 17] = if exists { [2, 3, 4, 3, 2, 5, 2, 8, 16, 2, 3, 5, 4, 3, 9, 3, 6] } else { [30, 1, 1, 1, 1, 2, 1, 1, 2, 1, 1, 2, 1, 1, 2, 1, 1] };
        match weighted(&mut self.rng, &w) {
            0 => Op::Add(if self.rng.chance(3, 4) { Kind::Mapped } else { Kind::File }),
            1 => Op::Audit,
            2 => Op::Backup,
            3 => Op::Clear(*self.rng.pick(&[Res::All, Res::Db, Res::Audit, Res::Backup])),
            4 => Op::Convert(if self.rng.chance(1, 2) { Kind::Mapped } else { Kind::File }),
            5 => Op::Copy(if admin_ep { self.user() } else { 0 }, *self.rng.pick(&DBS)),
            6 => Op::Delete,
            7 => { let st = if self.rng.chance(85, 100) { 0 } else { 1 }; Op::Exec(self.batch(st, nodes, 3)) }
            8 => { let st = *self.rng.pick(&[1u64, 1, 1, 1, 1, 0, 3]); Op::ExecMut(self.batch(st, nodes, 3)) }
            9 => Op::Optimize,
            10 => Op::Remove,
            11 => Op::Rename(if admin_ep { if self.rng.chance(1, 2) { o } else { self.user() } } else { 0 }, *self.rng.pick(&DBS)),
            12 => Op::Restore,
            13 => Op::Rollback,
            14 => Op::UAdd(if self.rng.chance(9, 10) { *self.rng.pick(&[1u64, 2, 3, 0]) } else { 7 }, *self.rng.pick(&[Role::Admin, Role::Write, Role::Read, Role::Read])),
            15 => Op::UList,
            _ => Op::URemove(if let (Some(c), true) = (caller, self.rng.chance(1, 3)) { c } else { self.user() }),
        }
    }

    /// one request of the C24 stream
    pub fn request(&mut self, s: &Session) -> (Tok, Req) {
        let mut tok = self.token(s);
        let caller = s.caller(tok);
        let kind = weighted(&mut self.rng, &[9, 4, 2, 2, 4, 52, 12, 10]);
        let sel = |g: &mut Gen, s: &Session| -> Sel {
            match g.rng.below(5) {
                0 | 1 => Sel::Cur, 2 => Sel::All, 3 => Sel::Others,
                _ => if !s.tokens.is_empty() && g.rng.chance(4, 5) { Sel::Sid(g.rng.below(s.tokens.len() as u64)) } else { Sel::Sid(0xffff) },
            }
        };
        let req = match kind {
            0 => {
                let u = if self.rng.chance(9, 10) { self.user() } else { 9 };
                let pw = if self.rng.chance(85, 100) { self.known_pw(s, u) } else { 190 + self.rng.below(3) };
                tok = Tok::None;
                Req::Login(u, pw)
            }
            1 => Req::Logout(sel(self, s)),
            2 => {
                let old = match caller { Some(c) if self.rng.chance(4, 5) => self.known_pw(s, c), _ => 191 };
                let new = if self.rng.chance(4, 5) { 100 + self.rng.below(6) } else { 5 + self.rng.below(20) };
                Req::ChPw(old, new)
            }
            3 => Req::Status,
            4 => Req::DbList,
            5 => { let (o, d) = self.db_target(s, caller); Req::Db(o, d, self.db_op(s, o, d, caller, false)) }
            6 => {
                if caller != Some(0) && self.rng.chance(3, 4) { if let Some(t) = self.admin_token(s) { tok = t; } }
                if self.rng.chance(1, 8) { Req::ADbList } else { let (o, d) = self.db_target(s, None); Req::ADb(o, d, self.db_op(s, o, d, Some(0), true)) }
            }
            _ => {
                if caller != Some(0) && self.rng.chance(3, 4) { if let Some(t) = self.admin_token(s) { tok = t; } }
                match weighted(&mut self.rng, &[5, 3, 2, 6, 1, 3, 1]) {
                    0 => {
                        let u = if self.rng.chance(9, 10) { *self.rng.pick(&[1u64, 2, 3, 4]) } else { 1000 + self.rng.below(3) };
                        Req::AUAdd(u, if self.rng.chance(9, 10) { 100 + self.rng.below(6) } else { 7 })
                    }
                    1 => Req::AUChPw(self.user(), 100 + self.rng.below(6)),
                    2 => Req::AUDel(*self.rng.pick(&[1u64, 2, 3, 4, 4])),
                    3 => Req::AULogout(self.user(), sel(self, s)),
                    4 => Req::AULogoutAll,
                    5 => Req::AUList,
                    _ => Req::AStatus,
                }
            }
        };
        (tok, req)
    }
}
