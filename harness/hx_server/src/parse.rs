// parse.rs — reads case lines (`server reset ..` / `server req <now> <tok> <request>`) back into
// requests, so stored sequences (corpus/C24, corpus/C25, violation replays) can be re-executed.
use crate::model::*;

#[derive(Clone, Debug)]
pub enum S { A(String), L(Vec<S>) }

pub fn sexps(s: &str) -> Result<Vec<S>, String> {
    let b = s.as_bytes();
    let mut pos = 0usize;
    fn one(b: &[u8], pos: &mut usize) -> Result<S, String> {
        while *pos < b.len() && (b[*pos] == b' ' || b[*pos] == b'\t') { *pos += 1; }
        if *pos >= b.len() { return Err("unexpected end".into()); }
        if b[*pos] == b'(' {
            *pos += 1;
            let mut v = vec![];
            loop {
                while *pos < b.len() && (b[*pos] == b' ' || b[*pos] == b'\t') { *pos += 1; }
                if *pos >= b.len() { return Err("missing )".into()); }
                if b[*pos] == b')' { *pos += 1; return Ok(S::L(v)); }
                v.push(one(b, pos)?);
            }
        }
        let st = *pos;
        while *pos < b.len() && !matches!(b[*pos], b' ' | b'\t' | b'(' | b')') { *pos += 1; }
        Ok(S::A(String::from_utf8_lossy(&b[st..*pos]).to_string()))
    }
    let mut out = vec![];
    loop {
        while pos < b.len() && (b[pos] == b' ' || b[pos] == b'\t') { pos += 1; }
        if pos >= b.len() { return Ok(out); }
        out.push(one(b, &mut pos)?);
    }
}

fn num(s: &S) -> Result<u64, String> {
    match s { S::A(a) => u64::from_str_radix(a, 16).map_err(|_| format!("bad number {a}")), _ => Err("number expected".into()) }
}
fn atom(s: &S) -> Result<&str, String> { match s { S::A(a) => Ok(a), _ => Err("atom expected".into()) } }
fn role(s: &S) -> Result<Role, String> {
    match atom(s)? { "admin" => Ok(Role::Admin), "write" => Ok(Role::Write), "read" => Ok(Role::Read), x => Err(format!("bad role {x}")) }
}
fn kind(s: &S) -> Result<Kind, String> { match atom(s)? { "mapped" => Ok(Kind::Mapped), "file" => Ok(Kind::File), x => Err(format!("bad kind {x}")) } }
fn sel(s: &S) -> Result<Sel, String> {
    match s {
        S::A(a) => match a.as_str() { "cur" => Ok(Sel::Cur), "all" => Ok(Sel::All), "others" => Ok(Sel::Others), x => Err(format!("bad selector {x}")) },
        S::L(l) if l.len() == 2 => Ok(Sel::Sid(num(&l[1])?)),
        _ => Err("bad selector".into()),
    }
}
fn refs(s: &S) -> Result<Vec<Ref>, String> {
    match s {
        S::L(l) => l.iter().map(|x| match x {
            S::L(p) if p.len() == 2 && atom(&p[0]) == Ok("id") => Ok(Ref::Id(num(&p[1])?)),
            S::L(p) if p.len() == 2 && atom(&p[0]) == Ok("res") => atom(&p[1])?.parse::<usize>().map(Ref::Res).map_err(|e| e.to_string()),
            _ => Err("bad ref".to_string()),
        }).collect(),
        _ => Err("refs expected".into()),
    }
}
fn query(s: &S) -> Result<Q, String> {
    match s {
        S::A(a) => match a.as_str() { "count" => Ok(Q::Count), "search" => Ok(Q::Search), x => Err(format!("bad query {x}")) },
        S::L(l) => match (atom(&l[0])?, l.len()) {
            ("insnode", 2) => Ok(Q::InsNode(num(&l[1])?)),
            ("setval", 3) => Ok(Q::SetVal(refs(&l[1])?, num(&l[2])?)),
            ("rmval", 2) => Ok(Q::RmVal(refs(&l[1])?)),
            ("select", 2) => Ok(Q::Select(refs(&l[1])?)),
            ("probe", 2) => PROBES.iter().position(|p| Ok(*p) == atom(&l[1])).map(Q::Probe).ok_or("bad probe".to_string()),
            (x, _) => Err(format!("bad query {x}")),
        },
    }
}
fn op(s: &S) -> Result<Op, String> {
    match s {
        S::A(a) => match a.as_str() {
            "audit" => Ok(Op::Audit), "backup" => Ok(Op::Backup), "delete" => Ok(Op::Delete), "optimize" => Ok(Op::Optimize),
            "remove" => Ok(Op::Remove), "restore" => Ok(Op::Restore), "rollback" => Ok(Op::Rollback), "ulist" => Ok(Op::UList),
            x => Err(format!("bad op {x}")),
        },
        S::L(l) => match atom(&l[0])? {
            "add" => Ok(Op::Add(kind(&l[1])?)),
            "clear" => Ok(Op::Clear(match atom(&l[1])? { "all" => Res::All, "db" => Res::Db, "audit" => Res::Audit, "backup" => Res::Backup, x => return Err(format!("bad resource {x}")) })),
            "convert" => Ok(Op::Convert(kind(&l[1])?)),
            "copy" => Ok(Op::Copy(num(&l[1])?, num(&l[2])?)),
            "exec" => Ok(Op::Exec(l[1..].iter().map(query).collect::<Result<_, _>>()?)),
            "execmut" => Ok(Op::ExecMut(l[1..].iter().map(query).collect::<Result<_, _>>()?)),
            "rename" => Ok(Op::Rename(num(&l[1])?, num(&l[2])?)),
            "uadd" => Ok(Op::UAdd(num(&l[1])?, role(&l[2])?)),
            "uremove" => Ok(Op::URemove(num(&l[1])?)),
            x => Err(format!("bad op {x}")),
        },
    }
}
pub fn request(s: &S) -> Result<Req, String> {
    let l = match s { S::L(l) if !l.is_empty() => l, _ => return Err("request expected".into()) };
    match atom(&l[0])? {
        "login" => Ok(Req::Login(num(&l[1])?, num(&l[2])?)),
        "logout" => Ok(Req::Logout(sel(&l[1])?)),
        "chpw" => Ok(Req::ChPw(num(&l[1])?, num(&l[2])?)),
        "status" => Ok(Req::Status),
        "dblist" => Ok(Req::DbList),
        "db" => Ok(Req::Db(num(&l[1])?, num(&l[2])?, op(&l[3])?)),
        "adblist" => Ok(Req::ADbList),
        "adb" => Ok(Req::ADb(num(&l[1])?, num(&l[2])?, op(&l[3])?)),
        "auadd" => Ok(Req::AUAdd(num(&l[1])?, num(&l[2])?)),
        "auchpw" => Ok(Req::AUChPw(num(&l[1])?, num(&l[2])?)),
        "audel" => Ok(Req::AUDel(num(&l[1])?)),
        "aulogout" => Ok(Req::AULogout(num(&l[1])?, sel(&l[2])?)),
        "aulogoutall" => Ok(Req::AULogoutAll),
        "aulist" => Ok(Req::AUList),
        "astatus" => Ok(Req::AStatus),
        x => Err(format!("bad request {x}")),
    }
}

pub enum Line { Reset(Vec<(u64, u64)>), Req(Tok, Req) }

pub fn line(s: &str) -> Result<Option<Line>, String> {
    let s = s.trim();
    if s.is_empty() || s.starts_with('#') { return Ok(None); }
    let v = sexps(s)?;
    if v.len() < 2 || atom(&v[0])? != "server" { return Err(format!("not a server line: {s}")); }
    match atom(&v[1])? {
        "reset" => {
            let users = match v.get(4) { Some(S::L(l)) => l.iter().map(|p| match p { S::L(p) if p.len() == 2 => Ok((num(&p[0])?, num(&p[1])?)), _ => Err("bad user".to_string()) }).collect::<Result<Vec<_>, _>>()?, _ => vec![] };
            Ok(Some(Line::Reset(users)))
        }
        "req" | "reqx" => {
            let tok = match atom(&v[3])? {
                "-" => Tok::None,
                "tffffff" => Tok::Garbage,
                t => Tok::T(u64::from_str_radix(t.strip_prefix('t').ok_or("bad token")?, 16).map_err(|e| e.to_string())?),
            };
            Ok(Some(Line::Req(tok, request(&v[4])?)))
        }
        x => Err(format!("bad command {x}")),
    }
}
