// exec.rs — executes model-level requests against the real server through agdb_api
// (AgdbApi<ReqwestClient>), prints canonical observations, evaluates the direct oracles.
use crate::model::*;
use agdb::QueryBuilder;
use agdb_api::{AgdbApi, AgdbApiError, ReqwestClient};
use std::collections::BTreeMap;

pub struct TokInfo { pub real: String, pub session: String, pub user: u64, pub alive: bool }

#[derive(Clone, Debug, PartialEq, Eq)]
pub struct DbObs { pub owner: u64, pub name: u64, pub kind: String, pub roles: Vec<(u64, Role)>, pub nodes: Vec<String>, pub audit: Vec<(u64, String)> }
#[derive(Clone, Debug, PartialEq, Eq, Default)]
pub struct Obs { pub users: Vec<(u64, u64)>, pub dbs: Vec<DbObs> }

impl DbObs {
    pub fn s(&self) -> String {
        format!("({} {} {} (roles{}) (nodes{}) (audit{}))", hx(self.owner), hx(self.name), self.kind,
            self.roles.iter().map(|(u, r)| format!(" ({} {})", hx(*u), r.s())).collect::<String>(),
            self.nodes.iter().map(|n| format!(" {}", n)).collect::<String>(),
            self.audit.iter().map(|(u, q)| format!(" ({} {})", hx(*u), q)).collect::<String>())
    }
    pub fn role(&self, u: u64) -> Option<Role> { self.roles.iter().find(|(x, _)| *x == u).map(|(_, r)| *r) }
}
impl Obs {
    pub fn s(&self) -> String {
        format!("(users{}) (dbs{})",
            self.users.iter().map(|(u, n)| format!(" ({} {})", hx(*u), hx(*n))).collect::<String>(),
            self.dbs.iter().map(|d| format!(" {}", d.s())).collect::<String>())
    }
    pub fn db(&self, o: u64, d: u64) -> Option<&DbObs> { self.dbs.iter().find(|x| x.owner == o && x.name == d) }
}

pub struct Session {
    pub api: AgdbApi<ReqwestClient>,
    pub tokens: Vec<TokInfo>,
    pub observer: Option<usize>,
    pub users: BTreeMap<u64, u64>,      // user -> password as far as the harness knows
    pub base_unix: u64,
    pub ttl: u64,
    pub cases: Vec<String>,
    pub impls: Vec<String>,
    pub oracle: Vec<String>,
    pub seq: Vec<String>,               // case lines of the current sequence (for oracle reports)
    pub last: Obs,
    pub stats: BTreeMap<String, u64>,
    pub fatal: Option<String>,
    pub seq_failed: bool,
    pub data_dir: std::path::PathBuf,
    pub last_ids: Vec<Vec<u64>>,        // element ids of the results of the last exec / exec_mut
    pub transferred: std::collections::BTreeSet<(u64, u64)>,   // databases handed to another owner by an admin rename
    pub converted: std::collections::BTreeSet<(u64, u64)>,     // databases whose kind was changed by a convert
}

fn unix() -> u64 { std::time::SystemTime::now().duration_since(std::time::UNIX_EPOCH).unwrap().as_secs() }

fn code_of<T>(r: &Result<T, AgdbApiError>, ok: impl Fn(&T) -> u16) -> u16 {
    match r {
        Ok(v) => ok(v),
        Err(e) => {
            if e.status >= 500 && std::env::var("HX_TRACE").is_ok() { eprintln!("server error {}: {}", e.status, e.description); }
            e.status
        }
    }
}

impl Session {
    pub fn new(address: &str, ttl: u64, data_dir: &std::path::Path) -> Session {
        let mut users = BTreeMap::new();
        users.insert(0, 1);
        Session {
            api: AgdbApi::new(ReqwestClient::new(), address), tokens: vec![], observer: None, users, base_unix: unix(), ttl,
            cases: vec![], impls: vec![], oracle: vec![], seq: vec![], last: Obs::default(), stats: BTreeMap::new(), fatal: None,
            seq_failed: false, data_dir: data_dir.to_path_buf(), last_ids: vec![], transferred: Default::default(), converted: Default::default(),
        }
    }
    pub fn now(&self) -> u64 { unix().saturating_sub(self.base_unix) }
    fn bump(&mut self, k: &str) { *self.stats.entry(k.to_string()).or_insert(0) += 1; }

    fn real_token(&self, t: Tok) -> Option<String> {
        match t {
            Tok::None => None,
            Tok::Garbage => Some("00000000-dead-beef-0000-000000000000".to_string()),
            Tok::T(k) => Some(self.tokens.get(k as usize).map(|x| x.real.clone()).unwrap_or_else(|| format!("unknown-token-{k}"))),
        }
    }
    fn session_of(&self, sid: u64) -> String {
        self.tokens.get(sid as usize).map(|x| x.session.clone()).unwrap_or_else(|| "nosuchsession".to_string())
    }
    pub fn caller(&self, t: Tok) -> Option<u64> {
        match t { Tok::T(k) => self.tokens.get(k as usize).filter(|x| x.alive).map(|x| x.user), _ => None }
    }

    /// start a new sequence: emits the reset line; the server must already be clean
    pub fn begin(&mut self) {
        self.tokens.clear();
        self.observer = None;
        self.base_unix = unix();
        self.seq.clear();
        self.seq_failed = false;
        self.transferred.clear();
        self.converted.clear();
        self.last = Obs { users: self.users.keys().map(|u| (*u, 0)).collect(), dbs: vec![] };
        let line = format!("server reset {} 0 ({})", hx(self.ttl),
            self.users.iter().map(|(u, p)| format!("({} {})", hx(*u), hx(*p))).collect::<Vec<_>>().join(" "));
        self.cases.push(line.clone());
        self.impls.push("ok".into());
        self.seq.push(line);
    }

    /// hidden clean-up between sequences (not part of any case): delete every database and
    /// every left-over file, log everybody out
    pub async fn cleanup(&mut self) -> Result<(), String> {
        let pw = password(*self.users.get(&0).unwrap_or(&1));
        self.api.token = None;
        self.api.user_login("admin", &pw).await.map_err(|e| format!("cleanup login: {} {}", e.status, e.description))?;
        let (_, dbs) = self.api.admin_db_list().await.map_err(|e| format!("cleanup list: {}", e.description))?;
        for d in dbs {
            let _ = self.api.admin_db_delete(&d.owner, &d.db).await;
        }
        let (_, users) = self.api.admin_user_list().await.map_err(|e| format!("cleanup users: {}", e.description))?;
        for u in users {
            let dir = self.data_dir.join(&u.username);
            if dir.is_dir() {
                let _ = std::fs::remove_dir_all(&dir);
            }
        }
        let _ = self.api.admin_user_logout_all().await;
        let _ = self.api.admin_user_logout("admin").await;
        self.api.token = None;
        Ok(())
    }

    /// hidden: make the server's users (and passwords) those a stored sequence starts from
    pub async fn sync_users(&mut self, wanted: &[(u64, u64)]) -> Result<(), String> {
        let pw = password(*self.users.get(&0).unwrap_or(&1));
        self.api.token = None;
        self.api.user_login("admin", &pw).await.map_err(|e| format!("sync login: {} {}", e.status, e.description))?;
        let have: Vec<u64> = self.users.keys().copied().collect();
        for u in have {
            if u != 0 && !wanted.iter().any(|(w, _)| *w == u) {
                let _ = self.api.admin_user_delete(&user_name(u)).await;
                self.users.remove(&u);
            }
        }
        for (u, p) in wanted {
            match self.users.get(u) {
                Some(q) if q == p => {}
                Some(_) => { self.api.admin_user_change_password(&user_name(*u), &password(*p)).await.map_err(|e| format!("sync chpw: {}", e.status))?; }
                None => { self.api.admin_user_add(&user_name(*u), &password(*p)).await.map_err(|e| format!("sync add: {} {}", e.status, e.description))?; }
            }
            self.users.insert(*u, *p);
        }
        let _ = self.api.admin_user_logout("admin").await;
        self.api.token = None;
        Ok(())
    }

    async fn call(&mut self, tok: Tok, req: &Req) -> (u16, String) {
        self.api.token = self.real_token(tok);
        // the server accepts a bearer token wrapped in double quotes (utilities::unquote in every extractor): every fifth
        // request that carries a real token presents it in that form; the model knows only the token itself
        if let Tok::T(_) = tok {
            let n = *self.stats.get("requests-with-token").unwrap_or(&0);
            self.bump("requests-with-token");
            if n % 5 == 3 {
                self.api.token = self.api.token.take().map(|t| format!("\"{}\"", t));
                self.bump("requests-with-quoted-token");
            }
        }
        let un = user_name;
        let dn = db_name;
        let none = "-".to_string();
        match req {
            Req::Login(u, p) => {
                self.api.token = None;
                let r = self.api.user_login(&un(*u), &password(*p)).await;
                match r {
                    Ok(c) => {
                        let real = self.api.token.clone().unwrap_or_default();
                        // the session id of the new token: the one session of this user not yet known
                        let known: Vec<String> = self.tokens.iter().map(|t| t.session.clone()).collect();
                        let mut session = String::from("unknown-session");
                        if let Ok((_, st)) = self.api.user_status().await {
                            if let Some(s) = st.sessions.iter().find(|s| !known.contains(&s.session)) { session = s.session.clone(); }
                        }
                        self.tokens.push(TokInfo { real, session, user: *u, alive: true });
                        (c, format!("(token {})", hx(self.tokens.len() as u64 - 1)))
                    }
                    Err(e) => (e.status, none),
                }
            }
            Req::Logout(sel) => {
                let r = match sel {
                    Sel::Cur => self.api.user_logout().await,
                    Sel::All => self.api.user_logout_all().await,
                    Sel::Others => self.api.user_logout_others().await,
                    Sel::Sid(s) => { let s = self.session_of(*s); self.api.user_logout_session(&s).await }
                };
                (code_of(&r, |c| *c), none)
            }
            Req::ChPw(o, n) => { let r = self.api.user_change_password(&password(*o), &password(*n)).await; (code_of(&r, |c| *c), none) }
            Req::Status => match self.api.user_status().await {
                Ok((c, st)) => (c, format!("(status {} {} {})", user_id(&st.username).map(hx).unwrap_or(st.username.clone()), if st.admin { 1 } else { 0 }, hx(st.sessions.len() as u64))),
                Err(e) => (e.status, none),
            },
            Req::DbList | Req::ADbList => {
                let r = if matches!(req, Req::DbList) { self.api.db_list().await } else { self.api.admin_db_list().await };
                match r {
                    Ok((c, l)) => {
                        let mut v: Vec<(u64, u64, Role)> = l.iter().map(|d| (user_id(&d.owner).unwrap_or(u64::MAX), db_id(&d.db).unwrap_or(u64::MAX), Role::from_api(d.role))).collect();
                        v.sort();
                        (c, format!("(dbs{})", v.iter().map(|(o, d, r)| format!(" ({} {} {})", hx(*o), hx(*d), r.s())).collect::<String>()))
                    }
                    Err(e) => (e.status, none),
                }
            }
            Req::Db(o, d, op) | Req::ADb(o, d, op) => {
                let adm = matches!(req, Req::ADb(..));
                let (o, d) = (un(*o), dn(*d));
                let a = &self.api;
                match op {
                    Op::Add(k) => { let r = if adm { a.admin_db_add(&o, &d, k.api()).await } else { a.db_add(&o, &d, k.api()).await }; (code_of(&r, |c| *c), none) }
                    Op::Audit => {
                        let r = if adm { a.admin_db_audit(&o, &d).await } else { a.db_audit(&o, &d).await };
                        match r {
                            Ok((c, au)) => (c, format!("(audit{})", au.0.iter().map(|x| format!(" ({} {})", user_id(&x.username).map(hx).unwrap_or(x.username.clone()), canon_query(&x.query))).collect::<String>())),
                            Err(e) => (e.status, none),
                        }
                    }
                    Op::Backup => { let r = if adm { a.admin_db_backup(&o, &d).await } else { a.db_backup(&o, &d).await }; (code_of(&r, |c| *c), none) }
                    Op::Clear(res) => { let r = if adm { a.admin_db_clear(&o, &d, res.api()).await } else { a.db_clear(&o, &d, res.api()).await }; (code_of(&r, |c| c.0), none) }
                    Op::Convert(k) => { let r = if adm { a.admin_db_convert(&o, &d, k.api()).await } else { a.db_convert(&o, &d, k.api()).await }; (code_of(&r, |c| *c), none) }
                    Op::Copy(no, nd) => { let r = if adm { a.admin_db_copy(&o, &d, &un(*no), &dn(*nd)).await } else { a.db_copy(&o, &d, &dn(*nd)).await }; (code_of(&r, |c| *c), none) }
                    Op::Delete => { let r = if adm { a.admin_db_delete(&o, &d).await } else { a.db_delete(&o, &d).await }; (code_of(&r, |c| *c), none) }
                    Op::Exec(qs) | Op::ExecMut(qs) => {
                        let q: Vec<agdb::QueryType> = qs.iter().map(|x| x.to_query()).collect();
                        let r = match (adm, matches!(op, Op::ExecMut(_))) {
                            (false, false) => a.db_exec(&o, &d, &q).await,
                            (false, true) => a.db_exec_mut(&o, &d, &q).await,
                            (true, false) => a.admin_db_exec(&o, &d, &q).await,
                            (true, true) => a.admin_db_exec_mut(&o, &d, &q).await,
                        };
                        match r {
                            Ok((c, rs)) => {
                                self.last_ids = rs.iter().map(|x| x.elements.iter().map(|e| e.id.0.max(0) as u64).collect()).collect();
                                (c, format!("(results{})", rs.iter().map(|x| format!(" {}", canon_result(x))).collect::<String>()))
                            }
                            Err(e) => (e.status, none),
                        }
                    }
                    Op::Optimize => { let r = if adm { a.admin_db_optimize(&o, &d).await } else { a.db_optimize(&o, &d).await }; (code_of(&r, |c| c.0), none) }
                    Op::Remove => { let r = if adm { a.admin_db_remove(&o, &d).await } else { a.db_remove(&o, &d).await }; (code_of(&r, |c| *c), none) }
                    Op::Rename(no, nd) => { let r = if adm { a.admin_db_rename(&o, &d, &un(*no), &dn(*nd)).await } else { a.db_rename(&o, &d, &dn(*nd)).await }; (code_of(&r, |c| *c), none) }
                    Op::Restore => { let r = if adm { a.admin_db_restore(&o, &d).await } else { a.db_restore(&o, &d).await }; (code_of(&r, |c| *c), none) }
                    Op::Rollback => { let r = if adm { a.admin_db_rollback(&o, &d).await } else { a.db_rollback(&o, &d).await }; (code_of(&r, |c| *c), none) }
                    Op::UAdd(u, ro) => { let r = if adm { a.admin_db_user_add(&o, &d, &un(*u), ro.api()).await } else { a.db_user_add(&o, &d, &un(*u), ro.api()).await }; (code_of(&r, |c| *c), none) }
                    Op::UList => {
                        let r = if adm { a.admin_db_user_list(&o, &d).await } else { a.db_user_list(&o, &d).await };
                        match r {
                            Ok((c, l)) => {
                                let mut v: Vec<(u64, Role)> = l.iter().map(|x| (user_id(&x.username).unwrap_or(u64::MAX), Role::from_api(x.role))).collect();
                                v.sort();
                                (c, format!("(users{})", v.iter().map(|(u, r)| format!(" ({} {})", hx(*u), r.s())).collect::<String>()))
                            }
                            Err(e) => (e.status, none),
                        }
                    }
                    Op::URemove(u) => { let r = if adm { a.admin_db_user_remove(&o, &d, &un(*u)).await } else { a.db_user_remove(&o, &d, &un(*u)).await }; (code_of(&r, |c| *c), none) }
                }
            }
            Req::AUAdd(u, p) => { let r = self.api.admin_user_add(&un(*u), &password(*p)).await; (code_of(&r, |c| *c), none) }
            Req::AUChPw(u, p) => { let r = self.api.admin_user_change_password(&un(*u), &password(*p)).await; (code_of(&r, |c| *c), none) }
            Req::AUDel(u) => { let r = self.api.admin_user_delete(&un(*u)).await; (code_of(&r, |c| *c), none) }
            Req::AULogout(u, sel) => {
                let r = match sel {
                    Sel::Sid(s) => { let s = self.session_of(*s); self.api.admin_user_logout_session(&un(*u), &s).await }
                    // the admin endpoint treats "all"/"others"/none alike; send them as the client does
                    Sel::Cur => self.api.admin_user_logout(&un(*u)).await,
                    Sel::All => self.api.admin_user_logout_session(&un(*u), "all").await,
                    Sel::Others => self.api.admin_user_logout_session(&un(*u), "others").await,
                };
                (code_of(&r, |c| *c), none)
            }
            Req::AULogoutAll => { let r = self.api.admin_user_logout_all().await; (code_of(&r, |c| *c), none) }
            Req::AUList => match self.api.admin_user_list().await {
                Ok((c, l)) => {
                    let mut v: Vec<(u64, u64)> = l.iter().map(|x| (user_id(&x.username).unwrap_or(u64::MAX), x.sessions.len() as u64)).collect();
                    v.sort();
                    (c, format!("(ulist{})", v.iter().map(|(u, n)| format!(" ({} {})", hx(*u), hx(*n))).collect::<String>()))
                }
                Err(e) => (e.status, none),
            },
            Req::AStatus => { let r = self.api.admin_status().await; (code_of(&r, |c| c.0), none) }
        }
    }

    /// the observable state through the admin endpoints (observer token)
    pub async fn observe(&mut self) -> Result<Obs, u16> {
        let tok = match self.observer { Some(k) => self.tokens[k].real.clone(), None => return Err(401) };
        self.api.token = Some(tok);
        let (_, ul) = self.api.admin_user_list().await.map_err(|e| e.status)?;
        let mut users: Vec<(u64, u64)> = ul.iter().map(|x| (user_id(&x.username).unwrap_or(u64::MAX), x.sessions.len() as u64)).collect();
        users.sort();
        let (_, dl) = self.api.admin_db_list().await.map_err(|e| e.status)?;
        let mut dbs = vec![];
        for d in dl {
            let (_, rl) = self.api.admin_db_user_list(&d.owner, &d.db).await.map_err(|e| e.status)?;
            let mut roles: Vec<(u64, Role)> = rl.iter().map(|x| (user_id(&x.username).unwrap_or(u64::MAX), Role::from_api(x.role))).collect();
            roles.sort();
            let dump: Vec<agdb::QueryType> = vec![QueryBuilder::select().search().elements().query().into()];
            let (_, rs) = self.api.admin_db_exec(&d.owner, &d.db, &dump).await.map_err(|e| e.status)?;
            let mut nodes = vec![];
            for (i, e) in rs[0].elements.iter().enumerate() {
                let v = e.values.iter().find(|kv| kv.key == agdb::DbValue::from("v")).map(|kv| kv.value.to_u64().map(hx).unwrap_or("?".into())).unwrap_or("-".into());
                let extra = if e.values.len() > 1 { format!("+{}", e.values.len() - 1) } else { String::new() };
                if e.id.0 == i as i64 + 1 { nodes.push(format!("{v}{extra}")) } else { nodes.push(format!("{}:{v}{extra}", e.id.0)) }
            }
            let (_, au) = self.api.admin_db_audit(&d.owner, &d.db).await.map_err(|e| e.status)?;
            let audit = au.0.iter().map(|x| (user_id(&x.username).unwrap_or(u64::MAX), canon_query(&x.query))).collect();
            dbs.push(DbObs { owner: user_id(&d.owner).unwrap_or(u64::MAX), name: db_id(&d.db).unwrap_or(u64::MAX),
                kind: format!("{}", d.db_type), roles, nodes, audit });
        }
        dbs.sort_by_key(|d| (d.owner, d.name));
        Ok(Obs { users, dbs })
    }

    fn report(&mut self, cls: &str, what: &str) {
        let hist = self.seq.join(" ;; ");
        self.oracle.push(format!("{cls} {what} ;; sequence: {hist}"));
        self.seq_failed = true;
    }

    /// what the documentation allows: Some(false) = must be rejected
    fn doc_allows(&self, caller: Option<u64>, req: &Req, pre: &Obs) -> Option<bool> {
        let c = match (caller, req) { (_, Req::Login(..)) => return None, (None, _) => return Some(false), (Some(c), _) => c };
        match req {
            Req::Logout(_) | Req::ChPw(..) | Req::Status | Req::DbList => Some(true),
            Req::Db(o, d, op) => {
                let role = pre.db(*o, *d).and_then(|x| x.role(c));
                Some(match op {
                    Op::Add(_) | Op::Delete | Op::Remove | Op::Rename(..) => c == *o,
                    Op::Backup | Op::Clear(_) | Op::Convert(_) | Op::Restore | Op::Rollback | Op::UAdd(..) | Op::URemove(_) => role == Some(Role::Admin),
                    Op::ExecMut(_) | Op::Optimize => matches!(role, Some(Role::Admin) | Some(Role::Write)),
                    Op::Audit | Op::Copy(..) | Op::Exec(_) | Op::UList => role.is_some(),
                })
            }
            _ => Some(c == 0),
        }
    }

    /// one request of the sequence: execute, observe, print, check the direct oracles
    pub async fn step(&mut self, tok: Tok, req: Req) -> u16 {
        let now = self.now();
        let reports_before = self.oracle.len();
        let pre = self.last.clone();
        let caller = self.caller(tok);
        let (code, body) = self.call(tok, &req).await;
        if code == 0 || code >= 500 { self.bump(&format!("status_{code}")); }
        let ok = (200..300).contains(&code);
        if let (Req::Login(0, _), true) = (&req, ok) { if self.observer.is_none() { self.observer = Some(self.tokens.len() - 1); } }
        let obs = self.observe().await;
        let head = format!("server {} {} {} {}", if obs.is_ok() { "req" } else { "reqx" }, hx(now), tok.s(), req.s());
        self.seq.push(head.clone());
        self.cases.push(head);
        let post = match &obs {
            Ok(o) => { self.impls.push(format!("{} {} | {}", code, body, o.s())); o.clone() }
            Err(_) => { self.impls.push(format!("{} {} | -", code, body)); self.observer = None; pre.clone() }
        };
        self.bump(&format!("req_{}", req.tag()));
        self.bump(&format!("code_{code}"));
        // ---- bookkeeping of what the harness believes (documentation semantics)
        if ok {
            match &req {
                Req::Logout(sel) => if let (Tok::T(k), Some(u)) = (tok, caller) {
                    for (i, t) in self.tokens.iter_mut().enumerate() {
                        let hit = match sel { Sel::Cur => i as u64 == k, Sel::All => t.user == u, Sel::Others => t.user == u && i as u64 != k, Sel::Sid(s) => i as u64 == *s };
                        if hit { t.alive = false; }
                    }
                },
                Req::AULogout(u, sel) => for (i, t) in self.tokens.iter_mut().enumerate() {
                    let hit = match sel { Sel::Sid(s) => i as u64 == *s, _ => t.user == *u };
                    if hit { t.alive = false; }
                },
                Req::AULogoutAll => for t in self.tokens.iter_mut() { if t.user != 0 { t.alive = false; } },
                Req::AUDel(u) => { for t in self.tokens.iter_mut() { if t.user == *u { t.alive = false; } } self.users.remove(u); }
                Req::AUAdd(u, p) | Req::AUChPw(u, p) => { self.users.insert(*u, *p); }
                Req::ChPw(_, n) => if let Some(u) = caller { self.users.insert(u, *n); },
                Req::ADb(o, d, Op::Rename(no, nd)) => {
                    let was = self.transferred.remove(&(*o, *d));
                    if no != o || was { self.transferred.insert((*no, *nd)); }
                    if self.converted.remove(&(*o, *d)) { self.converted.insert((*no, *nd)); }
                }
                Req::Db(o, d, Op::Rename(_, nd)) => {
                    if self.transferred.remove(&(*o, *d)) { self.transferred.insert((*o, *nd)); }
                    if self.converted.remove(&(*o, *d)) { self.converted.insert((*o, *nd)); }
                }
                Req::Db(o, d, Op::Convert(k)) | Req::ADb(o, d, Op::Convert(k)) => {
                    if pre.db(*o, *d).map(|x| x.kind != k.s()).unwrap_or(false) { self.converted.insert((*o, *d)); }
                }
                _ => {}
            }
        }
        if let Err(oc) = &obs {
            if *oc != 401 {
                let cls = if !self.converted.is_empty() { "db_damaged_by_convert" } else { "state_not_observable" };
                let what = format!("request `{} {}` -> {}: afterwards the admin endpoints cannot read the state (status {})", tok.s(), req.s(), code, oc);
                self.report(cls, &what);
            }
            return code;
        }
        // ---- direct oracles (the property itself, on the implementation)
        let what = format!("request `{} {}` -> {}", tok.s(), req.s(), code);
        // (1) a rejected request has no effect on anything observable
        let mask = |o: &Obs| -> Obs {
            // a failed exec / exec_mut batch that left traces in its own database is reported (and classified) by (4)
            let mut o = o.clone();
            if let Req::Db(ow, d, Op::Exec(_) | Op::ExecMut(_)) | Req::ADb(ow, d, Op::Exec(_) | Op::ExecMut(_)) = &req {
                for x in o.dbs.iter_mut() { if x.owner == *ow && x.name == *d { x.nodes.clear(); x.audit.clear(); } }
            }
            o
        };
        if !ok && mask(&pre) != mask(&post) {
            self.report("rejected_request_changed_state", &format!("{what}: before {} after {}", pre.s(), post.s()));
        }
        // (2) revoked / missing / garbage credentials and operations the documented matrix denies are rejected
        if ok && self.doc_allows(caller, &req, &pre) == Some(false) {
            let cls = match (&req, caller) {
                (_, None) => "performed_without_valid_token",
                (Req::Db(_, _, Op::URemove(t)), Some(c)) if *t == c => "user_remove_self_without_admin",
                (Req::Db(..), _) => "performed_without_documented_db_permission",
                _ => "admin_endpoint_performed_for_non_admin",
            };
            self.report(cls, &format!("{what}: caller {:?} state {}", caller, pre.s()));
        }
        // (3) a caller without write permission never changes a database's content or audit
        let admin_path = matches!(req, Req::ADb(..) | Req::AUDel(_)) && caller == Some(0);
        if !admin_path {
            for d in &pre.dbs {
                let role = caller.and_then(|c| d.role(c));
                if matches!(role, None | Some(Role::Read)) {
                    match post.db(d.owner, d.name) {
                        Some(p) if p.nodes == d.nodes && p.audit == d.audit => {}
                        p => {
                            let cls = if role == Some(Role::Read) { "read_role_changed_db" } else { "no_role_changed_db" };
                            let after = p.map(|x| x.s()).unwrap_or("(gone)".into());
                            self.report(cls, &format!("{what}: db before {} after {}", d.s(), after));
                        }
                    }
                }
            }
        }
        // (4) C25: a batch that failed leaves no trace (also covered by (1); classified here); a batch that
        //     succeeded adds exactly its mutating queries, after result injection, under the caller's name
        if let Req::Db(o, d, op) | Req::ADb(o, d, op) = &req {
            if let (Op::Exec(qs) | Op::ExecMut(qs), Some(b), Some(a)) = (op, pre.db(*o, *d), post.db(*o, *d)) {
                let who = if matches!(req, Req::ADb(..)) { 0 } else { caller.unwrap_or(u64::MAX) };
                if ok {
                    let mut expect = b.audit.clone();
                    if matches!(op, Op::ExecMut(_)) && qs.iter().any(|q| q.is_write()) {
                        for q in qs.iter().filter(|q| q.is_write()) {
                            let inj = |r: &Vec<Ref>| -> Vec<Ref> {
                                r.iter().flat_map(|x| match x {
                                    Ref::Id(n) => vec![Ref::Id(*n)],
                                    Ref::Res(k) => self.last_ids.get(*k).cloned().unwrap_or_default().into_iter().map(Ref::Id).collect(),
                                }).collect()
                            };
                            let q2 = match q { Q::SetVal(r, m) => Q::SetVal(inj(r), *m), Q::RmVal(r) => Q::RmVal(inj(r)), x => x.clone() };
                            expect.push((who, q2.s()));
                        }
                    }
                    if a.audit != expect {
                        self.report("audit_not_exact", &format!("{what}: audit before {:?} after {:?} expected {:?}", b.audit, a.audit, expect));
                    }
                    if matches!(op, Op::Exec(_)) && a.nodes != b.nodes {
                        self.report("read_endpoint_changed_db", &format!("{what}: nodes before {:?} after {:?}", b.nodes, a.nodes));
                    }
                } else if a.nodes != b.nodes || a.audit != b.audit {
                    // the inherited C13 defect needs: some mutating query, later a SetVal that may replace an
                    // existing value (a literal id whose node has a value now or is written earlier in the
                    // batch, or a ":k" reference)
                    let may_replace = |q: &Q| match q {
                        Q::SetVal(r, _) => r.iter().any(|x| match x {
                            Ref::Res(_) => true,
                            Ref::Id(n) => *n >= 1 && b.nodes.get(*n as usize - 1).map(|v| v != "-").unwrap_or(true),
                        }),
                        _ => false,
                    };
                    let overwrite = (1..qs.len()).any(|j| may_replace(&qs[j]) && qs[..j].iter().any(|q| q.is_write()));
                    let cls = if code == 500 && self.transferred.contains(&(*o, *d)) { "batch_applied_but_audit_write_failed_after_owner_transfer" }
                        else if overwrite { "failed_batch_partly_applied_after_value_overwrite" } else { "failed_batch_partly_applied" };
                    self.report(cls, &format!("{what}: nodes before {:?} after {:?}; audit before {} after {}", b.nodes, a.nodes, b.audit.len(), a.audit.len()));
                }
            }
        }
        // (6) only exec_mut / clear / restore / rollback may change the content or audit log of a database, and
        //     only of the database they address (delete / remove / rename make it disappear under that name)
        if ok && self.oracle.len() == reports_before {
            let may_change = match &req {
                Req::Db(o, d, Op::ExecMut(_) | Op::Clear(_) | Op::Restore | Op::Rollback)
                | Req::ADb(o, d, Op::ExecMut(_) | Op::Clear(_) | Op::Restore | Op::Rollback) => Some((*o, *d)),
                _ => None,
            };
            let mut hit = None;
            for b in &pre.dbs {
                if may_change == Some((b.owner, b.name)) { continue; }
                if let Some(a) = post.db(b.owner, b.name) {
                    if a.nodes != b.nodes || a.audit != b.audit { hit = Some((b.s(), a.s(), (b.owner, b.name))); break; }
                }
            }
            if let Some((before, after, key)) = hit {
                let cls = if matches!(req, Req::Db(_, _, Op::Convert(_)) | Req::ADb(_, _, Op::Convert(_))) || self.converted.contains(&key) { "db_damaged_by_convert" } else { "content_changed_by_unrelated_request" };
                self.report(cls, &format!("{what}: db before {before} after {after}"));
            }
        }
        // (5) a request that can only succeed (authorized, every query of a kind that cannot fail) must not
        //     be answered with a server error
        if self.oracle.len() == reports_before {
            let target = match &req { Req::Db(o, d, _) | Req::ADb(o, d, _) => Some((*o, *d)), _ => None };
            let harmless = |qs: &Vec<Q>| qs.iter().all(|q| matches!(q, Q::Count | Q::Search | Q::InsNode(_)) || matches!(q, Q::Probe(p) if *p >= 6));
            let cannot_fail = match &req { Req::Db(_, _, Op::Exec(qs) | Op::ExecMut(qs)) | Req::ADb(_, _, Op::Exec(qs) | Op::ExecMut(qs)) => harmless(qs), _ => false };
            if code >= 500 || (code == 470 && cannot_fail) {
                let cls = if target.map(|t| self.converted.contains(&t)).unwrap_or(false) { "db_damaged_by_convert" } else { "server_error_on_valid_request" };
                self.report(cls, &format!("{what}: state {}", pre.s()));
            }
        }
        self.last = post;
        code
    }
}
