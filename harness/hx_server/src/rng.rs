// splitmix64 — the single PRNG every random choice derives from
#[derive(Clone)]
pub struct Rng(pub u64);

impl Rng {
    pub fn new(seed: u64) -> Self {
        Rng(seed ^ 0x9E37_79B9_7F4A_7C15)
    }
    pub fn next(&mut self) -> u64 {
        self.0 = self.0.wrapping_add(0x9E37_79B9_7F4A_7C15);
        let mut z = self.0;
        z = (z ^ (z >> 30)).wrapping_mul(0xBF58_476D_1CE4_E5B9);
        z = (z ^ (z >> 27)).wrapping_mul(0x94D0_49BB_1331_11EB);
        z ^ (z >> 31)
    }
    pub fn below(&mut self, n: u64) -> u64 {
        if n == 0 { 0 } else { self.next() % n }
    }
    pub fn range(&mut self, lo: u64, hi: u64) -> u64 {
        lo + self.below(hi - lo + 1)
    }
    pub fn chance(&mut self, num: u64, den: u64) -> bool {
        self.below(den) < num
    }
    pub fn pick<'a, T>(&mut self, xs: &'a [T]) -> &'a T {
        &xs[self.below(xs.len() as u64) as usize]
    }
    pub fn fork(&mut self) -> Rng {
        Rng(self.next())
    }
}
