// Observation on the UNCHANGED tree (/repo HEAD 12cd1ad), property C10:
// "empty aliases ... are rejected without effect" holds for `insert aliases`
// but NOT for the other alias-inserting queries. This test FAILS on the
// unchanged tree.
// Drop into agdb/tests/ (e.g. agdb/tests/c10_already_fails.rs) and run
//   cargo test --offline -p agdb --test c10_already_fails

use agdb::DbMemory;
use agdb::QueryBuilder;

fn alias_count(db: &DbMemory) -> u64 {
    db.exec(QueryBuilder::select().aliases().query())
        .unwrap()
        .result
}

#[test]
fn insert_aliases_rejects_empty_alias() {
    let mut db = DbMemory::new("c10_already_fails_0").unwrap();
    db.exec_mut(QueryBuilder::insert().nodes().count(1).query())
        .unwrap();
    assert!(
        db.exec_mut(QueryBuilder::insert().aliases("").ids(1).query())
            .is_err()
    );
    assert_eq!(alias_count(&db), 0);
}

#[test]
fn insert_new_node_with_empty_alias() {
    let mut db = DbMemory::new("c10_already_fails_1").unwrap();
    let result = db.exec_mut(QueryBuilder::insert().nodes().aliases("").query());
    assert!(result.is_err(), "node with empty alias inserted: {result:?}");
    assert_eq!(alias_count(&db), 0);
}

#[test]
fn insert_or_update_existing_node_with_empty_alias() {
    let mut db = DbMemory::new("c10_already_fails_2").unwrap();
    db.exec_mut(QueryBuilder::insert().nodes().count(1).query())
        .unwrap();
    let result = db.exec_mut(QueryBuilder::insert().nodes().ids(1).aliases("").query());
    assert!(result.is_err(), "empty alias assigned: {result:?}");
    assert_eq!(alias_count(&db), 0);
}

#[test]
fn insert_values_for_unknown_empty_alias() {
    let mut db = DbMemory::new("c10_already_fails_3").unwrap();
    let result = db.exec_mut(
        QueryBuilder::insert()
            .values([[("k", 1).into()]])
            .ids("")
            .query(),
    );
    assert!(result.is_err(), "node with empty alias inserted: {result:?}");
    assert_eq!(alias_count(&db), 0);
}
