# C11 — indexes always reflect current property values exactly
import vlib
from checks.db_common import run_db, spec_level

META = dict(
    engine="coq+hx_core",
    technique="Coq proof about the executable database model + differential correspondence of the extracted model with the real agdb on generated query histories",
    level_text="Machine-checked theorems (coq/Props/C11.v) about the executable model of DbIndexes and its maintenance in DbImpl. The invariant idx_inv says: every index is, as a multiset "
               "modulo value equality, exactly {(v,id) | id an existing element with (key,v) among its values}, only existing elements have values, and no key is indexed twice. "
               "FULL (unbounded, every revision): C11_invariant_initial, C11_value_mutations_preserve (insert_key_value, insert_or_replace_key_value, insert_kvs_replace, insert_kvs_new, remove_keys), "
               "C11_remove_all_values (for any live set: exact for the set without the removed element), C11_backfill + C11_backfill_exact (insert_index fills the new index with all earlier data, "
               "with the node/edge sign convention, and establishes the invariant), C11_duplicate_index_err (error, state unchanged), C11_remove_index, "
               "C11_index_search_exact (an AIndex search for K,V returns, as a multiset, exactly the existing elements whose value of K equals V), "
               "C11_index_listing_exact (SelectIndexes reports per key the number of existing elements having it). "
               "HISTORY LEVEL (UNCONDITIONAL): C11_transaction, C11_history and C11_inv_exact (idx_inv, the exact multiset answer of every index search and the exact listing in every state satisfying Inv) show that the joint invariant Inv (graph well-formed [C08] + alias map one-to-one on existing nodes + no duplicate keys + exact indexes) is kept by every mutating query whatever its outcome, at every state inside a running transaction, and after every history from the empty database in which no query fails, for the revision of /repo and histories whose insert lists have distinct keys (query_ok, C09's quantifier). The former hypothesis `traversal_live rv_fixed` is DISCHARGED: theories/TraversalLiveProofs.v proves from the C14 / C17 / C18 developments, under the graph invariant wf, that breadth/depth-first searches (any conditions, any limit/offset) and path searches from existing origins return only existing elements, hence every id returned by any search exists (C10_traversal_live); the old hypothesis was false as literally stated (its path clause did not ask for an existing origin: C10_traversal_live_refuted), so the old *_partial theorems were vacuous and are kept for the record only. States after the ROLLBACK of failing queries / transactions are covered by C13_history_atomic / C13_history_invariant (coq/Props/C13.v): Inv holds at every point of every history of queries and transactions, failing or not (same query_ok quantifier, capacity <= 2^63). "
                              "The model is tied to /repo on every run by executing generated index histories (indexed / non-indexed keys, replacements, cascaded edge removal, index create/remove at "
               "arbitrary points, failing transactions) on the real database and on the extracted model and comparing every query result and periodic full dumps.",
    design_ref="DESIGN.md §5 C11",
    level_note="Trusted: Coq kernel, extraction (ExtrOcamlBasic), OCaml driver, Rust harness/generators. Theorems are about the model (theories/DbModel.v etc.); "
               "the tie to the code is differential execution of generated histories (every query result and periodic full dumps compared).",
)

PROFILE = "index"
CLASSES = ("index-",)
COMMON = ("panic", "read-error")


def run(ctx):
    n, steps = (150, 30) if ctx.tier == "quick" else (4000, 60)
    r = run_db(ctx, PROFILE, n, steps)
    failures = [f for f in r["failures"] if f["cls"].startswith(CLASSES) or f["cls"] in COMMON]
    # the validated database model is the proved specification: a result that differs from it is a violation with the history
    failures += [f for f in spec_level(r) if f["cls"] == "model-mismatch"][:3]
    return dict(
        evaluations=r["cases"], distinct_nontrivial=r["nontrivial"], samples=r["samples"], dist=r["dist"],
        rule="%d generated query histories (profile %s, <= %d steps, mostly-valid operations over live ids/aliases plus an invalid stream); every query "
             "result and a full dump every 8 steps compared line by line with the extracted Coq model; state invariants of the property (every index equals the multiset of "
             "current (value, id) pairs of its key) evaluated on the implementation's dumps; non-trivial = history that reached a state with >= 2 nodes and an edge or a "
             "rolled-back multi-query transaction" % (r["histories"], PROFILE, steps),
        failures=failures, disagreements=r["disagreements"],
        assumptions=["insert lists have distinct keys (needed for the listing count and the 0/1 multiplicity of search results)"],
    )
