# C28 — committed cluster log entries agree on all nodes and never change
from checks.raft_common import *
from checks import raft_witness

META = dict(
    engine="coq+hx_raft",
    technique="Coq: executable model of raft.rs; unconditional invariant proofs for commit monotonicity and stability of committed entries; refutation witnesses for agreement by vm_compute; "
              "differential correspondence with the real raft.rs after every event; direct oracles (commit decrease, committed entry replaced, committed entries differ) on the implementation's states",
    level_text="Machine-checked for every cluster size other than the degenerate 1 and every adversarial event list: (a) a node's commit index never decreases, "
               "(b) an entry at a committed index of a node is never removed or replaced there. (c) agreement between nodes is machine-checked FALSE of the faithful model: "
               "witness histories with a single leader per term show three independent causes (Append accepted without a previous-entry check; leader commits an old-term entry by counting replicas; a voter keeps its old term and acknowledges the old leader's Append), "
               "plus the two election defects of C27; all are reproduced on the real code and recorded as known findings. The model carries the revision of the election code "
               "(C27): the check reads raft.rs and compares with the model of that revision; the first two causes are machine-checked for EVERY revision, the third and the election "
               "defects only before the C27 repairs - on a tree with the repairs their classes are no longer accepted as known findings. The model is tied to /repo on every run by comparing "
               "complete cluster states after every event of seeded adversarial event lists; any disagreement of committed entries outside the listed classes, and any commit decrease "
               "or replaced committed entry at all, is a VIOLATION.",
    design_ref="DESIGN.md §5 C28, C27–C30 common",
    level_note="Theorems are about the model; the tie to the code is differential execution. (c) has no conditional theorem yet (it needs the log-matching and leader-completeness "
               "invariants of the repaired protocol); the classification of failing histories is by decidable markers computed from the history itself.",
)

RULE = ("corpus witnesses of the _refuted lemmas, then seeded random adversarial event lists (deliver/tick/append/drop/duplicate, <=60 events, 3 and 5 nodes); per event the "
        "printed cluster state of the extracted model is compared with the implementation's; non-trivial = at least one leader elected")


def run(ctx):
    s = seed_of(ctx, "C28")
    res = run_property(ctx, "C28", RULE,
                       quick=[("random", ["gen", "--seed", s, "--n", "400", "--len", "60"])],
                       thorough=[("random", ["gen", "--seed", s, "--n", "20000", "--len", "100"]),
                                 ("explore", ["explore", "--depth", "11", "--budget", "3000000"])])
    if not raft_witness.in_sync():
        res["disagreements"].append(dict(what="coq/theories/RaftWitness.v is not the rendering of corpus/C27..C29 (python3 checks/raft_witness.py)"))
    return res


def search(ctx, broken):
    return search_property(ctx, "C28", broken)
