# C28 — committed cluster log entries agree on all nodes and never change
from checks.raft_common import *
from checks import raft_witness

META = dict(
    engine="coq+hx_raft",
    technique="Coq: executable model of raft.rs; unconditional invariant proofs for commit monotonicity and stability of committed entries; refutation witnesses for agreement by vm_compute; "
              "conditional proof of agreement (log matching, leader completeness, state-machine safety as inductive invariants over all event lists) under the negation of three decidable defect markers; "
              "differential correspondence with the real raft.rs after every event; direct oracles (commit decrease, committed entry replaced, committed entries differ) on the implementation's states",
    level_text="Machine-checked for every cluster size other than the degenerate 1 and every adversarial event list: (a) a node's commit index never decreases, "
               "(b) an entry at a committed index of a node is never removed or replaced there. (c) agreement between nodes is machine-checked FALSE of the faithful model: "
               "witness histories with a single leader per term show FOUR independent causes - Append accepted without a previous-entry check (ack-from-diverged-log); leader commits an old-term entry by counting replicas (old-term-commit); "
               "leader counts a peer-table row that is not an acknowledgement of its current term and commits an entry held by fewer than a quorum (commit-without-quorum, found while attempting the conditional proof, 5 nodes, "
               "not found by the random search; before its repair rows are never reset on election, update_node writes them from the peer's own requests before validation, response() accepts acknowledgements of any term); a voter keeps its old term and acknowledges the old leader's Append (only before the C27 repairs) - "
               "plus the two election defects of C27; all are reproduced on the real code and recorded as known findings. "
               "REPAIR OF THE THIRD CLASS (fixes/C28-count-only-current-term-acks.diff: vote_received clears log_index/log_term/log_commit of the other rows when the node becomes Leader, and the (Leader, Heartbeat|Append, OK) arm of "
               "response() requires request.term == self.term): the model carries it as the third revision flag fix_ack_term; the check reads the tree it runs against and selects the revision (rr_before_ack_fix = both C27 election "
               "repairs only, rr_fixed = all three repairs) and cross-checks the reading by behaviour (scripted history). Machine-checked: the commit-without-quorum witnesses hold in every revision WITHOUT the repair "
               "(C28c_refuted_commit_noquorum, ..._before_ack_fix, C28c_two_classes_not_enough) and the SAME event lists are harmless under rr_fixed (C28c_commit_noquorum_witness_harmless_fixed); "
               "ROOT-CAUSE THEOREM C28c_no_stale_ack_fixed (full, every cluster size, every adversarial event list): with the repair no Leader ever counts, at a step that raises its commit index, a peer-table row that was not written "
               "by commit() from an Ok answer to a request of its current term since it became Leader (marker stale_ack_counted_b, a function of the run with a ghost record of who wrote each row; set in the corpus witnesses before the "
               "repair: C28c_stale_ack_before_ack_fix); the marker is also computed by the harness on the implementation and compared with the model on every event list. "
               "On a tree WITH the repair the class commit-without-quorum is no longer accepted as a known finding (it is reported as repaired-class-reappeared-commit-without-quorum, a VIOLATION); on a tree without it, it stays a known finding. "
               "CONDITIONAL THEOREM (C28c_partial), machine-checked for model revision rr_fixed, every cluster size other than 1 and every adversarial event list: "
               "if none of the three log-replication markers (ack-from-diverged-log, old-term-commit, and the SEMANTIC marker commit-without-quorum) occurs in the run, no two nodes hold different entries at an index both have committed; "
               "i.e. these three classes are the ONLY ways raft.rs can violate (c). PARTIAL: the third hypothesis is kept although its root cause is repaired in rr_fixed, because the semantic marker is also set in harmless histories of the repaired code "
               "(a follower acknowledges, then votes in a higher term before the leader counts it); dropping it needs Raft's acknowledgement-history argument, not done. Intermediate theorems pinned: log matching under the first marker alone (C28_log_matching_partial), well-formed logs, "
               "and 'every committed index of every node was committed by a leader with the entry the node holds'. The hypotheses are non-vacuous (fault-free 3-node history with two entries committed everywhere). "
               "The refutations through ack-from-diverged-log and old-term-commit are machine-checked for EVERY revision (they remain with all repairs), "
               "the election ones only before the C27 repairs - on a tree with the repairs their classes are no longer accepted as known findings. The model is tied to the tree under test on every run by comparing "
               "complete cluster states after every event of seeded adversarial event lists; any disagreement of committed entries outside the accepted classes, and any commit decrease "
               "or replaced committed entry at all, is a VIOLATION.",
    design_ref="DESIGN.md §5 C28, C27–C30 common",
    level_note="Theorems are about the model; the tie to the code is differential execution. (c) is NOT a theorem of the code as it is (three open defect classes, known findings); what is proved is that nothing else can break it. "
               "The third marker of the conditional theorem is semantic (at a leader's commit fewer than size/2+1 nodes of the leader's term hold its entry at that index), computed from the run, not from the ghost history; it also fires in some harmless histories "
               "(a follower that acknowledged and then moved to a higher term), so the conditional theorem is weaker than a theorem about a repaired protocol would be; the root-cause marker stale_ack_counted_b has no such false positives and is "
               "proved false of every history of the repaired revision, but it does not yet replace the semantic hypothesis. The one-node cluster is excluded from the conditional theorems (not from the root-cause theorem). "
               "The revision bit of the acknowledgement repair is read from the source text (both halves of the patch: the guard on the (Leader, Heartbeat|Append, OK) arm or in commit(), and the three assignments = 0 in vote_received) and cross-checked by behaviour.",
)


RULE = ("corpus witnesses of the _refuted lemmas, then seeded random adversarial event lists (deliver/tick/append/drop/duplicate, <=60 events, 3 and 5 nodes); per event the "
        "printed cluster state of the extracted model is compared with the implementation's; non-trivial = at least one leader elected")


def run(ctx):
    s = seed_of(ctx, "C28")
    res = run_property(ctx, "C28", RULE,
                       quick=[("random", ["gen", "--seed", s, "--n", "400", "--len", "60"])],
                       thorough=[("random", ["gen", "--seed", s, "--n", "20000", "--len", "100"]),
                                 ("explore", ["explore", "--depth", "11", "--budget", "3000000"])])
    if not raft_witness.in_sync():
        res["disagreements"].append(dict(what="coq/theories/RaftWitness.v is not the rendering of corpus/C27..C29 (python3 checks/raft_witness.py)"))
    return res


def search(ctx, broken):
    return search_property(ctx, "C28", broken)
