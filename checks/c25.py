# C25 — a server query batch is all-or-nothing and audited exactly
import os
import vlib
from checks.common import *
from checks.server_common import *

META = dict(
    engine="coq+hx_server",
    technique="Coq proofs about an executable model of UserDb::exec / exec_mut and DbPool::exec_mut (transaction over the batch, `:n` result injection, "
              "audit appended only after success) + differential correspondence with a real agdb_server process + direct oracles on dump and audit log",
    level_text="Machine-checked theorems on the model (Auth.v): a batch that fails leaves the server state (content and audit of every database) unchanged; "
               "for every sequence of batches by any users the audit log of a database is its initial log followed, in order, by the mutating queries "
               "(in their form after `:n` injection) of exactly the successful exec_mut batches, each attributed to the submitting user, and read-only "
               "batches add nothing; `:n` resolves to the ids of result n or the batch fails; the read/write classification used by the endpoints "
               "(required_role) is the complement of the read-only transaction's accepted list (t_exec) and equals the audited list. The model is tied "
               "to /repo on every run: generated batches (reads, writes, failing queries, result references, all 18 query kinds) are sent to a real "
               "server through exec / exec_mut by owner, writer, db admin and server admin; results, status, database dump and audit endpoint after each "
               "batch are compared with the extracted model and checked directly (failed batch => dump and audit unchanged; successful batch => audit "
               "grows by exactly its mutating queries). The required_role / t_exec / t_exec_mut query-kind lists are re-read from the source on every run and compared with the model's table. Defects found and repaired in /repo: the inherited rollback defect of C13 (value overwrite), the audit write failing after an ownership transfer; "
               "open finding: convert reopening an open database.",
    design_ref="DESIGN.md §5 C25",
    level_note="Trusted: Coq kernel, extraction, OCaml driver, Rust harness and canonical printers, agdb_api client. The database content is modelled for a "
               "query family (insert node with one value, set/remove/select value by id or `:n`, count, search, one fixed instance of each other query kind); "
               "all-or-nothing of the model is the transaction semantics assumed of agdb (C13) — the tie shows where the real rollback departs from it.",
)


def run(ctx):
    exe, hx, srv = prepare()
    quick = ctx.tier == "quick"
    n, ln = (4, 40) if quick else (40, 80)
    runs = []
    cf = corpus_files("C25")
    if ctx.replay:
        payload = json.load(open(ctx.replay))
        seq = payload.get("violation", {}).get("sequence")
        if seq:
            p = os.path.join(ctx.workdir, "replay_cases.txt")
            open(p, "w").write("\n".join(seq) + "\n")
            cf = [p]
            n = 0
    if cf:
        runs.append(run_stream(ctx, exe, hx, srv, "corpus", ["replay", "--file", ",".join(cf)]))
    if n:
        runs.append(run_stream(ctx, exe, hx, srv, "main", ["c25", "--seed", str(ctx.seed), "--n", str(n), "--len", str(ln)]))
    # the classification table of the 18 query kinds as the model has it (also exercised through the probes)
    kinds = driver_query(exe, ["server kinds"])
    failures, dis, stats = [], tier_a(exe), []
    for r in runs:
        failures += oracle_failures(r["oracle"])
        dis += diff_server(r, r["oracle"])
        if not oracle_failures(r["oracle"]):
            failures += spec_failures(r)
        stats += r["stats"]
    for f in failures:
        m = re.search(r";; sequence: (.*)$", f["what"])
        if m:
            f["sequence"] = m.group(1).split(" ;; ")
    dist, ev, nt, samples = merge_stats(stats)
    if ctx.replay:
        for r in runs:
            for c, m, x in zip(r["cases"], r["model"], r["impl"]):
                print("CASE  %s\n model %s\n impl  %s" % (c, m, x))
    return dict(
        evaluations=ev, distinct_nontrivial=nt, samples=samples, dist=dist,
        rule="corpus sequences first; then %d sequences x %d batches (1-6 queries: insert node, set/remove/select value by literal id, id 0 or `:n`, "
             "count, search, the fixed instances of the 12 other query kinds; styles: read-only, mutating-valid, arbitrary mix, inserts+failing query) "
             "submitted by owner / write user / db admin through /db/.../exec|exec_mut and by the server admin through /admin/db/...; after each batch "
             "the results, the dump and the audit endpoint are compared with the model; non-trivial = distinct batches that failed or contained a "
             "mutating query" % (n, ln),
        failures=failures, disagreements=dis,
        assumptions=["query family of the model (see level_note); nodes are never removed, so ids are dense",
                     "one request at a time; single node"],
        trusted_extra=["agdb_api HTTP client (AgdbApi<ReqwestClient>)", "server launcher of harness/hx_server"],
        notes=["model classification of query kinds: " + " ".join(kinds)[:1500]],
    )
