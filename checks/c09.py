# C09 — element properties behave as a per-element ordered key-value map
import vlib
from checks.db_common import run_db, spec_level

META = dict(
    engine="coq+hx_core",
    technique="Coq proof about the executable database model + differential correspondence of the extracted model with the real agdb on generated query histories",
    level_text="Machine-checked theorems (coq/Props/C09.v) about the executable model of DbKeyValues and its users in DbImpl / the query layer. FULL (unbounded, every revision): "
               "C09_key_equality (DbValue equality is an equivalence; Leibniz equality on 64-bit f64 patterns), C09_insert_or_replace (existing key replaced in place: same position and "
               "length, only that pair changes; new key appended; other elements untouched), C09_insert_or_replace_lookup, C09_distinct_keys_invariant (no element ever holds two equal keys: "
               "preserved by insert_or_replace / remove_value / remove and by the DbImpl loops insert_kvs_replace, insert_kvs_new on an empty element, remove_keys, remove_all_values), "
               "C09_insert_values, C09_insert_new_values, C09_remove_keys (exactly the listed keys go, order kept, count returned), C09_remove_element_clears, "
               "C09_values_by_keys (exact characterisation of the stable sort by request position, no side condition) and C09_values_by_keys_distinct (requested pairs in request order), "
               "C09_select_values (explicit ids: NotFound iff some id misses a requested key; search: skipped; full selection in map order), C09_select_keys, C09_select_key_count, C09_new_element_empty (a new node/edge reusing a slot starts without properties, under the joint invariant). "
               "HISTORY LEVEL (UNCONDITIONAL): C09_transaction and C09_history show that the joint invariant Inv (graph well-formed [C08] + alias map one-to-one on existing nodes + no duplicate keys + exact indexes) is kept by every mutating query whatever its outcome, at every state inside a running transaction, and after every history from the empty database in which no query fails, for the revision of /repo and histories whose insert lists have distinct keys (query_ok, C09's quantifier). The former hypothesis `traversal_live rv_fixed` is DISCHARGED: theories/TraversalLiveProofs.v proves from the C14 / C17 / C18 developments, under the graph invariant wf, that breadth/depth-first searches (any conditions, any limit/offset) and path searches from existing origins return only existing elements, hence every id returned by any search exists (C10_traversal_live); the old hypothesis was false as literally stated (its path clause did not ask for an existing origin: C10_traversal_live_refuted), so the old *_partial theorems were vacuous and are kept for the record only. States after the ROLLBACK of failing queries / transactions are covered by C13_history_atomic / C13_history_invariant (coq/Props/C13.v): Inv holds at every point of every history of queries and transactions, failing or not (same query_ok quantifier, capacity <= 2^63); pinned here as C09_history_all, with C09_abstract_database = what Inv gives a user in one place (resolved ids exist; aliases one-to-one names of existing nodes; unique keys, properties only on existing elements; index searches exact; every id returned by any search exists; edges join existing nodes, adjacency lists and degree counters exact, unconditioned breadth/depth-first searches return exactly the reachable elements; any element can be removed). "
                              "edges, removals, id reuse; values of all nine kinds) on the real database and on the extracted model and comparing every query result and periodic full dumps.",
    design_ref="DESIGN.md §5 C09",
    level_note="Trusted: Coq kernel, extraction (ExtrOcamlBasic), OCaml driver, Rust harness/generators. Theorems are about the model (theories/DbModel.v etc.); "
               "the tie to the code is differential execution of generated histories (every query result and periodic full dumps compared).",
)

PROFILE = "kv"
CLASSES = ("kv-",)
COMMON = ("panic", "read-error")


def run(ctx):
    n, steps = (150, 30) if ctx.tier == "quick" else (4000, 60)
    r = run_db(ctx, PROFILE, n, steps)
    failures = [f for f in r["failures"] if f["cls"].startswith(CLASSES) or f["cls"] in COMMON]
    # the validated database model is the proved specification: a result that differs from it is a violation with the history
    failures += [f for f in spec_level(r) if f["cls"] == "model-mismatch"][:3]
    return dict(
        evaluations=r["cases"], distinct_nontrivial=r["nontrivial"], samples=r["samples"], dist=r["dist"],
        rule="%d generated query histories (profile %s, <= %d steps, mostly-valid operations over live ids/aliases plus an invalid stream); every query "
             "result and a full dump every 8 steps compared line by line with the extracted Coq model; state invariants of the property (no element holds two equal keys, "
             "removed elements hold no values) evaluated on the implementation's dumps; non-trivial = history that reached a state with >= 2 nodes and an edge or a "
             "rolled-back multi-query transaction" % (r["histories"], PROFILE, steps),
        failures=failures, disagreements=r["disagreements"],
        assumptions=["insert lists have distinct keys (the property's own quantifier)"],
    )
