# C23 — concurrent reads see the same results as sequential reads
import os
import vlib
from checks.common import *

META = dict(
    engine="coq+hx_core",
    technique="Coq proof (invariant over all interleavings of a small-step model of FileStorage::read) + multi-threaded stress of the real databases against a sequential baseline "
              "with forced contention through the cfg(agdb_verif) hook + replay of observed lock/read event logs by the extracted model (trace acceptor)",
    level_text="Machine-checked, for every number of threads, every reader program per thread and EVERY schedule of the model's atomic actions (the range check against the file length; try_lock; seek and read_exact on the shared handle "
               "under the lock, or open + seek + read_exact on a private handle when contended): C23_reads_linear (each completed read returned exactly the bytes, or the error, it returns alone; a "
               "thread's completed reads are a prefix of its sequential reads; full), C23_reads_linear_requests (instance for fixed (pos,len) lists), C23_no_deadlock (a thread with pending work "
               "always has an enabled action; full) and C23_completes (a reader scheduled as often as it needs actions alone - at most 4 x its number of sequential reads - has returned its sequential value whatever the others do; full), "
               "C23_refuted_without_lock (the same program on the shared handle without the lock has a 2-thread schedule returning wrong bytes and a spurious error). "
               "C23_queries_equal_partial: every reader that is a deterministic function of the bytes its reads return gives its sequential value under every schedule — PARTIAL with respect to the "
               "property text because the real query code is not translated into such a program and the model cannot exhibit kernel-level offset sharing between duplicated descriptors, short reads or "
               "memory ordering. Tie to /repo (every run): (1) 6 fixed databases (DbFile, Db, DbAny::new_file; nodes, edges, values, aliases, indexes from a generated history) each shared behind RwLock read "
               "guards by 16-64 reader threads executing a battery of generated select / search queries (db.exec, read transactions with 1-3 queries) in random orders; every result must equal the "
               "sequential baseline, no error, no panic; the hook delays lock holders inside the critical section and counts ReadLocked / ReadContended events (both branches are exercised, see "
               "input_distribution events:*); (2) small cases (2-3 threads x <= 3 raw FileStorage::read calls incl. empty reads and reads beyond the end): the per-thread hook events and returns are "
               "logged, the extracted model replays the log as a schedule — overlapping critical sections or different results are rejected.",
    design_ref="DESIGN.md §5 C23",
    level_note="Trusted: Coq kernel, extraction (ExtrOcamlBasic), OCaml driver incl. the log-to-schedule construction of extract/m_conc.ml, Rust harness, std (File::seek/read_exact, Mutex::try_lock, RwLock), the OS. "
               "The hook observes try_lock outcomes and the end of seek+read, not which handle is used nor when the guard is dropped; those mutations are caught by the result oracle only when they manifest "
               "(with 16-64 threads and delayed holders they do within the first thousand reads). The memory mapped variant (Db) reads from an immutable in-memory buffer: no shared cursor, no events.",
)


def run(ctx):
    quick = ctx.tier == "quick"
    nq, threads, dbs, small = (120, 24, 6, 120) if quick else (1500, 64, 12, 3000)
    exe, dlog = vlib.build_driver()
    if exe is None:
        raise RuntimeError("driver build failed: " + dlog)
    tdir, blog = vlib.cargo_build("hx_core", "release")
    if tdir is None:
        raise RuntimeError("harness build failed: " + blog)
    w = ctx.workdir
    # address space capped: a read returning garbage (what the lock prevents) can ask for absurd allocations
    cmd = "ulimit -v 16000000; exec %s c23 --seed %d --n %d --threads %d --dbs %d --small %d --out %s" % (
        os.path.join(tdir, "hx_core"), ctx.seed, nq, threads, dbs, small, w)
    rc, out = vlib.sh(cmd, timeout=3000)
    aborted = []
    if rc != 0:
        if not os.path.exists(os.path.join(w, "cases.txt")):
            raise RuntimeError("harness failed: " + out[-2000:])
        # the process died inside the stress phase (abort on allocation failure / panic while unwinding): a failure of the
        # property with the running database as input
        prog = " ".join(read_lines(os.path.join(w, "progress.txt")))
        aborted = [l for l in read_lines(os.path.join(w, "oracle_live.txt"))]
        aborted.append("conc-panic process aborted (exit %s) while readers were running on %s: %s" % (rc, prog, out[-600:].replace("\n", " | ")))
    rc, err = run_driver(exe, os.path.join(w, "cases.txt"), os.path.join(w, "model.txt"))
    cases, model, impl = (read_lines(os.path.join(w, f)) for f in ("cases.txt", "model.txt", "impl.txt"))
    # a log whose order cannot be replayed as is (an event logged late) still has its results compared
    unordered = sum(1 for m in model if m.startswith("unordered "))
    model = ["ok " + m[len("unordered "):] if m.startswith("unordered ") else m for m in model]
    dis = diff_lines(cases, model, impl, limit=8)
    failures = [dict(cls=l.split(" ")[0], what=l[:5000]) for l in read_lines(os.path.join(w, "oracle.txt")) + aborted]
    dist, ev, nt, samples = merge_stats([os.path.join(w, "stats.json")])
    dist["small:log-order-not-replayable (results still compared)"] = unordered
    notes = []
    contended = sum(v for k, v in dist.items() if k.startswith("events:") and k.endswith(":read-contended"))
    locked = sum(v for k, v in dist.items() if k.startswith("events:") and k.endswith(":read-locked"))
    if contended == 0 or locked == 0:
        # the run did not exercise both branches of FileStorage::read: it shows nothing about the lock
        dis.append(dict(what="no contention observed", detail="read-locked=%d read-contended=%d" % (locked, contended)))
    return dict(
        evaluations=ev, distinct_nontrivial=nt, samples=samples, dist=dist, notes=notes,
        traces_validated=len(cases),
        rule="%d databases (DbFile / Db / DbAny::new_file, 40-200 generated mutations each, 3 indexes) x %d reader threads behind RwLock read guards x a battery of %d generated immutable queries "
             "(half selects of all kinds, half searches incl. paths, conditions, ordering, limits, index searches; invalid ids/aliases included) each executed through db.exec, a read transaction, "
             "or a read transaction with up to 3 queries, in a random order per thread; evaluations = concurrent query executions compared with the sequential baseline (+ small cases); non-trivial = "
             "executions whose baseline returns elements (+ small cases with both a locked and a contended read); a quarter of the lock holders is delayed 20-40 us inside the critical section by the hook; "
             "%d small cases (2-3 threads x 1-3 FileStorage::read on a 4-48 byte file, spinning start line) replayed by the extracted model" % (dbs, threads, nq, small),
        failures=failures, disagreements=dis,
        assumptions=["the database is not mutated while it is shared (the documented reader lock: RwLock read guards)",
                     "opening the existing database file for a private handle succeeds"],
    )


def search(ctx, broken):
    """a proof or the correspondence broke without a failing input: look for one with a larger stress budget
    (more threads and queries, other seeds) on the implementation"""
    tdir, blog = vlib.cargo_build("hx_core", "release")
    if tdir is None:
        return []
    found = []
    for k in range(3):
        w = os.path.join(ctx.workdir, "search%d" % k)
        os.makedirs(w, exist_ok=True)
        cmd = "ulimit -v 16000000; exec %s c23 --seed %d --n %d --threads %d --dbs %d --small %d --out %s" % (
            os.path.join(tdir, "hx_core"), ctx.seed * 7919 + k + 1, 300, 48, 6, 600, w)
        rc, out = vlib.sh(cmd, timeout=3000)
        lines = read_lines(os.path.join(w, "oracle.txt")) + read_lines(os.path.join(w, "oracle_live.txt"))
        if rc != 0:
            lines.append("conc-panic process aborted (exit %s) on %s: %s" % (rc, " ".join(read_lines(os.path.join(w, "progress.txt"))), out[-400:].replace("\n", " | ")))
        found += [dict(cls=l.split(" ")[0], what=l[:5000]) for l in lines]
        if found:
            break
    return found[:5]
