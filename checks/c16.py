# C16 — limit, offset and ordering slice and sort results without failing
import vlib
from checks.db_common import run_db, add_big, spec_level

META = dict(
    engine="coq+hx_core",
    technique="Coq proof about the executable model of the search engine (streaming limit/offset handlers, SearchQuery::slice, SearchQuery::sort) "
              "+ differential correspondence of the extracted model with the real agdb on generated search queries",
    level_text="Machine-checked (coq/Props/C16.v, all FULL, unbounded graphs / condition lists / limits / offsets): C16_elements_stream and "
               "C16_graph_search_stream / C16_search_loop_stream (elements, breadth-first and depth-first search, forward and reverse, any origin: the "
               "run with the Limit/Offset/LimitOffset handler returns exactly clip limit offset of the run without it — simulation of the search loop "
               "from every work list / visited set / counter, using C15_no_finish); C16_slice (SearchQuery::slice = clip, never panics) with "
               "C16_slice_pinned_refuted (the pre-fix slice panicked past the end, e.g. ordered elements search with offset 1 on an empty db); "
               "C16_search_clip, C16_search_sorted_clip, C16_search_no_panic (whole SearchQuery::search for every non-index algorithm incl. path: "
               "result = positions O..O+L-1 of the same search without limit/offset, = that slice of the stably sorted plain search when ordered, no "
               "panic for any limit/offset); C16_order_cmp_spec, C16_order_cmp_total_preorder (the comparator is the lexicographic combination of the "
               "listed keys in their directions with absent keys last, and a total preorder — no hypothesis left, the derived order of DbValue is proved "
               "total), C16_sort_spec (permutation, sorted on adjacent and arbitrary pairs, stable), C16_absent_last; C16_clip_spec pins what clip is. "
               "Stream theorems are conditional on the unlimited search returning (Some l): termination of the search loop on its fuel is C19's "
               "subject. The model is tied to /repo on every run by executing generated searches (limit/offset 0..n+3, 0..3 order keys, all algorithms) "
               "on the real agdb and on the extracted model and comparing every result.",
    design_ref="DESIGN.md §5 C16",
    level_note="Trusted: Coq kernel, extraction (ExtrOcamlBasic), OCaml driver, Rust harness/generators. Theorems are about the model (theories/Search.v), "
               "whose integers are unbounded: the code computes limit.saturating_add(offset) in u64 (LimitOffsetHandler::new; unchecked before "
               "fix: ea4fd27 — found with this property), C16_limit_offset_no_wrap shows the saturated sum gives the same handler results below 2^64-2 "
               "selected elements. The tie to the code is differential execution: a search result "
               "that differs from the model's is reported as a violation, since the model is proved to meet the property.",
)

PROFILE = "search"
CLASSES = ("slice-",)
COMMON = ("panic", "read-error")


def run(ctx):
    n, steps = (150, 30) if ctx.tier == "quick" else (4000, 60)
    r = run_db(ctx, PROFILE, n, steps, seed_off=16)
    r = add_big(ctx, r, 60 if ctx.tier == "quick" else 1500)
    failures = [f for f in r["failures"] if f["cls"].startswith(CLASSES) or f["cls"] in COMMON]
    failures += [f for f in spec_level(r) if f["cls"] == "model-mismatch"]
    return dict(
        evaluations=r["cases"], distinct_nontrivial=r["nontrivial"], samples=r["samples"], dist=r["dist"],
        rule="%d generated query histories (profile %s, <= %d steps: graphs with properties, then searches BFS/DFS/reverse/path/elements with "
             "limit and offset from 0 to beyond the result length and, in 1 of 12 searches, at the u64 boundary (2^63, 2^64-2, 2^64-1), 0..3 order keys with mixed presence / kinds / directions, conditions); each query runs "
             "under catch_unwind (a panic is reported as such); every query result and a full dump every 8 steps compared line by line with the "
             "extracted Coq model, which is proved to slice and sort as the property demands; non-trivial = history that reached a state with >= 2 nodes "
             "and an edge or a rolled-back multi-query transaction" % (r["histories"], PROFILE, steps),
        failures=failures, disagreements=r["disagreements"],
        assumptions=["fewer than 2^64 - 2 elements are selected by one search (the model's integers are unbounded, the code saturates limit + offset)",
                     "the unlimited search terminates within the model's fuel (C19)",
                     "insert lists have distinct keys (the generator's own quantifier)"],
    )
