# TEMPLATE (not a registered check: only files named cNN.py are) for a property decided through the
# database model (coq/theories/DbValue.v Graph.v DbModel.v Search.v Queries.v) and the hx_core `db` harness.
# Copy to checks/cNN.py, adapt META / PROFILE / CLASSES.
import vlib
from checks.db_common import run_db

META = dict(
    engine="coq+hx_core",
    technique="Coq proof about the executable database model + differential correspondence of the extracted model with the real agdb on generated query histories",
    level_text="<what is proved (name the theorems of coq/Props/Cnn.v, say which are full / _partial), and how the model is tied to /repo>",
    design_ref="DESIGN.md §5 Cnn",
    level_note="Trusted: Coq kernel, extraction (ExtrOcamlBasic), OCaml driver, Rust harness/generators. Theorems are about the model (theories/DbModel.v etc.); "
               "the tie to the code is differential execution of generated histories (every query result and periodic full dumps compared).",
)

PROFILE = "alias"                       # generator profile: graph kv alias index txn search all hash
CLASSES = ("alias-",)                   # oracle failure classes that are violations of THIS property
COMMON = ("panic", "read-error")        # failures that are violations wherever they show up


def run(ctx):
    n, steps = (150, 30) if ctx.tier == "quick" else (4000, 60)
    r = run_db(ctx, PROFILE, n, steps)
    failures = [f for f in r["failures"] if f["cls"].startswith(CLASSES) or f["cls"] in COMMON]
    return dict(
        evaluations=r["cases"], distinct_nontrivial=r["nontrivial"], samples=r["samples"], dist=r["dist"],
        rule="%d generated query histories (profile %s, <= %d steps, mostly-valid operations over live ids/aliases plus an invalid stream); every query "
             "result and a full dump every 8 steps compared line by line with the extracted Coq model; state invariants of the property evaluated on the "
             "implementation's dumps; non-trivial = history that reached a state with >= 2 nodes and an edge or a rolled-back multi-query transaction"
             % (r["histories"], PROFILE, steps),
        failures=failures, disagreements=r["disagreements"],
        assumptions=["insert lists have distinct keys (the property's own quantifier)"],
    )
