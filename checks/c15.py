# C15 — search conditions select and prune exactly as documented
import vlib
from checks.db_common import run_db, add_big, spec_level

META = dict(
    engine="coq+hx_core",
    technique="Coq proof that the executable model of the condition evaluator equals an independent formalisation of the documented "
              "semantics (truth tables + prose of queries.md) + differential correspondence of the extracted model with the real agdb on "
              "generated search queries",
    level_text="Machine-checked (coq/Props/C15.v, all FULL, unbounded): C15_and_table / C15_or_table (SearchControl::and/or equal the documented "
               "And/Or tables on every pair of controls, row by row in both orders, tables complete, commutative); C15_no_finish and C15_result_table "
               "(condition evaluation never yields Finish, only Distance and Where may yield Stop); C15_modifiers (Beyond/NotBeyond never change the "
               "selection bit, turn Continue into Stop exactly when documented, start element exempt, Not flips only the selection; the code's modifier "
               "step equals the documented modifier table); C15_type_strict (Equal and the four ordering comparisons hold only between values of one "
               "kind, NotEqual is true across kinds, Contains/StartsWith/EndsWith hold only on the documented vector/element kind pairs, each inhabited) "
               "with C15_type_strict_pinned_refuted (the pre-fix derived PartialOrd made 5_u64 > 30_i64); C15_distance; C15_eval_matches_doc "
               "(evaluate_conditions = the recursive reference evaluator doc_eval written from the documentation, for every condition tree of any "
               "depth, all ten condition kinds, all modifiers, both logic operators) with C15_eval_matches_doc_pinned_refuted (the pre-fix evaluator selected age=5_u64 "
               "for age > 30_i64); C15_path_cost (path search: cost 1 / 2 / 0 for pass / fail / stop as documented); C15_search_step(_doc) / C15_elements_step_doc (an element is "
               "selected iff the control is true, followed iff Continue, pruned iff Stop, the search ends iff Finish). The model is tied to /repo on "
               "every run: generated search queries with random condition trees over generated property graphs are executed by the real agdb and "
               "by the extracted model and every result compared.",
    design_ref="DESIGN.md §5 C15",
    level_note="Trusted: Coq kernel, extraction (ExtrOcamlBasic), OCaml driver, Rust harness/generators, and the reading of the documentation "
               "formalised as DocSpec (coq/theories/CondProofs.v: the tables verbatim; Beyond/NotBeyond contribute the selection bit neutral for "
               "their logic operator; distance-0 exemption of Beyond taken from the documented examples). Theorems are about the model "
               "(theories/Search.v, DbValue.v); the tie to the code is differential execution: a search result that differs from the model's is "
               "reported as a violation, since the model is proved to meet the documented semantics.",
)

PROFILE = "search"
CLASSES = ("cond-",)
COMMON = ("panic", "read-error")


def run(ctx):
    n, steps = (150, 30) if ctx.tier == "quick" else (4000, 60)
    r = run_db(ctx, PROFILE, n, steps)
    r = add_big(ctx, r, 60 if ctx.tier == "quick" else 1500)
    failures = [f for f in r["failures"] if f["cls"].startswith(CLASSES) or f["cls"] in COMMON]
    failures += [f for f in spec_level(r) if f["cls"] == "model-mismatch"]
    return dict(
        evaluations=r["cases"], distinct_nontrivial=r["nontrivial"], samples=r["samples"], dist=r["dist"],
        rule="%d generated query histories (profile %s, <= %d steps: graphs with properties, then searches BFS/DFS/reverse/path/elements/index "
             "with random condition trees — all ten condition kinds, modifiers None/Not/Beyond/NotBeyond, And/Or, nested where — and key-value "
             "comparisons across value kinds); every query result and a full dump every 8 steps compared line by line with the extracted Coq model, "
             "which is proved equal to the documented semantics; non-trivial = history that reached a state with >= 2 nodes and an edge or a "
             "rolled-back multi-query transaction" % (r["histories"], PROFILE, steps),
        failures=failures, disagreements=r["disagreements"],
        assumptions=["the documented semantics is the formalisation DocSpec in coq/theories/CondProofs.v",
                     "insert lists have distinct keys (the generator's own quantifier)"],
    )
