# C04 — stored data survives any pattern of space reuse and defragmentation
# (also carries the storage-level lemmas of C05 / C06, pinned in coq/Props/C04.v)
import os
import vlib
from checks.common import *

META = dict(
    engine="coq+hx_core",
    technique="Coq proof (tiling invariant of the file + refinement of the record table / free maps to a finite map index -> bytes) "
              "+ differential correspondence of the extracted model with the real Storage<D> on MemoryStorage, FileStorage and FileStorageMemoryMapped "
              "+ direct shadow-map oracle on the implementation",
    level_text="Machine-checked theorems (coq/Props/C04.v, all FULL, none partial) about an executable model of storage.rs / storage_records.rs "
               "(every public operation of Storage<D>, the record table with its free-index list, both free maps with the exact take_free / take_free_after / "
               "mark_free_compact rules, read_records, optimize_storage), generic in the byte store: "
               "C04_tiles_init + C04_tiles_preserved (after EVERY history of insert, insert-at incl. beyond the end, replace, resize, move, remove, optimize, reopen by drop+open "
               "and by backup+open, nested transactions and reads the file is the version record followed by a gapless sequence of regions whose headers match the table, "
               "free regions are exactly the entries of both free maps, the free-index list is duplicate-free and disjoint from the live indexes); "
               "C04_refines_map / C04_step_refines (for every operation list every observation — returned indexes, value reads at any offset and size, sizes, error kinds, "
               "transaction ids — is what the abstract map index->bytes allows; removed indexes are unreadable; a file-backed storage dropped with an open transaction comes back "
               "with the map at the last point with no transaction open; a history can end early only by a u64-overflow panic, never by a byte-store call outside pos<=len); "
               "C04_optimize_tight (after optimize the file is exactly the live regions: len = 24 + sum(16+size), both free maps empty, values unchanged); "
               "C04_reopen_preserves (loading the content of a tiled storage succeeds and yields the same regions). "
               "Storage level of C05/C06, pinned in the same file: C05_storage_maintenance, C06_instances_lawful (literal models of MemoryStorage / FileStorage / "
               "FileStorageMemoryMapped obey the byte-store laws under pos<=len), C06_storage_parametric + C06_backends_agree (Storage run over the three back-ends from an empty "
               "store yields the observations of the canonical model for every operation list), C06_mem_file_agree. "
               "Tie to /repo on every run: the same generated operation lists are executed on the real Storage<MemoryStorage>, Storage<FileStorage>, "
               "Storage<FileStorageMemoryMapped> (through agdb::verif::VStorage) and on the extracted model; after EVERY operation the result / error kind, the file length and every "
               "readable index with its bytes are compared line by line; independently a shadow map kept by the harness is the direct oracle on the implementation.",
    design_ref="DESIGN.md §5 C04 (storage level of C05, C06)",
    level_note="Trusted: Coq kernel, extraction (ExtrOcamlBasic), OCaml driver, Rust harness/generators and its shadow map. The theorems are about the model; the tie to the code is "
               "differential execution (exact: returned indexes, file length after each step, error kinds, all live bytes) on the three back-ends. "
               "Modelling decisions: u64 arithmetic is unbounded N with the debug-build overflow panics as outcome `panic` (requests beyond 2^64 bytes; not generated); "
               "a byte-store call outside the contract the back-ends agree on (write starting beyond the end, read beyond the end) is outcome `fault` and proved unreachable; "
               "the rollback of an open transaction when a file-backed storage is dropped is taken from C01 (content at the last flush); the dead field free_size is not modelled. "
               "replace_with_bytes on a missing index leaves its transaction open (observable through transaction ids; reproduced by model and specification; its consequences are C32's subject).",
)


def first_bad_history(cases, model, impl):
    """the operation list of the first disagreeing history (for the replay)"""
    for i, (m, x) in enumerate(zip(model, impl)):
        if m != x:
            j = i
            while j > 0 and not cases[j].startswith("stor new"):
                j -= 1
            return " ".join(c[len("stor "):] for c in cases[j:i + 1])
    return None


def run(ctx):
    quick = ctx.tier == "quick"
    n, steps, exh = (300, 60, 0) if quick else (5000, 200, 4)
    exe, dlog = vlib.build_driver()
    if exe is None:
        raise RuntimeError("driver build failed: " + dlog)
    tdir, blog = vlib.cargo_build("hx_core", "release")
    if tdir is None:
        raise RuntimeError("harness build failed: " + blog)
    w = ctx.workdir
    rc, out = vlib.sh([os.path.join(tdir, "hx_core"), "c04", "--seed", str(ctx.seed), "--n", str(n), "--steps", str(steps),
                       "--exhaustive", str(exh), "--out", w], timeout=6000)
    if rc != 0:
        raise RuntimeError("harness failed: " + out[-2000:])
    rc, err = run_driver(exe, os.path.join(w, "cases.txt"), os.path.join(w, "model.txt"), timeout=6000)
    cases, model, impl = (read_lines(os.path.join(w, f)) for f in ("cases.txt", "model.txt", "impl.txt"))
    dis = diff_lines(cases, model, impl, limit=8)
    h = first_bad_history(cases, model, impl)
    if h and dis:
        dis[0]["history"] = h[:6000]
    # the abstract specification must accept every observation of the model (= of the implementation when the lines agree)
    for i, m in enumerate(model):
        if m.endswith("spec=REJECT") or m.startswith(("fault", "ERROR")):
            dis.append(dict(what="case %d: the specification rejects the model's observation / the model faults" % i, case=cases[i][:2000], model=m[:2000],
                            impl=impl[i][:2000] if i < len(impl) else ""))
            break
    failures = [dict(cls=l.split(" ")[0], what=l[:6000]) for l in read_lines(os.path.join(w, "oracle.txt"))]
    dist, ev, nt, samples = merge_stats([os.path.join(w, "stats.json")])
    hist = dist.get("histories", 0)
    return dict(
        evaluations=ev, distinct_nontrivial=nt, samples=samples, dist=dist,
        rule="%d generated operation lists x 3 back-ends (the same list on MemoryStorage, FileStorage, FileStorageMemoryMapped; <= %d operations: insert, insert-at incl. beyond the end, "
             "replace larger/smaller, resize, move, remove, optimize, reopen by drop+open and by backup+open, nested transactions, reads; value sizes 0-120 biased to multiples of 16 +-1; "
             "1 in 14 operations on a removed / never used / zero index)%s; evaluations = operations executed on the real storage; after EVERY operation the result or error kind, the file length and "
             "every readable index with its bytes are compared with the extracted Coq model (half of the histories against the canonical byte store, half against the literal model of the back-end), "
             "and independently with a shadow map kept by the harness (live values read back exactly, removed indexes unreadable, len == 24 + sum(16+size) after optimize, same map after reopen); "
             "non-trivial = history with >= 10 operations containing a remove, a growing rewrite and an optimize/reopen; %d histories in total"
             % (n, steps, "" if quick else " + every operation list of length 4 over a 17-letter alphabet (sizes 0,16,33) on MemoryStorage and of length 3 on the file back-ends", hist),
        failures=failures, disagreements=dis,
        assumptions=["requests stay below 2^64 bytes (the model answers `panic` beyond; not generated)",
                     "a file-backed storage dropped with an open transaction is rolled back by the undo log (C01)"],
        trusted_extra=["harness shadow map (storrun.rs: Shadow::apply) as the independent statement of the abstract semantics"],
    )


def search(ctx, broken):
    """a broken proof / correspondence: look for an input on which the implementation itself violates the property (shadow-map oracle, larger budget)"""
    tdir, blog = vlib.cargo_build("hx_core", "release")
    if tdir is None:
        return []
    w = os.path.join(ctx.workdir, "search")
    os.makedirs(w, exist_ok=True)
    vlib.sh([os.path.join(tdir, "hx_core"), "c04", "--seed", str(ctx.seed + 7919), "--n", "3000", "--steps", "120", "--out", w], timeout=3000)
    return [dict(cls=l.split(" ")[0], what=l[:6000]) for l in read_lines(os.path.join(w, "oracle.txt"))]
