# C27 — at most one cluster leader per term
from checks.raft_common import *
from checks import raft_witness

META = dict(
    engine="coq+hx_raft",
    technique="Coq: executable model of raft.rs parameterised by the revision of its election code; full election-safety theorem for the repaired revision by an inductive invariant over all "
              "event lists (ghost history of votes: terms never decrease, one support per node and term; a leader holds a majority of votes of its term; quorum intersection); refutation "
              "witnesses by vm_compute for the other revisions; differential correspondence of the extracted model with the real raft.rs (build-time copy, virtual clock) after every "
              "event of adversarial event lists; direct two-leaders-in-one-term oracle on the implementation's own states",
    level_text="The check reads the raft.rs it runs against and selects the revision of the model: whether vote_request adopts the request's term when it grants a vote, whether "
               "response() counts a Vote/Ok answer only for the candidate's current term (the two election repairs fixes/C27-*.diff), and whether a leader counts only acknowledgements of its current term "
               "(fixes/C28-count-only-current-term-acks.diff, a repair of the log replication that is irrelevant for elections: C27_election_safety_any_ack_revision). "
               "With BOTH election repairs present (revisions rr_fixed and rr_before_ack_fix) the full property is a machine-checked theorem of the model, C27_election_safety: for every cluster size (the one-node "
               "cluster included) and every adversarial event list (delivery in any order, loss, duplication, arbitrary timer readings, client appends) no two nodes are ever leaders of "
               "one term; C27_fixed_no_election_classes: in that revision no node supports two candidates in one term, no candidate counts a vote of another term, no node "
               "acknowledges an Append below a term it voted in. On such a tree the classes double-vote and stale-vote-counted are no longer accepted as known findings: any two "
               "leaders in one term is a VIOLATION. "
               "WITHOUT the repairs (revision rr_pinned) the full property is machine-checked FALSE of the faithful model (C27_refuted_double_vote, C27_refuted_stale_vote: "
               "two witness histories, both reproduced on the real code and recorded as known findings; C27_refuted_unless_both_repairs: every revision lacking one of the two election repairs violates it) and "
               "only the conditional theorem C27_partial applies (every history without the two decidable classes has at most one leader per term, any revision) together with "
               "C27_quorum_intersection (any cluster size). Which revision a run found is in the evidence notes and in input_distribution (raft-revision:...). "
               "The model of the selected revision is tied to the tree on every run by comparing every node's state, term, log, commit, peer table and the in-flight messages "
               "after every event of seeded adversarial event lists on 3- and 5-node clusters; the harness also determines the revision by behaviour (a scripted history) and a "
               "difference from the source reading is reported as a broken correspondence.",
    design_ref="DESIGN.md §5 C27, C27–C30 common",
    level_note="Theorems are about the model; the tie to the code is differential execution. Timers are adversarial values (superset of real clocks); storage is the "
               "in-memory log with truncate-on-append; HTTP transport and tokio scheduling are outside (handlers are serialised by the RwLock around the raft value). "
               "The revision is selected by reading the source text (vote_request assigns self.term from the request; the (Candidate, Vote, OK) arm or vote_received compares "
               "request.term with self.term) and cross-checked by behaviour.",
)

RULE = ("corpus witnesses of the _refuted lemmas, then seeded random adversarial event lists (state-aware generator: deliver/tick/append/drop/duplicate, 3 modes, "
        "<=60 events, 5 of 6 cases on 3 nodes, 1 of 6 on 5 nodes); per event the printed cluster state of the extracted model is compared with the implementation's; "
        "non-trivial = event list in which at least one leader was elected")


def run(ctx):
    s = seed_of(ctx, "C27")
    res = run_property(ctx, "C27", RULE,
                       quick=[("random", ["gen", "--seed", s, "--n", "400", "--len", "60"])],
                       thorough=[("random", ["gen", "--seed", s, "--n", "20000", "--len", "80"]),
                                 ("explore", ["explore", "--depth", "11", "--budget", "3000000"])])
    if not raft_witness.in_sync():
        res["disagreements"].append(dict(what="coq/theories/RaftWitness.v is not the rendering of corpus/C27..C29 (python3 checks/raft_witness.py)"))
    return res


def search(ctx, broken):
    return search_property(ctx, "C27", broken)
