# C27 — at most one cluster leader per term
from checks.raft_common import *
from checks import raft_witness

META = dict(
    engine="coq+hx_raft",
    technique="Coq: executable model of raft.rs, refutation witnesses by vm_compute, conditional election-safety theorem by invariant + quorum intersection; "
              "differential correspondence of the extracted model with the real raft.rs (build-time copy, virtual clock) after every event of adversarial event lists; "
              "direct two-leaders-in-one-term oracle on the implementation's own states",
    level_text="The full property is machine-checked FALSE of the faithful model (two witness histories, both reproduced on the real code and recorded as known findings: "
               "a node votes twice in one term because voting does not raise its term; a candidate counts the answer to a Vote request of an earlier term). "
               "Machine-checked instead: the quorum-intersection lemma for any cluster size and the theorem that every history without these two decidable classes has at most one "
               "leader per term (see coq/Props/C27.v for what is pinned). The model is tied to /repo on every run by comparing every node's state, term, log, commit, "
               "peer table and the in-flight messages after every event of seeded adversarial event lists (delivery, loss, duplication, reordering, arbitrary timer readings, "
               "client appends) on 3- and 5-node clusters; any unlisted way of getting two leaders in one term is a VIOLATION.",
    design_ref="DESIGN.md §5 C27, C27–C30 common",
    level_note="Theorems are about the model; the tie to the code is differential execution. Timers are adversarial values (superset of real clocks); storage is the "
               "in-memory log with truncate-on-append; HTTP transport and tokio scheduling are outside (handlers are serialised by the RwLock around the raft value).",
)

RULE = ("corpus witnesses of the _refuted lemmas, then seeded random adversarial event lists (state-aware generator: deliver/tick/append/drop/duplicate, 3 modes, "
        "<=60 events, 5 of 6 cases on 3 nodes, 1 of 6 on 5 nodes); per event the printed cluster state of the extracted model is compared with the implementation's; "
        "non-trivial = event list in which at least one leader was elected")


def run(ctx):
    s = seed_of(ctx, "C27")
    res = run_property(ctx, "C27", RULE,
                       quick=[("random", ["gen", "--seed", s, "--n", "400", "--len", "60"])],
                       thorough=[("random", ["gen", "--seed", s, "--n", "20000", "--len", "80"]),
                                 ("explore", ["explore", "--depth", "11", "--budget", "3000000"])])
    if not raft_witness.in_sync():
        res["disagreements"].append(dict(what="coq/theories/RaftWitness.v is not the rendering of corpus/C27..C29 (python3 checks/raft_witness.py)"))
    return res


def search(ctx, broken):
    return search_property(ctx, "C27", broken)
