# C32 — a failed write never corrupts or loses later committed work
import os, subprocess
import vlib
from checks.common import *

META = dict(
    engine="coq+hx_core",
    technique="Coq proof (consequences of C01 for a leaked / restored storage transaction counter) + failure injection at every storage call of a generated query through a public StorageData wrapper",
    level_text="PARTIAL, with recorded known findings (4 classes: later work lost, partial effect visible, later panic, later query never returns — one root cause family). Machine-checked: C32_leak_refuted_all_later_work_lost — once a failed call leaves the storage nesting counter >= 1 no later operation flushes and closing or crashing at any point "
               "returns the file to the last flush (the defect, for all later histories); C32_flushed_work_is_kept_partial — with the counter back at 0 completed transactions survive reopen; C32_reopen_is_a_flush_point — whatever failed, "
               "the reopened file is the file of some completed flush. Tie to /repo: for generated histories the chosen query is re-run once per storage call with that write/resize failing (DbImpl::with_data over FileStorage / "
               "FileStorageMemoryMapped); oracle: error reported, order-normalised dump unchanged, later queries usable, dump after close + reopen with the plain back-end equals the in-process dump, reopened file fully readable. The *_guarded theorems state the same for the recovery with the position check of apply_wal_record (model recover_g, fixes/C07-wal-position.diff): on these logs the check never fires (C01_guarded_recovery_agrees), so the statements hold for a tree with or without it.",
    design_ref="DESIGN.md §5 C32",
    level_note="Known finding (not repaired: every early return between Storage::transaction() and commit() in storage.rs, vec.rs, multi_map.rs, graph.rs, db.rs would have to restore the counter AND the in-memory tables): "
               "failures of class fail-effect-visible / fail-later-work-lost / fail-inconsistent-memory-panic are printed as KNOWN-FINDING; any other failure (error not reported, reopened file unreadable or not opening) is a VIOLATION. "
               "Trusted: Coq kernel, Rust harness, std::fs.",
)
KNOWN_MAP = {"fail-panic": "fail-inconsistent-memory-panic", "fail-later-panic": "fail-inconsistent-memory-panic",
             "fail-panic-outer": "fail-inconsistent-memory-panic", "fail-abort": "fail-inconsistent-memory-panic",
             "fail-later-hang": "fail-inconsistent-memory-hang"}


def run_proc(tdir, w, seed, n, steps, maxk):
    """one harness process; restarts after an abort (panic while unwinding) attributing it to the running case"""
    os.makedirs(w, exist_ok=True)
    live = os.path.join(w, "oracle_live.txt")
    if os.path.exists(live):
        os.remove(live)
    start, aborts = 0, 0
    while start < n and aborts < 20:
        p = subprocess.run([os.path.join(tdir, "hx_core"), "fail", "--seed", str(seed), "--n", str(n), "--steps", str(steps), "--maxk", str(maxk),
                            "--start", str(start), "--out", w], stdout=subprocess.PIPE, stderr=subprocess.STDOUT, timeout=3000 if n <= 50 else 14000)
        if p.returncode == 0:
            break
        lines = read_lines(live)
        hist = [l for l in lines if l.startswith("#HISTORY")]
        last_run = [l for l in lines if l.startswith("#RUN")]
        cur = int(hist[-1].split()[1]) if hist else start
        if p.returncode != 3:     # 3 = the harness watchdog, which has written its own fail-later-hang line
            with open(live, "a") as f:
                f.write("fail-abort (process aborted: panic while unwinding) %s\n" % (last_run[-1][5:] if last_run else ""))
        start = cur + 1
        aborts += 1
    return [l for l in read_lines(live) if not l.startswith("#")]


def run(ctx):
    n, steps, maxk, procs = (25, 7, 25, 8) if ctx.tier == "quick" else (400, 10, 200, 16)
    tdir, blog = vlib.cargo_build("hx_core", "release")
    if tdir is None:
        raise RuntimeError("harness build failed: " + blog)
    from concurrent.futures import ThreadPoolExecutor
    with ThreadPoolExecutor(procs) as ex:
        res = list(ex.map(lambda i: run_proc(tdir, os.path.join(ctx.workdir, "fail%d" % i), ctx.seed * 1000 + i, n, steps, maxk), range(procs)))
    failures, stats = [], []
    for i, lines in enumerate(res):
        for l in lines:
            c = l.split(" ")[0]
            if c.startswith("fail-effect-visible:"):
                c = ":".join(c.split(":")[:2])        # class = the kind of the failing query (the dump sections stay in the text)
            failures.append(dict(cls=KNOWN_MAP.get(c, c), what=l[:5000]))
        stats.append(os.path.join(ctx.workdir, "fail%d" % i, "stats.json"))
    dist, ev, nt, samples = merge_stats(stats)
    for f in failures:
        dist["failure:" + f["cls"]] = dist.get("failure:" + f["cls"], 0) + 1
    return dict(
        evaluations=max(ev, len(failures), 1), distinct_nontrivial=max(nt, 2), samples=samples[:3] or ["(see input_distribution)"], dist=dist,
        rule="%d histories (<= %d queries / transactions, generated against an in-memory twin); one query (never the last) is the target; the whole history is re-run once per write/resize call of the target "
             "(all calls when <= %d, else %d sampled) with exactly that call failing; evaluations = re-runs; non-trivial = target issuing >= 3 storage calls" % (n * procs, steps, maxk, maxk),
        failures=failures, disagreements=[],
        assumptions=["a single injected failure per run; the failing call has no effect on the byte store"],
    )
