import os
# C06 — all storage variants give identical query results
import vlib
from checks.common import *
from checks.db_common import run_db, spec_level

META = dict(
    engine="coq+hx_core",
    technique="Coq proof that the three byte-store back-ends implement one byte store + side-by-side differential execution of query histories on all database variants",
    level_text="PARTIAL. Machine-checked: C06_backends_agree_partial — for every sequence of well-positioned writes and resizes MemoryStorage, FileStorage's data file and the memory+file pair of the memory-mapped storage "
               "hold the same bytes (and the pair stays in sync); C06_reads_agree; C06_gap_writes_agree; and one layer up (module StorageLevel of Props/C06.v, models Storage.v of C04): C06_instances_lawful (each back-end, modelled literally, is a lawful byte store), C06_storage_parametric (Storage<D> run over any lawful byte store gives, for EVERY storage operation list, the observations of the canonical store), C06_backends_agree / C06_mem_file_agree (hence all three back-ends give identical observations for every operation list). The step from the byte store to query results (generic Storage/collections/DbImpl code instantiated per back-end, "
               "AnyStorage delegating) is an argument about Rust generics and is checked by running every query of generated histories on DbMemory, DbFile, Db, DbAny(memory/file/mapped) side by side: every result "
               "and error kind must be identical, and equal to the extracted database model's. Collection and database level (models and relation as in C05): C06_{vec,map,graph}_variants_agree — the file-like and the memory-like storage model give the same observations for every collection history; C06_db_variants_agree_partial — a file-like and a memory-like storage (or any two record stores) each holding the SAME database (stored_db) load, by the loader program / the extracted load_db, to databases with the same graph arrays and property lists and equal up to sd_eqv (alias lookups, index keys in order, ids as multisets), hence with equal results for every order-independent read-only query (C05_db_eqv_queries); non-vacuity C06_db_sample (the same creation program on both storage models leaves the same record store). Partial: that both variants hold the same database after the same history of queries is the simulation of db.rs's mutations (C05_db_operations_preserve_stored_db), covered by the side-by-side runs.",
    design_ref="DESIGN.md §5 C06",
    level_note="Trusted: Coq kernel, extraction, OCaml driver, Rust harness; Rust generics (monomorphisation does not change behaviour). The storage layer's own model (Storage<D> over an abstract byte store) is C04's.",
)


def run(ctx):
    n, steps = (60, 25) if ctx.tier == "quick" else (1500, 50)
    r = run_db(ctx, "all", n, steps, variants="file,mapped,any_mem,any_file,any_mapped")
    failures = [f for f in r["failures"] if f["cls"].startswith(("variant-",)) or f["cls"] in ("panic", "read-error")]
    failures += [f for f in spec_level(r) if f["cls"] == "model-mismatch"][:3]
    # values of every kind and size (boundary set incl. payloads beyond 64 KiB) through DbMemory, DbFile, Db and DbAny on the same
    # files (the C12 harness): a value one variant reads back differently is a variant disagreement
    tdir, blog = vlib.cargo_build("hx_core", "release")
    if tdir is None:
        raise RuntimeError("harness build failed: " + blog)
    w = os.path.join(ctx.workdir, "values")
    os.makedirs(w, exist_ok=True)
    rc, out = vlib.sh([os.path.join(tdir, "hx_core"), "c12", "--seed", str(ctx.seed + 77), "--n", "300" if ctx.tier == "quick" else "5000", "--out", w], timeout=3000)
    if rc != 0:
        raise RuntimeError("value harness failed: " + out[-2000:])
    vf = [dict(cls="variant-value-" + l.split(" ")[0], what=l[:3000]) for l in read_lines(os.path.join(w, "oracle.txt")) if l.startswith("value-")]
    failures += vf
    r = dict(r); r["dist"] = dict(r["dist"]); r["dist"]["values-through-all-variants:failures"] = len(vf)
    return dict(
        evaluations=r["cases"], distinct_nontrivial=r["nontrivial"], samples=r["samples"], dist=r["dist"],
        rule="%d generated query histories (profile all, <= %d steps incl. failing queries and multi-query transactions) executed on DbMemory and side by side on DbFile, Db (memory mapped), "
             "DbAny::new_memory/new_file/new_mapped; every result line compared across variants (variant-mismatch) and with the extracted model; non-trivial = history reaching >= 2 nodes and an edge "
             "or rolling back a multi-query transaction" % (r["histories"], steps),
        failures=failures, disagreements=r["disagreements"],
        assumptions=["insert lists have distinct keys"],
    )
