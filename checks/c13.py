# C13 — a failed transaction or query leaves no observable effect
import vlib
from checks.db_common import run_db

META = dict(
    engine="coq+hx_core",
    technique="Coq proof about the executable database model (undo commands, rollback) + differential correspondence of the extracted model "
              "with the real agdb on generated query histories with failing transactions/queries + order-normalised dump comparison on the implementation",
    level_text="Machine-checked statements about the executable model of DbImpl's mutations, undo commands and rollback (coq/Props/C13.v): "
               "C13_pinned_refuted_replace and C13_pinned_refuted_alias_steal (the two defects of the originally pinned tree as concrete failing "
               "transactions: rollback stopped at a ReplaceKeyValue command; alias stealing recorded no inverse for the victim - both repaired by fix: commits), "
               "and the Examples C13_fixed_restores_* that the repaired revision restores the state on the same transactions and on a query failing part-way. "
               "The model is tied to /repo on every run by differential execution of generated histories with failing transactions/queries, and the "
               "implementation-side oracle compares order-normalised full dumps before a failing transaction/query and after it.",
    design_ref="DESIGN.md §5 C13",
    level_note="Trusted: Coq kernel, extraction (ExtrOcamlBasic), OCaml driver, Rust harness/generators. Theorems are about the model (theories/DbModel.v, "
               "Queries.v); the tie to the code is differential execution of generated histories (every query result, every transaction result and "
               "periodic full dumps compared line by line), and the implementation-side oracle compares order-normalised full dumps taken before a "
               "failing transaction/query and after it.",
)

PROFILE = "txn"                         # generator profile: graph kv alias index txn search all hash
CLASSES = ("rollback-",)                # oracle failure classes that are violations of THIS property
COMMON = ("panic", "read-error")        # failures that are violations wherever they show up


def run(ctx):
    n, steps = (150, 30) if ctx.tier == "quick" else (4000, 60)
    r = run_db(ctx, PROFILE, n, steps)
    failures = [f for f in r["failures"] if f["cls"].startswith(CLASSES) or f["cls"] in COMMON]
    return dict(
        evaluations=r["cases"], distinct_nontrivial=r["nontrivial"], samples=r["samples"], dist=r["dist"],
        rule="%d generated query histories (profile %s: 45%% multi-query transactions of which 3/5 get a failure injected at the end, the rest single "
             "queries incl. an invalid stream that fails part-way; <= %d steps, mostly-valid operations over live ids/aliases). Implementation-side oracle: "
             "before every mutating query / transaction an order-normalised full dump (elements, ids, endpoints, sorted properties, aliases, indexes with "
             "sorted contents, node count, sorted adjacency) is taken, and after a failing one it is taken again and must be identical (class rollback-differs). "
             "In addition every query result and a full dump every 8 steps are compared line by line with the extracted Coq model (so the model's "
             "post-rollback state, including ids handed out afterwards, is the implementation's); non-trivial = history that reached a state with >= 2 "
             "nodes and an edge or a rolled-back multi-query transaction"
             % (r["histories"], PROFILE, steps),
        failures=failures, disagreements=r["disagreements"],
        assumptions=["insert lists have distinct keys (the property's own quantifier)"],
    )
