# C13 — a failed transaction or query leaves no observable effect
import vlib
from checks.db_common import run_db, spec_level

META = dict(
    engine="coq+hx_core",
    technique="Coq proof about the executable database model (undo commands, rollback) + differential correspondence of the extracted model "
              "with the real agdb on generated query histories with failing transactions/queries + order-normalised dump comparison on the implementation",
    level_text="Machine-checked theorems about the executable model of DbImpl's mutations, undo commands and rollback (coq/Props/C13.v), all closed under the "
               "global context. FULL (unbounded, every well-formed state, every revision with the two rollback fixes on, in particular /repo): "
               "C13_step_inverse (for each of the 14 mutation primitives - node/edge insert, edge removal, isolated-node removal, the three alias "
               "primitives, key-value insert / insert-or-replace / reserve / remove_keys / remove_all_values, index insert with back-fill / remove - the "
               "commands it pushed, rolled back from the post-state or any observationally equal well-formed state, give a state observationally equal to "
               "the pre-state; the re-inserted element gets its old id because the slot free list is LIFO - proved by a refinement of Graph.v's four slot "
               "arrays to an abstract graph under an explicit array well-formedness invariant that every operation preserves), C13_step_inverse_remove_node_db "
               "(remove_node_db = alias removal, edge removals with their values, removal of the then isolated node, is a sequence of these primitives), "
               "C13_undo_congruence, and "
               "C13_rollback_restores (every finite sequence of primitives executed from a well-formed state with empty undo stack is undone by rollback: same "
               "elements/ids/endpoints, property sets, aliases, index contents, node count, adjacency up to order, same degree counters and same ids handed out "
               "afterwards; side conditions of the primitives are explicit: a removed/replaced indexed pair is listed in its index, insert_key_value inserts a "
               "new key, insert_new_alias an unused alias on an alias-less element, capacity <= 2^63). ALL QUERY KINDS AND WHOLE HISTORIES (for the revision of /repo): C13_primitives_from_Inv + C13_query_decomposes show that every mutating query "
               "(InsertNodes, InsertEdges, InsertValues, Remove incl. the node cascade, RemoveValues and the four kinds covered before), whatever its outcome, and every prefix of a "
               "transaction, executed in a state satisfying the joint invariant Inv of C09/C10/C11 (graph wf, aliases one-to-one onto nodes, unique keys, exact indexes), is a sequence "
               "of the 14 primitives with their side conditions met; C13_exec_failure_restores (a failing query of ANY kind) and C13_transaction_failure_restores (a transaction "
               "failing at any point, incl. a failure injected after the last query; results = those of the queries run) give, from EVERY state satisfying Inv with an empty undo stack (the C13 well-formedness db_ok follows from Inv: C13_db_ok_from_Inv, theories/WfRepProofs.v), a state that is `restored` (obs_eq + same degree "
               "counters + same ids handed out next) and again satisfies Inv (HInv = Inv + db_ok + empty undo stack in the history theorems); C13_no_panic (the repaired code never panics, so every query ends "
               "in commit or rollback), C13_rollback_keeps_wf, C13_Inv_of_sim; C13_history_atomic / C13_history_invariant: at EVERY point of EVERY history of queries and "
               "transactions from the empty database, failing or not, both invariants hold and every failed item was a no-op observationally (non-vacuity: "
               "C13_history_nonvacuous, C13_history_states). Two hypotheses that are not in the property text: (a) query_ok - no insert list names a key twice (C09's quantifier); "
               "(b) capacity <= 2^63 (`bounded`). (a) cannot be dropped: C13_duplicate_keys_refuted (model witness: `insert nodes values [[k:1,k:2]]`, then the transaction "
               "[remove values k from node 1; fail] is rolled back to [k:2,k:1] - equal for obs_eq, but `search elements where k == 1` returns [1] before and [] after the failed "
               "transaction). The old C13_exec_failure_restores_partial / C13_transaction_failure_restores_partial (four query kinds) are superseded and kept. REFUTED for the earlier revisions (documented, repaired by fix: commits): "
               "C13_pinned_refuted_replace (rollback stopped at a ReplaceKeyValue command), C13_pinned_refuted_alias_steal (alias stealing recorded no inverse "
               "for the victim), C13_nodes_ids_alias_refuted (found during this proof: insert nodes with ids+aliases re-aliased an existing node without "
               "inverse; fix: 883e1ef), each with the Example that the repaired revision restores the state on the same transaction. "
               "The model is tied to /repo on every run by differential execution of generated histories with failing transactions/queries, and the "
               "implementation-side oracle compares order-normalised full dumps before a failing transaction/query and after it.",
    design_ref="DESIGN.md §5 C13",
    level_note="Trusted: Coq kernel, extraction (ExtrOcamlBasic), OCaml driver, Rust harness/generators. Theorems are about the model (theories/DbModel.v, "
               "Queries.v); the tie to the code is differential execution of generated histories (every query result, every transaction result and "
               "periodic full dumps compared line by line), and the implementation-side oracle compares order-normalised full dumps taken before a "
               "failing transaction/query and after it.",
)

PROFILE = "txn"                         # generator profile: graph kv alias index txn search all hash
CLASSES = ("rollback-",)                # oracle failure classes that are violations of THIS property
COMMON = ("panic", "read-error")        # failures that are violations wherever they show up


def run(ctx):
    n, steps = (150, 30) if ctx.tier == "quick" else (4000, 60)
    r = run_db(ctx, PROFILE, n, steps)
    failures = [f for f in r["failures"] if f["cls"].startswith(CLASSES) or f["cls"] in COMMON]
    # the validated database model is the proved specification: a result that differs from it is a violation with the history
    failures += [f for f in spec_level(r) if f["cls"] == "model-mismatch"][:3]
    return dict(
        evaluations=r["cases"], distinct_nontrivial=r["nontrivial"], samples=r["samples"], dist=r["dist"],
        rule="%d generated query histories (profile %s: 45%% multi-query transactions of which 3/5 get a failure injected at the end, the rest single "
             "queries incl. an invalid stream that fails part-way; <= %d steps, mostly-valid operations over live ids/aliases). Implementation-side oracle: "
             "before every mutating query / transaction an order-normalised full dump (elements, ids, endpoints, sorted properties, aliases, indexes with "
             "sorted contents, node count, sorted adjacency) is taken, and after a failing one it is taken again and must be identical (class rollback-differs). "
             "In addition every query result and a full dump every 8 steps are compared line by line with the extracted Coq model (so the model's "
             "post-rollback state, including ids handed out afterwards, is the implementation's); non-trivial = history that reached a state with >= 2 "
             "nodes and an edge or a rolled-back multi-query transaction"
             % (r["histories"], PROFILE, steps),
        failures=failures, disagreements=r["disagreements"],
        assumptions=["insert lists have distinct keys (the property's own quantifier)"],
    )
