# C13 — a failed transaction or query leaves no observable effect
import vlib
from checks.db_common import run_db

META = dict(
    engine="coq+hx_core",
    technique="Coq proof about the executable database model (undo commands, rollback) + differential correspondence of the extracted model "
              "with the real agdb on generated query histories with failing transactions/queries + order-normalised dump comparison on the implementation",
    level_text="Machine-checked theorems about the executable model of DbImpl's mutations, undo commands and rollback (coq/Props/C13.v), all closed under the "
               "global context. FULL (unbounded, every well-formed state, every revision with the two rollback fixes on, in particular /repo): "
               "C13_step_inverse (for each of the 14 mutation primitives - node/edge insert, edge removal, isolated-node removal, the three alias "
               "primitives, key-value insert / insert-or-replace / reserve / remove_keys / remove_all_values, index insert with back-fill / remove - the "
               "commands it pushed, rolled back from the post-state or any observationally equal well-formed state, give a state observationally equal to "
               "the pre-state; the re-inserted element gets its old id because the slot free list is LIFO - proved by a refinement of Graph.v's four slot "
               "arrays to an abstract graph under an explicit array well-formedness invariant that every operation preserves), C13_step_inverse_remove_node_db "
               "(remove_node_db = alias removal, edge removals with their values, removal of the then isolated node, is a sequence of these primitives), "
               "C13_undo_congruence, and "
               "C13_rollback_restores (every finite sequence of primitives executed from a well-formed state with empty undo stack is undone by rollback: same "
               "elements/ids/endpoints, property sets, aliases, index contents, node count, adjacency up to order, same degree counters and same ids handed out "
               "afterwards; side conditions of the primitives are explicit: a removed/replaced indexed pair is listed in its index, insert_key_value inserts a "
               "new key, insert_new_alias an unused alias on an alias-less element, capacity <= 2^63). PARTIAL: C13_exec_failure_restores_partial and "
               "C13_transaction_failure_restores_partial lift this to Queries.exec / Queries.transaction (a failing query, or a failure injected at the end) "
               "for InsertAliases, RemoveAliases, InsertIndex, RemoveIndex and all read-only queries; for InsertNodes, InsertEdges, InsertValues, Remove, "
               "RemoveValues the decomposition into primitives needs database invariants (index consistency C11, fresh slots empty C09/C10) not proved here - "
               "those queries are covered by the differential runs only. REFUTED for the earlier revisions (documented, repaired by fix: commits): "
               "C13_pinned_refuted_replace (rollback stopped at a ReplaceKeyValue command), C13_pinned_refuted_alias_steal (alias stealing recorded no inverse "
               "for the victim), C13_nodes_ids_alias_refuted (found during this proof: insert nodes with ids+aliases re-aliased an existing node without "
               "inverse; fix: 883e1ef), each with the Example that the repaired revision restores the state on the same transaction. "
               "The model is tied to /repo on every run by differential execution of generated histories with failing transactions/queries, and the "
               "implementation-side oracle compares order-normalised full dumps before a failing transaction/query and after it.",
    design_ref="DESIGN.md §5 C13",
    level_note="Trusted: Coq kernel, extraction (ExtrOcamlBasic), OCaml driver, Rust harness/generators. Theorems are about the model (theories/DbModel.v, "
               "Queries.v); the tie to the code is differential execution of generated histories (every query result, every transaction result and "
               "periodic full dumps compared line by line), and the implementation-side oracle compares order-normalised full dumps taken before a "
               "failing transaction/query and after it.",
)

PROFILE = "txn"                         # generator profile: graph kv alias index txn search all hash
CLASSES = ("rollback-",)                # oracle failure classes that are violations of THIS property
COMMON = ("panic", "read-error")        # failures that are violations wherever they show up


def run(ctx):
    n, steps = (150, 30) if ctx.tier == "quick" else (4000, 60)
    r = run_db(ctx, PROFILE, n, steps)
    failures = [f for f in r["failures"] if f["cls"].startswith(CLASSES) or f["cls"] in COMMON]
    return dict(
        evaluations=r["cases"], distinct_nontrivial=r["nontrivial"], samples=r["samples"], dist=r["dist"],
        rule="%d generated query histories (profile %s: 45%% multi-query transactions of which 3/5 get a failure injected at the end, the rest single "
             "queries incl. an invalid stream that fails part-way; <= %d steps, mostly-valid operations over live ids/aliases). Implementation-side oracle: "
             "before every mutating query / transaction an order-normalised full dump (elements, ids, endpoints, sorted properties, aliases, indexes with "
             "sorted contents, node count, sorted adjacency) is taken, and after a failing one it is taken again and must be identical (class rollback-differs). "
             "In addition every query result and a full dump every 8 steps are compared line by line with the extracted Coq model (so the model's "
             "post-rollback state, including ids handed out afterwards, is the implementation's); non-trivial = history that reached a state with >= 2 "
             "nodes and an edge or a rolled-back multi-query transaction"
             % (r["histories"], PROFILE, steps),
        failures=failures, disagreements=r["disagreements"],
        assumptions=["insert lists have distinct keys (the property's own quantifier)"],
    )
