# C26 — database files stay inside their owner's directory and never collide
import os
import vlib
from checks.common import *
from checks.server_common import *

META = dict(
    engine="coq+hx_server",
    technique="Coq proofs about an executable model of the path expressions of db_pool.rs (Rust Path::join semantics, lexical resolution, the eight "
              "per-database files, a concrete name validator) + adversarial names against a real agdb_server process with a file-tree oracle",
    level_text="Machine-checked theorems on the model (Paths.v) for an arbitrary data directory: for owner and database names accepted by the concrete "
               "validator valid_name (non-empty, no NUL, no '/' or '\\\\', not '.'/'..', no leading dot, not 'audit'/'backups', no '.bak'/'.log'/'.audit' "
               "suffix) every file the server derives for the database (db file, WAL as agdb names it and as the server removes it, backup, backup audit, "
               "audit, both rollback temporaries) resolves strictly inside data_dir/owner/, the file sets of two distinct valid (owner, db) pairs are "
               "disjoint with no path an ancestor of another, and no file is or shadows the owner/audit/backups directories. For the validator the server "
               "has today (none) the same statements are refuted by vm_compute witnesses ('.x' vs 'x' share the WAL, 'audit'/'backups', '../other/x', "
               "'a/../b', absolute names, 'y.bak' vs the backup of 'y', WAL mismatch for names with '/'). The tie to /repo on every run: an adversarial "
               "name list x {add, add on a fresh owner dir, copy, rename, backup, restore, rollback, clear, delete} is executed by a regular user on a "
               "real server; the files that appear/disappear under AND around the data directory are compared with the model's prediction "
               "(files/op_creates/op_removes), and directly checked: nothing outside data/<owner>/ is touched, no file of another database is touched, "
               "the victims keep content/audit/backup and stay operable, the server survives, valid names are accepted. The check selects the "
               "validator (none / valid_name) by looking for a db-name validation function in the server source, so after the fix the model rejects "
               "exactly what the server must reject.",
    design_ref="DESIGN.md §5 C26",
    level_note="Trusted: Coq kernel, extraction, OCaml driver, Rust harness (file-tree listing, percent-encoding of names), agdb_api client. Lexical "
               "resolution, no symlinks; Unix path semantics; user names are chosen by the server admin and are validated by the same predicate in the "
               "theorems but only database names are attacked on the real server. Memory databases are outside the file model.",
)

VALIDATOR_MARKERS = ("fn validate_db_name", "fn validate_name")


def validator_mode():
    """which validator the server source has today (Tier-A style: read from the current tree)"""
    src = os.path.join(vlib.server_src(), "agdb_server", "src")
    for root, _, files in os.walk(src):
        for f in files:
            if f.endswith(".rs"):
                try:
                    t = open(os.path.join(root, f), errors="replace").read()
                except OSError:
                    continue
                if any(m in t for m in VALIDATOR_MARKERS):
                    return "strict"
    return "none"


def run(ctx):
    exe, hx, srv = prepare()
    quick = ctx.tier == "quick"
    mode = validator_mode()
    extra, full = (0, 0) if quick else (120, 1)
    r = run_stream(ctx, exe, hx, srv, "main", ["c26", "--seed", str(ctx.seed), "--n", str(extra), "--len", str(full), "--mode", mode])
    # classify by the violated rule of the model's validator, computed on the name of the failing case
    names = set()
    for l in r["oracle"]:
        m = re.search(r"name=(x[0-9a-f]*)", l)
        if m:
            names.add(m.group(1))
    for c in r["cases"]:
        names.add(c.split(" ")[5])
    names = sorted(names)
    defect = dict(zip(names, driver_query(exe, ["paths defect %s" % n for n in names])))

    def cls_of(name, kind):
        d = defect.get(name, "?")
        return "unvalidated_db_name_%s" % d if d not in ("valid", "?") else kind

    failures = []
    for l in r["oracle"]:
        if not l.strip():
            continue
        kind = l.split(" ")[0]
        m = re.search(r"name=(x[0-9a-f]*)", l)
        failures.append(dict(cls=cls_of(m.group(1), kind) if m else kind, what=l[:4000]))
    dis = diff_lines(r["cases"], r["model"], r["impl"], cls=lambda c, m, x: cls_of(c.split(" ")[5], None))
    dist, ev, nt, samples = merge_stats(r["stats"])
    dist["validator_mode_" + mode] = 1
    ndef = {}
    for n in names:
        ndef[defect.get(n, "?")] = ndef.get(defect.get(n, "?"), 0) + 1
    for k, v in ndef.items():
        dist["names_" + k] = v
    return dict(
        evaluations=ev, distinct_nontrivial=nt, samples=samples, dist=dist,
        rule="adversarial name list (%s) x 9 operations by a regular user on a real agdb_server with victims user1/v1, user1/src, user2/v1 "
             "(content, audit, backup); names are percent-encoded so the decoded string reaches the handler; per case the file tree of the sandbox "
             "(data dir, its parent and grand-parent, absolute targets) is listed before/after; new/gone files vs the model's prediction "
             "(validator mode `%s` read from the server source), direct oracles for containment, victim files, victim state, server survival; "
             "non-trivial = distinct (name, operation) pairs" % ("30 hand-picked names" if quick else "64 hand-picked + 120 generated names", mode),
        failures=failures, disagreements=dis,
        assumptions=["Unix paths; no symlinks inside the data directory", "database names arrive as UTF-8 strings (axum Path/Query extractors)",
                     "file-backed databases (mapped); owner names user1/user2 are valid"],
        trusted_extra=["agdb_api HTTP client (AgdbApi<ReqwestClient>)", "server launcher of harness/hx_server; file-tree listing of the sandbox"],
        notes=["validator mode: " + mode],
    )
