# C31 — every node applies committed actions once each and in log order
#
# Tie to the code (hook H3): agdb_server is a binary crate, so the entry point is the tokio multi-thread test
# `verif::c31` in agdb_server/src/verif.rs (compiled only with --cfg agdb_verif).  For each case
# "index:delay_ms,..." it builds ServerDb / ClusterLog / DbPool / the cluster storage in a fresh temp dir,
# appends one UserAdd entry per index, commits ALL of them with one `commit` call and prints the order in
# which the executions were notified (ORDER), the order in which the users were inserted into the server
# database (EFFECT) and the number of entries left unmarked (UNEXECUTED).  `crate::verif::delay(log.index)`
# at the top of the execution body of every entry lets the schedule choose which entry WANTS to run first.
#
# VERIF_SERVER_SRC = tree to build (default /repo; both the H3 hook commit and the fix: commit must be in it)
# VERIF_C31_DISC   = fifo (default: the repaired code) | spawn (the pinned code; only to reproduce the defect)
# VERIF_C31_STEP_MS= distance between two scheduled delays (default 20)
import itertools, json, os, random, re, subprocess
import vlib
from checks.common import *

META = dict(
    engine="coq+cargo-test(agdb_server verif::c31)",
    technique="Coq proof about an executable scheduling model of ClusterStorage::commit / execute_log / start-up re-execution (adversarial task scheduler, two execution disciplines) "
              "+ schedule-controlled execution of the real ClusterStorage under a multi-thread tokio runtime through the H3 delay hook, compared with the extracted model",
    level_text="FULL for the repaired code (single sequential execution worker, fix: commit), safety only. Machine-checked (coq/Props/C31.v, all closed under the global context): "
               "C31_fifo_order — for every log with increasing indices and every event list (any Commit calls, any scheduler choices RunTask i, any timing of MarkExecuted, no restart) the executed trace is a prefix of the log: "
               "strictly increasing index order, each index at most once, equal to the committed entries minus the queued ones; C31_fifo_traces_comparable / C31_fifo_same_state — the traces of two nodes are prefix-comparable and nodes "
               "that executed the same committed entries reach the same state for every apply function; C31_once — both disciplines, no restart: each index at most once and only committed entries; "
               "C31_fifo_restart_order — with restarts the trace of the single worker stays weakly increasing (the only repetition is the entry pending at the crash, re-executed before anything later runs); "
               "C31_once_restart / C31_once_one_crash / C31_marked_never_again / C31_fifo_one_pending — the exact bound across restarts: an index is executed at most 1 + (number of restarts at which its exec step had run but "
               "log_executed had not), an entry marked executed is never executed again, and the single worker has at most one such entry per crash (at-least-once / at-most-twice across one crash; bound attained: C31_restart_bound_attained). "
               "The pinned code (one tokio::spawn per entry) is REFUTED by C31_spawn_refuted (Commit 2; RunTask 2; RunTask 1 executes 2 before 1) and proved only for the complement of the class "
               "commit-spawns-several-tasks: C31_spawn_partial (every Commit finds no started entry and starts at most one). Liveness (every started entry is eventually executed) is out of scope. "
               "Tie to /repo: all delay permutations for k <= 3 (quick) / k <= 5 (thorough) entries committed by ONE commit call plus random schedules up to 8 entries; oracle: notification order and user-insertion order increasing, "
               "each index once, every entry marked executed; the extracted model run on the same schedule must give the observed order.",
    design_ref="DESIGN.md §5 C31, §6 H3",
    level_note="The defect of the pinned code (two entries committed by one call, or by two quick calls, were independent tasks and could execute in either order) was repaired by a fix: commit "
               "(execute_log feeds one worker task through an unbounded channel; see known_findings.txt `fixed: property=C31`); an out-of-order execution observed by this check is a VIOLATION. "
               "Model assumptions: log indices strictly increasing (Raft, C28); a restart loses all in-flight tasks and keeps the cluster log marks; `log_executed` failing is not modelled. "
               "Not covered by the tie: restart in the real server (model only), actions other than UserAdd. Trusted: Coq kernel, extraction, OCaml driver, the tokio test entry point in agdb_server/src/verif.rs, cargo/rustc.",
)

SRC = os.environ.get("VERIF_SERVER_SRC", vlib.REPO)
DISC = os.environ.get("VERIF_C31_DISC", "fifo")
STEP = int(os.environ.get("VERIF_C31_STEP_MS", "20"))
TARGET = os.path.join(vlib.CACHE, "target-server-test")
FIX_HINT = "fixes/H3-exec-delay-hook.diff"


def hook_present():
    cl = os.path.join(SRC, "agdb_server", "src", "cluster.rs")
    vr = os.path.join(SRC, "agdb_server", "src", "verif.rs")
    if not os.path.exists(cl) or "verif::delay" not in open(cl).read():
        return "hook H3 is missing in %s (no `verif::delay` in agdb_server/src/cluster.rs): apply %s as the hook commit" % (SRC, FIX_HINT)
    if not os.path.exists(vr) or "async fn c31" not in open(vr).read():
        return "hook H3 is incomplete in %s (agdb_server/src/verif.rs with the test entry point `verif::c31` is missing): apply %s" % (SRC, FIX_HINT)
    return None


def replace_hook_present():
    vr = os.path.join(SRC, "agdb_server", "src", "verif.rs")
    return os.path.exists(vr) and "user{index}r" in open(vr).read()


def script_hook_present():
    vr = os.path.join(SRC, "agdb_server", "src", "verif.rs")
    return os.path.exists(vr) and "VERIF_C31_SCRIPT" in open(vr).read()


def build_test_binary():
    """cargo test --no-run of the agdb_server binary with the hook cfg; returns the test executable"""
    with vlib.Lock("cargo-server-test"):
        cmd = ["cargo", "test", "--offline", "-p", "agdb_server", "--bin", "agdb_server", "--no-run", "--message-format=json",
               "--target-dir", TARGET]
        env = dict(os.environ)
        env.update({"RUSTFLAGS": "--cfg %s" % vlib.GUARD_CFG, "CARGO_NET_OFFLINE": "true"})
        p = subprocess.run(cmd, cwd=SRC, env=env, stdout=subprocess.PIPE, stderr=subprocess.PIPE, timeout=4 * 3600)
        if p.returncode != 0:
            raise RuntimeError("building the agdb_server test binary failed:\n" + p.stderr.decode("utf-8", "replace")[-4000:])
        exe = None
        for line in p.stdout.decode("utf-8", "replace").splitlines():
            if not line.startswith("{"):
                continue
            try:
                m = json.loads(line)
            except ValueError:
                continue
            if m.get("reason") == "compiler-artifact" and m.get("executable") and m.get("target", {}).get("name") == "agdb_server" \
                    and m.get("profile", {}).get("test"):
                exe = m["executable"]
        if not exe:
            raise RuntimeError("no test executable reported by cargo for agdb_server")
        return exe


def gen_cases(tier, seed):
    """a case = list of (index, delay_ms) in index order, delays pairwise distinct"""
    kmax, nrand, krand = (3, 20, 6) if tier == "quick" else (5, 100, 8)
    cases = []
    for k in range(1, kmax + 1):
        for perm in itertools.permutations(range(k)):
            cases.append([(i + 1, perm[i] * STEP) for i in range(k)])
    rng = random.Random(seed)
    for k in (4, 5, 3, 6):  # carriers of the fixed script templates (gen_scripts)
        cases.append([(i + 1, ((i * 2) % k) * STEP) for i in range(k)])
    for _ in range(nrand):
        k = rng.randint(2, krand)
        slots = rng.sample(range(0, k + 2), k)
        cases.append([(i + 1, slots[i] * STEP) for i in range(k)])
    return cases


def gen_scripts(cases, seed):
    """per case an optional script of storage calls (None = append all, one commit): a committed prefix, further appends,
    a commit covering several entries, ... (what a follower with a lagging commit index or a leader under concurrent requests does)"""
    rng = random.Random(seed * 7919 + 1)
    out = []
    # fixed templates first (for the first cases with 4 and 5 entries): a prefix committed on its own, another append,
    # then ONE commit call covering several entries, the newest of which was appended after the first commit
    templates = {4: ["a1", "a2", "a3", "c1", "a4", "c4"], 5: ["a1", "a2", "a3", "a4", "c2", "a5", "c5"]}
    if replace_hook_present():
        # an uncommitted entry replaced before it is committed (`r<i>`: what a new leader's append does on a follower;
        # the hook gives the replacing entry the user name user<i>r): only the replacing entry may ever execute
        templates[3] = ["a1", "a2", "r2", "a3", "c3"]
        templates[6] = ["a1", "a2", "a3", "c1", "r3", "a4", "r4", "a5", "a6", "c6"]
    for n, c in enumerate(cases):
        k = len(c)
        if k in templates:
            out.append(templates.pop(k))
            continue
        if k < 3 or n % 2 == 0:
            out.append(None)
            continue
        ops, appended, committed = [], 0, 0
        while committed < k:
            if appended < k and (appended == committed or rng.random() < 0.55):
                appended += rng.randint(1, min(3, k - appended))
                ops += ["a%d" % i for i in range(len([o for o in ops if o[0] == "a"]) + 1, appended + 1)]
            else:
                committed = rng.randint(committed + 1, appended)
                ops.append("c%d" % committed)
                if rng.random() < 0.3:
                    ops.append("w")
        out.append(ops)
    return out


def script_str(sc):
    return ",".join(sc) if sc else ""


def case_str(c):
    return ",".join("%d:%d" % (i, d) for i, d in c)


def model_line(c, disc, script=None):
    k = len(c)
    by_delay = [i for i, _ in sorted(c, key=lambda p: p[1])]
    # the scheduler keeps asking for the entries in delay order; refused requests are no-ops in the model
    evs = ["(c %x)" % int(o[1:]) for o in script if o[0] == "c"] if script else ["(c %x)" % k]
    for _ in range(k):
        for i in by_delay:
            evs.append("(r %x)" % i)
            evs.append("(m %x)" % i)
    return "exec run %s (%s) (%s)" % (disc, " ".join("%x" % i for i, _ in c), " ".join(evs))


def parse_model(line):
    out = {}
    for part in line.replace(") ", ")|").split("|"):
        if "=" in part:
            k, v = part.split("=", 1)
            out[k.strip()] = [int(x, 16) for x in v.strip("() ").split()]
    return out


def run_batch(exe, wdir, batch, scripts=None):
    """batch: list of (global case number, case).  returns {no: dict(order, effect, unexecuted)} and raw output"""
    env = dict(os.environ)
    env["VERIF_C31_CASE"] = ";".join(case_str(c) for _, c in batch)
    env["VERIF_C31_SCRIPT"] = ";".join(script_str(scripts[no]) if scripts else "" for no, _ in batch)
    budget = 120 + sum(sum(d for _, d in c) for _, c in batch) // 1000 * 4 + 70 * len(batch)
    try:
        p = subprocess.run([exe, "verif::c31", "--exact", "--nocapture", "--test-threads", "1"], cwd=wdir, env=env,
                           stdout=subprocess.PIPE, stderr=subprocess.STDOUT, timeout=budget)
        out = p.stdout.decode("utf-8", "replace")
    except subprocess.TimeoutExpired as e:
        out = (e.stdout or b"").decode("utf-8", "replace") + "\nTIMEOUT"
    res = {}
    for line in out.splitlines():
        # with --nocapture libtest prints "test verif::c31 ... " in front of the first line
        m = re.search(r"\b(ORDER|EFFECT|UNEXECUTED) (\d+)((?: \d+)*)\s*$", line)
        if m:
            local = int(m.group(2))
            if local < len(batch):
                res.setdefault(batch[local][0], {})[m.group(1)] = [int(x) for x in m.group(3).split()]
    return res, out


def run(ctx):
    miss = hook_present()
    if miss:
        raise RuntimeError(miss)
    if DISC not in ("fifo", "spawn"):
        raise RuntimeError("VERIF_C31_DISC must be fifo or spawn")
    exe = build_test_binary()
    drv, dlog = vlib.build_driver()
    if drv is None:
        raise RuntimeError("driver build failed: " + dlog)
    cases = gen_cases(ctx.tier, ctx.seed)
    scripts = gen_scripts(cases, ctx.seed) if script_hook_present() else [None] * len(cases)
    numbered = list(enumerate(cases))
    bsize = 12
    batches = [numbered[i:i + bsize] for i in range(0, len(numbered), bsize)]
    from concurrent.futures import ThreadPoolExecutor
    wdir = os.path.join(ctx.workdir, "c31")
    os.makedirs(wdir, exist_ok=True)
    with ThreadPoolExecutor(4) as ex:
        results = list(ex.map(lambda b: run_batch(exe, wdir, b, scripts), batches))
    obs, raw = {}, []
    for r, out in results:
        obs.update(r)
        raw.append(out)
    open(os.path.join(wdir, "impl_raw.txt"), "w").write("\n=====\n".join(raw))

    cpath, mpath = os.path.join(wdir, "cases.txt"), os.path.join(wdir, "model.txt")
    open(cpath, "w").write("".join(model_line(c, DISC, scripts[n]) + "\n" for n, c in enumerate(cases)))
    rc, err = run_driver(drv, cpath, mpath)
    mlines = read_lines(mpath)
    if rc != 0 or len(mlines) != len(cases):
        raise RuntimeError("model driver failed (rc=%s, %d lines for %d cases): %s" % (rc, len(mlines), len(cases), err))

    failures, disagreements, samples, dist = [], [], [], {}
    nontrivial = 0
    for no, c in numbered:
        idxs = [i for i, _ in c]
        by_delay = [i for i, _ in sorted(c, key=lambda p: p[1])]
        key = "k=%d" % len(c)
        dist[key] = dist.get(key, 0) + 1
        if by_delay != idxs:
            nontrivial += 1
            dist["schedule-wants-reordering"] = dist.get("schedule-wants-reordering", 0) + 1
        o = obs.get(no)
        if scripts[no]:
            dist["scripted (several commits, appends in between)"] = dist.get("scripted (several commits, appends in between)", 0) + 1
        desc = "case %s (%s; delay order %s)" % (case_str(c), ("storage calls " + script_str(scripts[no])) if scripts[no] else "one commit(%d) call" % len(c), by_delay)
        if o is None or "ORDER" not in o or "EFFECT" not in o:
            disagreements.append(dict(what="no observation", case=desc, model=mlines[no][:500], impl="(the test entry point printed nothing for this case; see impl_raw.txt)"))
            continue
        order, effect, unexec = o["ORDER"], o["EFFECT"], (o.get("UNEXECUTED") or [None])[0]
        replaced = sorted({int(x[1:]) for x in (scripts[no] or []) if x[0] == "r"})
        if replaced:
            dist["scripted with replaced uncommitted entries"] = dist.get("scripted with replaced uncommitted entries", 0) + 1
            stale = [i for i in effect if i in replaced]
            if stale or sorted(i - 1000 for i in effect if i >= 1000) != replaced:
                failures.append(dict(cls="replaced-entry-executed", what="%s: entries %s were replaced while uncommitted; users inserted (index, +1000 = replacing entry): %s; notified %s"
                                     % (desc, replaced, effect, order)))
            effect = [i - 1000 if i >= 1000 else i for i in effect if i not in replaced or i >= 1000]
        if len(samples) < 4 and by_delay != idxs:
            samples.append("%s -> ORDER %s EFFECT %s UNEXECUTED %s" % (case_str(c), order, effect, unexec))
        if sorted(order) != idxs or sorted(effect) != idxs:
            failures.append(dict(cls="exec-not-once", what="%s: an index was executed more than once or never: ORDER %s EFFECT %s" % (desc, order, effect)))
        elif order != idxs or effect != idxs:
            failures.append(dict(cls="commit-spawns-several-tasks",
                                 what="%s: committed actions executed out of log order: notified %s, users inserted in order %s" % (desc, order, effect)))
        elif unexec != 0:
            failures.append(dict(cls="exec-not-marked", what="%s: %s entries still not marked executed 6 s after the last execution" % (desc, unexec)))
        m = parse_model(mlines[no])
        if mlines[no].startswith("ERROR") or m.get("trace") != order or m.get("trace") != effect:
            disagreements.append(dict(what="case %d" % no, case=desc + " model discipline " + DISC, model=mlines[no][:500],
                                      impl="ORDER %s EFFECT %s" % (order, effect)))
    return dict(
        evaluations=len(cases), distinct_nontrivial=nontrivial, samples=samples or ["(see input_distribution)"], dist=dist,
        rule="every permutation of the delays {0, %d ms, 2*%d ms, ...} over k <= %d entries plus %d random schedules with up to %d entries; each case = fresh server db / cluster log / db pool / cluster storage in a temp dir, "
             "k UserAdd entries appended, ONE commit(k) call, multi-thread tokio runtime (4 workers); observed: notifier order, insertion order of the users in the server db, executed-marks; "
             "oracle: both orders increasing, each index once, all marked; the extracted model (discipline %s) run with the scheduler asking for the entries in delay order must produce the observed order; "
             "non-trivial = the delay order differs from the index order (the scheduler tries to reorder)"
             % (STEP, STEP, 3 if ctx.tier == "quick" else 5, 20 if ctx.tier == "quick" else 100, 6 if ctx.tier == "quick" else 8, DISC),
        failures=failures, disagreements=disagreements[:20],
        assumptions=["log indices are strictly increasing (1..k)", "one commit call per case; restarts are covered by the model theorems only"],
        trusted_extra=["agdb_server/src/verif.rs test entry point verif::c31 (cfg agdb_verif) and tokio's timer for the scheduled delays",
                       "source tree built: %s" % SRC],
        notes=["model discipline: %s; source tree: %s" % (DISC, SRC)],
    )
