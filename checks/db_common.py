# shared runner for the properties checked through the database model (M8 / M7):
# runs generated query histories on the real database (hx_core db) and on the extracted
# model, diffs them, and collects the direct oracle failures.
import os, sys
import vlib
from checks.common import *

# which fix: commits are in /repo => which revision of the model is the code (DESIGN §9).
# order: rollback_replace, alias_steal_undo, alias_nodes_only, strict_order, slice_clamp, edge_origin, visited_chain, nodes_ids_alias
REV = os.environ.get("VERIF_DB_REV", "11111111")


def run_db(ctx, profile, n, steps, dump_every=8, variants="", maintenance=False, rev=None, sub="db", seed_off=0, watchdog_ms=0):
    exe, dlog = vlib.build_driver()
    if exe is None:
        raise RuntimeError("driver build failed: " + dlog)
    vlib.sh(["python3", os.path.join(vlib.HARNESS, "gen_types.py")], check=True)
    tdir, blog = vlib.cargo_build("hx_core", "release")
    if tdir is None:
        raise RuntimeError("harness build failed: " + blog)
    w = os.path.join(ctx.workdir, sub)
    os.makedirs(w, exist_ok=True)
    cmd = [os.path.join(tdir, "hx_core"), "db", "--profile", profile, "--seed", str(ctx.seed + seed_off), "--n", str(n),
           "--steps", str(steps), "--rev", rev or REV, "--dump-every", str(dump_every), "--out", w]
    if variants:
        cmd += ["--variants", variants]
    if maintenance:
        cmd += ["--maintenance", "1"]
    if watchdog_ms:
        cmd += ["--watchdog-ms", str(watchdog_ms)]
        for f in ("cases.txt", "impl.txt", "oracle.txt", "stats.json", "model.txt"):
            if os.path.exists(os.path.join(w, f)):
                os.remove(os.path.join(w, f))
    rc, out = vlib.sh(cmd, timeout=3000)
    if rc == 3 and watchdog_ms:
        # C19: the per-step watchdog killed the harness inside a query that did not return; the only
        # output is the oracle line `timeout step=... history=[...]` (partial run = failure of class timeout)
        lines = read_lines(os.path.join(w, "oracle.txt")) if os.path.exists(os.path.join(w, "oracle.txt")) else []
        if not lines:
            lines = ["timeout (watchdog exit, no oracle line) " + out[-500:]]
        return dict(cases=0, disagreements=[], failures=[dict(cls=l.split(" ")[0], what=l[:6000]) for l in lines],
                    dist={}, histories=0, nontrivial=0, samples=[], partial=True)
    if rc != 0:
        raise RuntimeError("harness failed: " + out[-2000:])
    rc, err = run_driver(exe, os.path.join(w, "cases.txt"), os.path.join(w, "model.txt"))
    cases, model, impl = (read_lines(os.path.join(w, f)) for f in ("cases.txt", "model.txt", "impl.txt"))
    dis = diff_lines(cases, model, impl, limit=10)
    # give each disagreement the history it belongs to (from the last reset)
    for d in dis:
        try:
            k = int(d["what"].split()[1])
            start = max(i for i in range(k + 1) if cases[i].startswith("db reset"))
            d["history"] = cases[start:k + 1][-40:]
        except Exception:
            pass
    failures = []
    for l in read_lines(os.path.join(w, "oracle.txt")):
        failures.append(dict(cls=l.split(" ")[0], what=l[:6000]))
    dist, ev, nt, samples = merge_stats([os.path.join(w, "stats.json")])
    return dict(cases=len(cases), disagreements=dis, failures=failures, dist=dist, histories=ev, nontrivial=nt, samples=samples)


if __name__ == "__main__":
    class C: pass
    c = C(); c.seed = int(sys.argv[2]) if len(sys.argv) > 2 else 1
    c.workdir = os.path.join(vlib.CACHE, "run", "dev"); os.makedirs(c.workdir, exist_ok=True)
    r = run_db(c, sys.argv[1], int(sys.argv[3]) if len(sys.argv) > 3 else 200, int(sys.argv[4]) if len(sys.argv) > 4 else 30,
               variants=sys.argv[5] if len(sys.argv) > 5 else "", maintenance=len(sys.argv) > 6)
    print("cases", r["cases"], "disagreements", len(r["disagreements"]), "failures", len(r["failures"]))
    for d in r["disagreements"][:4]:
        print(d["what"]); print(" C", d.get("case", "")[:700]); print(" M", d.get("model", "")[:500]); print(" I", d.get("impl", "")[:500])
    from collections import Counter
    print(Counter(f["cls"] for f in r["failures"]))
