# shared runner for the properties checked through the database model (M8 / M7):
# runs generated query histories on the real database (hx_core db) and on the extracted
# model, diffs them, and collects the direct oracle failures.
import os, sys
import vlib
from checks.common import *

# which fix: commits are in /repo => which revision of the model is the code (DESIGN §9).
# order: rollback_replace, alias_steal_undo, alias_nodes_only, strict_order, slice_clamp, edge_origin, visited_chain, nodes_ids_alias
REV = os.environ.get("VERIF_DB_REV", "111111111")


def run_db(ctx, profile, n, steps, dump_every=8, variants="", maintenance=False, rev=None, sub="db", seed_off=0, watchdog_ms=0):
    exe, dlog = vlib.build_driver()
    if exe is None:
        raise RuntimeError("driver build failed: " + dlog)
    vlib.sh(["python3", os.path.join(vlib.HARNESS, "gen_types.py")], check=True)
    tdir, blog = vlib.cargo_build("hx_core", "release")
    if tdir is None:
        raise RuntimeError("harness build failed: " + blog)
    w = os.path.join(ctx.workdir, sub)
    os.makedirs(w, exist_ok=True)
    cmd = [os.path.join(tdir, "hx_core"), "db", "--profile", profile, "--seed", str(ctx.seed + seed_off), "--n", str(n),
           "--steps", str(steps), "--rev", rev or REV, "--dump-every", str(dump_every), "--out", w]
    if variants:
        cmd += ["--variants", variants]
    if maintenance:
        cmd += ["--maintenance", "1"]
    if watchdog_ms:
        cmd += ["--watchdog-ms", str(watchdog_ms)]
        for f in ("cases.txt", "impl.txt", "oracle.txt", "stats.json", "model.txt"):
            if os.path.exists(os.path.join(w, f)):
                os.remove(os.path.join(w, f))
    rc, out = vlib.sh(cmd, timeout=3000)
    if rc == 3 and watchdog_ms:
        # C19: the per-step watchdog killed the harness inside a query that did not return; the only
        # output is the oracle line `timeout step=... history=[...]` (partial run = failure of class timeout)
        lines = read_lines(os.path.join(w, "oracle.txt")) if os.path.exists(os.path.join(w, "oracle.txt")) else []
        if not lines:
            lines = ["timeout (watchdog exit, no oracle line) " + out[-500:]]
        return dict(cases=0, disagreements=[], failures=[dict(cls=l.split(" ")[0], what=l[:6000]) for l in lines],
                    dist={}, histories=0, nontrivial=0, samples=[], partial=True)
    if rc != 0:
        raise RuntimeError("harness failed: " + out[-2000:])
    rc, err = run_driver(exe, os.path.join(w, "cases.txt"), os.path.join(w, "model.txt"))
    cases, model, impl = (read_lines(os.path.join(w, f)) for f in ("cases.txt", "model.txt", "impl.txt"))
    dis = diff_lines(cases, model, impl, limit=10)
    # give each disagreement the history it belongs to (from the last reset)
    for d in dis:
        try:
            k = int(d["what"].split()[1])
            start = max(i for i in range(k + 1) if cases[i].startswith("db reset"))
            d["history"] = cases[start:k + 1][-40:]
        except Exception:
            pass
    failures = []
    for l in read_lines(os.path.join(w, "oracle.txt")):
        failures.append(dict(cls=l.split(" ")[0], what=l[:6000]))
    dist, ev, nt, samples = merge_stats([os.path.join(w, "stats.json")])
    return dict(cases=len(cases), disagreements=dis, failures=failures, dist=dist, histories=ev, nontrivial=nt, samples=samples)


def diff_files(cases_path, model_path, impl_path, limit=10):
    """streaming version of diff_lines for multi-million line runs; each disagreement carries the history
    (the case lines from the last `db reset`) it belongs to.  returns (number of case lines, disagreements)"""
    out, hist = [], []

    def lines(p):
        if not os.path.exists(p):
            return
        with open(p, errors="replace") as f:
            for l in f:
                yield l.rstrip("\n")
    for i, (c, m, x) in enumerate(zip(lines(cases_path), lines(model_path), lines(impl_path))):
        if c.startswith("db reset"):
            hist = []
        hist.append(c)
        if m != x and len(out) < limit:
            out.append(dict(what="case %d" % i, case=c[:2000], model=m[:2000], impl=x[:2000], history=hist[-60:]))
    # zip stops at the shortest file: count the lines of each
    n = [sum(1 for _ in lines(p)) for p in (cases_path, model_path, impl_path)]
    if not (n[0] == n[1] == n[2]):
        out.insert(0, dict(what="line count differs", detail="cases=%d model=%d impl=%d" % tuple(n)))
    return n[0], out


def run_dbsmall(ctx, nodes, edges, paths, traverse, sub="small", rev=None, reuse_full=None, reuse_k=None, max_failures=500):
    """exhaustive small-multigraph run (hx_core dbsmall, harness/hx_core/src/dbsmall.rs): every graph with <= nodes nodes and
    every ordered edge list of length <= edges (+ id-reuse variants), all traversals / all node-pair path searches on each;
    same result structure as run_db."""
    exe, dlog = vlib.build_driver()
    if exe is None:
        raise RuntimeError("driver build failed: " + dlog)
    vlib.sh(["python3", os.path.join(vlib.HARNESS, "gen_types.py")], check=True)
    tdir, blog = vlib.cargo_build("hx_core", "release")
    if tdir is None:
        raise RuntimeError("harness build failed: " + blog)
    w = os.path.join(ctx.workdir, sub)
    os.makedirs(w, exist_ok=True)
    cmd = [os.path.join(tdir, "hx_core"), "dbsmall", "--nodes", str(nodes), "--edges", str(edges), "--rev", rev or REV,
           "--paths", "1" if paths else "0", "--traverse", "1" if traverse else "0", "--out", w]
    if reuse_full is not None:
        cmd += ["--reuse-full", str(reuse_full)]
    if reuse_k is not None:
        cmd += ["--reuse-k", str(reuse_k)]
    rc, out = vlib.sh(cmd, timeout=3000)
    if rc != 0:
        raise RuntimeError("harness failed: " + out[-2000:])
    rc, err = run_driver(exe, os.path.join(w, "cases.txt"), os.path.join(w, "model.txt"), timeout=3000)
    ncases, dis = diff_files(*(os.path.join(w, f) for f in ("cases.txt", "model.txt", "impl.txt")))
    if rc != 0:
        dis.insert(0, dict(what="model driver failed", detail=err))
    failures, nfail = [], 0
    p = os.path.join(w, "oracle.txt")
    if os.path.exists(p):
        with open(p, errors="replace") as f:
            for l in f:
                nfail += 1
                if len(failures) < max_failures:
                    l = l.rstrip("\n")
                    failures.append(dict(cls=l.split(" ")[0], what=l[:6000]))
    dist, ev, nt, samples = merge_stats([os.path.join(w, "stats.json")])
    dist["oracle-lines"] = nfail
    return dict(cases=ncases, disagreements=dis, failures=failures, dist=dist, histories=ev, nontrivial=nt, samples=samples)


def merge_runs(r, s, prefix="small:"):
    """result of run_db `r` + result of run_dbsmall `s` (its distribution counters get the prefix)"""
    dist = dict(r["dist"])
    for k, v in s["dist"].items():
        dist[prefix + k] = dist.get(prefix + k, 0) + v
    return dict(cases=r["cases"] + s["cases"], disagreements=r["disagreements"] + s["disagreements"],
                failures=r["failures"] + s["failures"], dist=dist, histories=r["histories"] + s["histories"],
                nontrivial=r["nontrivial"] + s["nontrivial"], samples=r["samples"][:2] + s["samples"][:2])


def add_big(ctx, r, n, steps=34, seed_off=7777, profile="big"):
    """also run the `big` profile (bulk-built graphs of 15-45 nodes with tie-heavy keys; ordered searches cut inside large results,
    path searches whose conditions fail on some elements, traversal-stopping conditions chained with or) and merge into r"""
    b = run_db(ctx, profile, n, steps, sub="db_" + profile, seed_off=seed_off)
    out = dict(r)
    out["cases"] = r["cases"] + b["cases"]
    out["histories"] = r["histories"] + b["histories"]
    out["nontrivial"] = r["nontrivial"] + b["nontrivial"]
    out["disagreements"] = r["disagreements"] + b["disagreements"]
    out["failures"] = r["failures"] + b["failures"]
    out["samples"] = (r["samples"] + b["samples"])[:4]
    d = dict(r["dist"])
    for k, v in b["dist"].items():
        d["big:" + k] = v
    out["dist"] = d
    return out


def spec_level(r):
    """The database model is the proved specification of these properties: a search / query result of the implementation that
    differs from the model's IS a violation of the property with the history as failing input (DESIGN 2.2, spec-level)."""
    fs = list(r["failures"])
    for d in r["disagreements"]:
        fs.append(dict(cls="model-mismatch", what="result differs from the proved model: step=%s model=%s impl=%s history=%s"
                       % (d.get("case", "")[:1500], d.get("model", "")[:800], d.get("impl", "")[:800], " ;; ".join(d.get("history", []))[:6000])))
    return fs


if __name__ == "__main__":
    class C: pass
    c = C(); c.seed = int(sys.argv[2]) if len(sys.argv) > 2 else 1
    c.workdir = os.path.join(vlib.CACHE, "run", "dev"); os.makedirs(c.workdir, exist_ok=True)
    r = run_db(c, sys.argv[1], int(sys.argv[3]) if len(sys.argv) > 3 else 200, int(sys.argv[4]) if len(sys.argv) > 4 else 30,
               variants=sys.argv[5] if len(sys.argv) > 5 else "", maintenance=len(sys.argv) > 6)
    print("cases", r["cases"], "disagreements", len(r["disagreements"]), "failures", len(r["failures"]))
    for d in r["disagreements"][:4]:
        print(d["what"]); print(" C", d.get("case", "")[:700]); print(" M", d.get("model", "")[:500]); print(" I", d.get("impl", "")[:500])
    from collections import Counter
    print(Counter(f["cls"] for f in r["failures"]))
