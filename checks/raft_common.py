# shared machinery of the consensus checks C27–C30 (model: coq/theories/Raft.v, harness: harness/hx_raft)
import os, re
import vlib
from checks.common import *

FLAG_OF_KIND = {"two-leaders-in-term": "es", "committed-entries-differ": "agree",
                "new-leader-misses-committed-entry": "lc"}

TRUSTED_EXTRA = [
    "harness/hx_raft: build-time textual copy of agdb_server/src/raft.rs (one `use` line replaced by the virtual clock, inspection code appended), "
    "in-memory Storage with truncate-on-append, the property oracles and the classification of failing histories",
]

ASSUMPTIONS = [
    "timers are adversarial: every `elapsed()` read returns a value chosen by the event list (superset of every real clock)",
    "Storage is the in-memory log with truncate-on-append (raft.rs test storage / ClusterStorage::append when commit < index) and never fails",
    "all nodes share the cluster hash (validate_hash always passes); a response travels with the request it answers (cluster.rs)",
    "ClientAppend reaches `append` only on a node in state Leader (forward.rs forwards to leader())",
    "default configuration: election factor 1000 ms * index, heartbeat 1000 ms, term timeout 3000 ms; clusters of 3 and 5 nodes",
]


# ---------------------------------------------------------------- revision of raft.rs (Raft.v: raftrev)
# The model carries three flags: one per election repair of C27 (fixes/C27-vote-adopts-term.diff,
# fixes/C27-count-only-current-term-votes.diff) and one for the acknowledgement repair of C28c / C29
# (fixes/C28-count-only-current-term-acks.diff).  Each check reads the raft.rs it runs against and selects the flags,
# so that the model it compares with, and the theorems that apply, are those of the code actually under test.
REPAIRED_CLASSES = {"1": ("double-vote", "ack-below-voted-term"), "2": ("stale-vote-counted",), "3": ("commit-without-quorum",)}
REV_NAMES = {"000": "rr_pinned", "110": "rr_before_ack_fix", "111": "rr_fixed"}


def raft_src():
    return os.environ.get("HX_RAFT_SRC") or os.path.join(vlib.REPO, "agdb_server", "src", "raft.rs")


def _fn_body(text, name):
    """text of `fn <name>` up to the next `fn ` at the same indentation (good enough for raft.rs, rustfmt layout)"""
    m = re.search(r"^(\s*)(?:pub(?:\([a-z]+\))?\s+)?(?:async\s+)?fn\s+%s\b" % re.escape(name), text, re.M)
    if not m:
        return ""
    rest = text[m.end():]
    n = re.search(r"^%s(?:pub(?:\([a-z]+\))?\s+)?(?:async\s+)?fn\s" % re.escape(m.group(1)), rest, re.M)
    return rest[:n.start()] if n else rest


def detect_rev(path=None):
    """'abc': a = vote_request assigns self.term from the request before/when it records the vote,
              b = the (Candidate, Vote, OK) arm of response() (or vote_received itself) compares request.term with self.term,
              c = the (Leader, Heartbeat | Append(_), OK) arm of response() (or commit itself) compares request.term with
                  self.term AND vote_received clears log_index / log_term / log_commit of the other rows when the node
                  becomes Leader (both halves of fixes/C28-count-only-current-term-acks.diff; one half alone reads as 0 and
                  shows up as a difference from the behaviour probe `?` and as state disagreements)"""
    try:
        text = open(path or raft_src(), errors="replace").read()
    except OSError:
        return "000"
    text = re.sub(r"//[^\n]*", "", text)
    vr = _fn_body(text, "vote_request")
    a = bool(re.search(r"self\s*\.\s*term\s*=\s*request\s*\.\s*term\s*;", vr))
    cmp_ = r"(?:request\s*\.\s*term\s*[=!]=\s*self\s*\.\s*term|self\s*\.\s*term\s*[=!]=\s*request\s*\.\s*term)"
    resp = _fn_body(text, "response")
    arm = re.search(r"\(\s*Candidate\s*,\s*Vote\s*,\s*OK\s*\)([^\n]*?)=>", resp)
    vrec = _fn_body(text, "vote_received")
    b = bool(arm and re.search(cmp_, arm.group(1))) or bool(re.search(cmp_, vrec))
    ack_arm = re.search(r"\(\s*Leader\s*,\s*(?:Heartbeat\s*\|\s*Append\s*\(\s*_\s*\)|Append\s*\(\s*_\s*\)\s*\|\s*Heartbeat)\s*,\s*OK\s*\)([^\n]*?)=>", resp)
    guard = bool(ack_arm and re.search(cmp_, ack_arm.group(1))) or bool(re.search(cmp_, _fn_body(text, "commit")))
    reset = all(re.search(r"\.\s*%s\s*=\s*0\s*;" % f, vrec) for f in ("log_index", "log_term", "log_commit"))
    c = guard and reset
    return ("1" if a else "0") + ("1" if b else "0") + ("1" if c else "0")


def repaired_classes(rev):
    """known-finding classes that must NOT be accepted any more on a tree with the given revision bits"""
    out = set()
    if rev[0] == "1":
        out.update(REPAIRED_CLASSES["1"])
    if rev[1] == "1":
        out.update(REPAIRED_CLASSES["2"])
    if rev[2:3] == "1":
        out.update(REPAIRED_CLASSES["3"])
    return out


def build():
    exe, dlog = vlib.build_driver()
    if exe is None:
        raise RuntimeError("driver build failed: " + dlog)
    env = {}
    if os.environ.get("HX_RAFT_SRC"):
        env["HX_RAFT_SRC"] = os.environ["HX_RAFT_SRC"]
    tdir, blog = vlib.cargo_build("hx_raft", "release", extra_env=env)
    if tdir is None:
        raise RuntimeError("harness build failed: " + blog)
    return exe, os.path.join(tdir, "hx_raft")


def corpus_file(ctx, prop):
    """concatenate corpus/<prop>/*.txt into one replay file; returns (path, {line_no: file})"""
    d = os.path.join(vlib.VERIF, "corpus", prop)
    out = os.path.join(ctx.workdir, "corpus_%s.txt" % prop)
    names = []
    with open(out, "w") as f:
        if os.path.isdir(d):
            for fn in sorted(os.listdir(d)):
                for l in open(os.path.join(d, fn)):
                    l = l.strip()
                    if l and not l.startswith("#"):
                        f.write(l + "\n")
                        names.append("corpus/%s/%s" % (prop, fn))
    return out, names


def phase(ctx, exe, hx, name, args, prop, timeout=3000, rev=None):
    """run the harness sub-command, then the model on the same cases; returns dict(cases, dis, failures, stats)"""
    w = os.path.join(ctx.workdir, name)
    os.makedirs(w, exist_ok=True)
    rev = rev or detect_rev()
    gone = repaired_classes(rev)
    rc, out = vlib.sh([hx] + args + ["--rev", rev, "--out", w], timeout=timeout)
    if rc != 0:
        raise RuntimeError("hx_raft %s failed: %s" % (args, out[-2000:]))
    rc, err = run_driver(exe, os.path.join(w, "cases.txt"), os.path.join(w, "model.txt"))
    cases, model, impl = (read_lines(os.path.join(w, f)) for f in ("cases.txt", "model.txt", "impl.txt"))
    dis = []
    if not (len(cases) == len(model) == len(impl)):
        dis.append(dict(what="%s: line count differs" % name, detail="cases=%d model=%d impl=%d %s" % (len(cases), len(model), len(impl), err[-300:])))
    for i, (c, m, x) in enumerate(zip(cases, model, impl)):
        if m == x:
            continue
        if c.startswith("raft run"):
            ms, xs = m.split(" ;; "), x.split(" ;; ")
            k = next((j for j, (a, b) in enumerate(zip(ms, xs)) if a != b), min(len(ms), len(xs)))
            dis.append(dict(what="%s case %d: states differ after event %d" % (name, i // 2, k), case=c[:3000],
                            model=(ms[k] if k < len(ms) else "<end>")[:1500], impl=(xs[k] if k < len(xs) else "<end>")[:1500]))
        else:
            dis.append(dict(what="%s case %d: oracle/known-class flags differ" % (name, i // 2), case=c[:3000], model=m, impl=x))
        if len(dis) >= 20:
            break
    failures = []
    for l in read_lines(os.path.join(w, "oracle.txt")):
        p = l.split(" ", 1)[0]
        if p not in (prop, "ALL"):
            continue
        m = re.match(r"^\S+ cls=(\S+) kind=(\S+) case=(\d+)", l)
        cls, kind, cno = m.group(1), m.group(2), int(m.group(3))
        # a failure the model does not predict for the same event list is never a known class
        flag = FLAG_OF_KIND.get(kind)
        if flag and 2 * cno + 1 < len(model):
            if re.search(r"\b%s=1\b" % flag, model[2 * cno + 1]):
                cls = "impl-only-" + kind
        # a class whose repair is present in the tree under test is no longer an accepted finding there
        if cls in gone:
            cls = "repaired-class-reappeared-" + cls
        failures.append(dict(cls=cls, what=("%s [%s] " % (prop, name)) + l[:6000]))
    stats = os.path.join(w, "stats.json")
    # the harness determines the same revision bits by behaviour (hx_raft: probe_rev); they must agree with the source reading
    try:
        import json
        st = json.load(open(stats))
        if st.get("probe_rev") != rev:
            dis.append(dict(what="%s: revision of raft.rs read from the source (%s) differs from the behaviour of the built code (%s)"
                            % (name, rev, st.get("probe_rev")), case=raft_src()))
    except (OSError, ValueError):
        dis.append(dict(what="%s: no stats.json" % name))
    return dict(n=len(cases) // 2, dis=dis, failures=failures, stats=stats)


def replay_file(ctx):
    """--replay F: run only the event list(s) recorded in a replay file written by bin/check"""
    path = getattr(ctx, "replay", None)
    if not path:
        return None
    import json
    v = json.load(open(path)).get("violation", {})
    texts = [v.get("what", "")] + [b.get("case", "") for b in v.get("broken", []) if isinstance(b, dict)]
    lines = []
    for t in texts:
        m = re.search(r"events=(\d+ .*)$", t) or re.search(r"raft (?:run|flags) (?:r[01]{2,3} )?(\d+ .*)$", t)
        if m:
            lines.append(m.group(1).strip())
    if not lines:
        return None
    out = os.path.join(ctx.workdir, "replay_events.txt")
    open(out, "w").write("\n".join(lines) + "\n")
    return out


def run_property(ctx, prop, rule, quick, thorough):
    """quick/thorough: lists of (phase name, harness args) besides the corpus"""
    exe, hx = build()
    phases = []
    cf, names = corpus_file(ctx, prop)
    if names:
        phases.append(("corpus", ["replay", "--file", cf]))
    rp = replay_file(ctx)
    if rp:
        phases = [("replay", ["replay", "--file", rp])]
    else:
        phases += quick if ctx.tier == "quick" else thorough
    dis, failures, stats, n = [], [], [], 0
    rev = detect_rev()
    gone = repaired_classes(rev)
    for name, args in phases:
        r = phase(ctx, exe, hx, name, args, prop, rev=rev)
        dis += r["dis"]; failures += r["failures"]; stats.append(r["stats"]); n += r["n"]
    dist, ev, nt, samples = merge_stats(stats)
    dist["raft-revision:vote_term=%s,vote_match=%s,ack_term=%s" % (rev[0], rev[1], rev[2])] = 1
    known = {k["cls"] for k in vlib.known_findings() if k["property"] == prop and k["kind"] == "finding"} - gone
    seen = {f["cls"] for f in failures}
    return dict(
        evaluations=ev, distinct_nontrivial=nt, samples=samples[:6], dist=dist, rule=rule,
        failures=failures, disagreements=dis[:20],
        known_probe={c: (c in seen) for c in known},
        assumptions=ASSUMPTIONS, trusted_extra=TRUSTED_EXTRA,
        notes=["revision of raft.rs read from %s: vote_request adopts the term = %s, response() checks the term of a vote = %s, "
               "a leader counts only acknowledgements of its current term = %s "
               "(model revision %s; finding classes not accepted on this tree: %s)"
               % (raft_src(), rev[0], rev[1], rev[2], REV_NAMES.get(rev, "mkRev " + rev), ", ".join(sorted(gone)) or "none"),
               "event lists: %d; failing histories are classified by the earliest KnownClass marker observed in the implementation's own trace "
               "(double-vote, stale-vote-counted, ack-from-diverged-log, old-term-commit, ack-below-voted-term, commit-without-quorum); a failure the model does not predict is never classified as known" % n],
    )


def search_property(ctx, prop, broken):
    """proof or correspondence broke: look for a concrete failing input on the implementation"""
    exe, hx = build()
    out = []
    for name, args in (("search-random", ["gen", "--seed", str(ctx.seed + 7919), "--n", "4000", "--len", "80"]),
                       ("search-explore", ["explore", "--depth", "9", "--budget", "400000"])):
        try:
            r = phase(ctx, exe, hx, name, args, prop)
            out += r["failures"]
        except Exception:
            pass
    return out


def seed_of(ctx, prop):
    return str(ctx.seed * 1000 + int(prop[1:]))
