# C24 — the server enforces authentication and per-database permissions
import os
import vlib
from checks.common import *
from checks.server_common import *

META = dict(
    engine="coq+hx_server",
    technique="Coq proofs about an executable model of the server's guards and effects (authorize/apply transcribed from routes/**, user_id.rs, "
              "server_db.rs) + differential correspondence of the extracted model with a real agdb_server process over HTTP + direct oracles",
    level_text="Machine-checked theorems on the model (Auth.v): every request answered with an error leaves the whole state unchanged; over ANY request "
               "sequence callers without write permission (no role or Read, not the server admin, or no valid token) never change a database's content or "
               "audit log; a logged-out / expired / deleted user's token is rejected by every later request of every sequence, and a user whose role was "
               "removed is rejected on that database; authorize equals the documented permission matrix on the finite table endpoint x role x ownership "
               "(admin endpoints: server admin only), with the one differing cell (a user may remove THEMSELVES from a database without being db admin) "
               "proved as a witness and recorded as a finding. The model is tied to /repo on every run: generated multi-user request sequences (valid "
               "stream + missing/garbage/logged-out/expired tokens, wrong roles, non-owners) are executed against a real server process and the HTTP "
               "status, response body and the observable state (users/sessions, databases, role tables, contents, audit logs) after every request are "
               "compared line by line with the extracted model; the property itself is also checked directly on the implementation's observations. The documentation's permission table and the required_role / t_exec / t_exec_mut query-kind lists are re-read from the source tree on every run and compared with the model's tables.",
    design_ref="DESIGN.md §5 C24",
    level_note="Trusted: Coq kernel, extraction (ExtrOcamlBasic), OCaml driver, Rust harness and its canonical printers, agdb_api HTTP client. Theorems are about "
               "the model; the tie to the code is differential execution. Password hashing, TLS, header parsing, the cluster endpoints and Memory databases "
               "are exercised or excluded but not modelled; token expiry is checked with the shortest configurable expiry (60 s) and 4 s margins.",
)


def run(ctx):
    exe, hx, srv = prepare()
    quick = ctx.tier == "quick"
    n, ln = (5, 120) if quick else (60, 150)
    runs = []
    cf = corpus_files("C24")
    if ctx.replay:
        payload = json.load(open(ctx.replay))
        seq = payload.get("violation", {}).get("sequence")
        if seq:
            p = os.path.join(ctx.workdir, "replay_cases.txt")
            open(p, "w").write("\n".join(seq) + "\n")
            cf = [p]
            n = 0
    if cf:
        runs.append(run_stream(ctx, exe, hx, srv, "corpus", ["replay", "--file", ",".join(cf)]))
    if n:
        runs.append(run_stream(ctx, exe, hx, srv, "main", ["c24", "--seed", str(ctx.seed), "--n", str(n), "--len", str(ln), "--expiry", "1"],
                               suffixes=("", "_expiry")))
    failures, dis, stats = [], tier_a(exe), []
    for r in runs:
        failures += oracle_failures(r["oracle"])
        dis += diff_server(r, r["oracle"])
        if not oracle_failures(r["oracle"]):
            failures += spec_failures(r)
        stats += r["stats"]
    for f in failures:
        m = re.search(r";; sequence: (.*)$", f["what"])
        if m:
            f["sequence"] = m.group(1).split(" ;; ")
    dist, ev, nt, samples = merge_stats(stats)
    if ctx.replay:
        for r in runs:
            for c, m, x in zip(r["cases"], r["model"], r["impl"]):
                print("CASE  %s\n model %s\n impl  %s" % (c, m, x))
    return dict(
        evaluations=ev, distinct_nontrivial=nt, samples=samples, dist=dist,
        rule="corpus sequences first; then %d sequences x <=%d requests over 4 users (incl. the server admin) and 3 database names per owner, one real "
             "agdb_server process: weighted random requests over all user/admin endpoints (login, logout variants, change password, db add/copy/rename/"
             "delete/remove/backup/restore/rollback/clear/convert/optimize/exec/exec_mut/audit/list, db user add/list/remove, admin mirrors, admin user "
             "add/delete/logout), ~74%% with a live token, the rest with logged-out, garbage, missing or arbitrary tokens; plus one token-expiry scenario "
             "on a second server (expiry 60 s). Per request: status, body and full observable state vs the model; non-trivial = distinct (token, request) "
             "pairs that were rejected with 401/403/404" % (n, ln),
        failures=failures, disagreements=dis,
        assumptions=["user/database names are those of the generator (user<n>, db<n>); names as byte strings are the subject of C26",
                     "one request at a time (no concurrent requests)", "single node (no cluster)"],
        trusted_extra=["agdb_api HTTP client (AgdbApi<ReqwestClient>)", "server launcher of harness/hx_server (generated agdb_server.yaml, temp data dir)"],
    )
