# C12 — every stored value reads back bit-for-bit
import os
import vlib
from checks.common import *

META = dict(
    engine="coq+hx_core",
    technique="Coq proof about an executable model of the 16-byte value index and DbValue::store_db_value/load_db_value over an abstract record store "
              "+ differential correspondence of the extracted model with the real agdb (values read back, index bytes written) + direct bit-for-bit oracle on all storage variants",
    level_text="Machine-checked theorems (coq/Props/C12.v, all full, no partial): C12_roundtrip (for every well-formed value of all nine kinds — byte strings and "
               "UTF-8 strings of every length with the 15/16 inline boundary as a case split, every i64/u64, all 2^64 f64 bit patterns, vectors of any length — "
               "load(store v) = v in the resulting store and in every store extending it; store adds at most one record under a fresh index and changes no "
               "existing record), C12_kv_roundtrip (a key-value pair = two indexes, 32 bytes), C12_index_fields_disjoint (type nibble, size nibble and payload "
               "never overwrite each other; byte-15 mask/shift facts by exhaustive sweep of the 256 byte values), C12_remove_frees_exactly and "
               "C12_kv_remove_frees_exactly (VecValue::remove leaves exactly the store before the insert), C12_allocator_exists (the freshness hypothesis is "
               "satisfiable). The record store is abstract (index -> bytes with a fresh-index allocator); that the real record store behaves so, also across "
               "reopen, belongs to C04/C05 and is exercised here by the direct oracle. Tie to /repo on every run: generated values inserted as property key and as "
               "property value into DbMemory, DbFile and Db, read back live, after drop+reopen, through every other variant on the same file and after "
               "backup+reload, compared bit-for-bit with the original; the model's load(store v), pair round trip and the 32 index bytes + out-of-line record "
               "bytes the implementation writes (recording StorageData wrapper) compared line by line with the extracted model.",
    design_ref="DESIGN.md §5 C12",
    level_note="Trusted: Coq kernel, extraction (ExtrOcamlBasic), OCaml driver, Rust harness/generators. Theorems are about the model; the tie to the code is "
               "differential execution on generated values. f64::to_le_bytes/from_le_bytes preserving NaN payloads is a platform fact (x86-64), exercised. "
               "String::from_utf8_lossy is modelled (identity on valid UTF-8 is what the theorems use).",
)

CLASSES = ("value-",)


def run(ctx):
    n = 2500 if ctx.tier == "quick" else 100000
    exe, dlog = vlib.build_driver()
    if exe is None:
        raise RuntimeError("driver build failed: " + dlog)
    tdir, blog = vlib.cargo_build("hx_core", "release")
    if tdir is None:
        raise RuntimeError("harness build failed: " + blog)
    w = ctx.workdir
    rc, out = vlib.sh([os.path.join(tdir, "hx_core"), "c12", "--seed", str(ctx.seed), "--n", str(n), "--out", w], timeout=3000)
    if rc != 0:
        raise RuntimeError("harness failed: " + out[-2000:])
    rc, err = run_driver(exe, os.path.join(w, "cases.txt"), os.path.join(w, "model.txt"))
    cases, model, impl = (read_lines(os.path.join(w, f)) for f in ("cases.txt", "model.txt", "impl.txt"))

    def cls(c, m, x):
        return "value-model-" + (c.split(" ")[1] if len(c.split(" ")) > 1 else "line")

    dis = diff_lines(cases, model, impl, cls=cls)
    failures = [dict(cls=l.split(" ")[0], what=l[:3000]) for l in read_lines(os.path.join(w, "oracle.txt"))]
    failures = [f for f in failures if f["cls"].startswith(CLASSES)]
    dist, ev, nt, samples = merge_stats([os.path.join(w, "stats.json")])
    return dict(
        evaluations=ev, distinct_nontrivial=nt, samples=samples, dist=dist,
        rule="boundary set (bytes and ASCII/NUL strings of every length 0..40, unicode strings ending exactly at 13..18 bytes with a 2-, 3- and 4-byte "
             "sequence, all-multibyte strings, i64::MIN/MAX, u64::MAX, float classes: zeros, infinities, quiet/signalling/negative NaN payloads, "
             "subnormals, extremes; vectors of every length 0..20 of the four element kinds; 300-byte / 5000-byte payloads) + %d values from the "
             "shared corpus generator; each value inserted as key and as value of a fresh node in DbMemory, DbFile, Db; read back (select values, "
             "select by key, select keys) live, after drop+reopen, through the other variants on the same file (incl. DbAny) and after backup+reload; "
             "per value the model's load(store v); per pair the model's pair round trip and the 32 index bytes + out-of-line records written; "
             "one evaluation = one (value, variant, phase) read or one pair; non-trivial = distinct value with >= 8 payload bytes / a non-empty vector / "
             "a float with a non-zero mantissa / an integer above 16 bits" % n,
        failures=failures, disagreements=dis,
        assumptions=["values are those a Rust program can hold: lengths < 2^60, UTF-8 strings",
                     "the record store hands out fresh non-zero indexes (C04)"],
    )
