# C19 — every query terminates after any history
import os, shutil
import resource
import vlib
from checks.common import *
from checks.db_common import run_db

META = dict(
    engine="coq+hx_core",
    technique="Coq proof about a fuel-based executable model of the open-addressing map (every probe loop and the rehash loop on fuel; out-of-fuel "
              "proved unreachable) + generated insert/remove histories over hundreds of distinct hashed keys on the real database under a per-step watchdog, "
              "with every query result also compared with the extracted database model",
    level_text="Machine-checked (coq/Props/C19.v, model coq/theories/OpenMap.v = multi_map.rs/map.rs with every unbounded loop on fuel, for EVERY hash function, "
               "key/value type and minimum capacity >= 4): C19_probe_bound (full) — in the repaired revision every list of map operations (insert, "
               "insert_or_replace with any predicate, remove_key, remove_value, reserve, value, values) from the empty map completes with probe fuel = capacity "
               "and rehash fuel = capacity + new capacity + 1, and keeps len = number of Valid slots < capacity; C19_step_bound (full) — the same as an inductive "
               "invariant from any table; C19_value_any_table / C19_values_any_table (full) — lookups need at most `capacity` iterations on every table whatsoever; "
               "C19_rehash_values_bound (full) — rehash_values terminates within its bound, keeps the number of Valid slots and leaves none beyond the new capacity "
               "; C19_rehash_preserves_entries / C19_rehash_in_place_preserves_entries (full: for every predicate the number of stored "
               "(key, value) pairs satisfying it is unchanged by grow / shrink / in-place rehash). "
               "FUNCTIONAL CORRECTNESS of the table (supports C10/C11, whose model DbModel.v abstracts the alias map and the indexes as association lists; "
               "specification coq/theories/OpenMapSpec.v = a multimap as a multiset of pairs, proofs OpenMapRefine*.v; hypotheses: keqb/veqb decide equality, "
               "mincap >= 4, wrap guard + iterator flag): C19_table_refines_multimap (full, all histories from the empty map: the run completes and the list of "
               "results it returns is one the abstract multimap allows — values(k) compared as multisets, insert_or_replace may replace any qualifying pair —, "
               "iter = the multimap, len = its size, invariant holds), C19_step_refines_multimap (full, simulation from any table satisfying the invariant), "
               "C19_invariant_is (the invariant spelled out: len = #Valid < capacity + probe chain: every Valid slot is reachable from hash mod capacity without "
               "crossing an Empty slot; no Empty slot need exist — lookups then end by the full-cycle guard), C19_lookup_finds_exactly_stored (full: values k = "
               "exactly the stored values of k with multiplicity, value k = the first in probe order, contains_value / values_count / len agree), "
               "C19_rehash_keeps_lookups / C19_rehash_in_place_keeps_lookups / C19_rehash_values_establishes_chain (full: after grow / shrink / in-place rehash every "
               "lookup returns the same values; the in-place rehash leaves no tombstone), C19_map_unique_keys (full: MapImpl histories show EXACTLY the observations "
               "of the ordinary finite map, at most one pair per key) + C19_finite_map_laws; non-vacuity C19_refinement_nonvacuous (constant hash, 64->128->64) and "
               "C19_tombstones_nonvacuous (capacity-64 table without any Empty slot). Not covered by the refinement: contains_value's early exit (modelled as a "
               "function of values), u64 overflow of capacity*15, storage errors. "
               "C19_pinned_refuted: before fix fc221a8, 64 x {insert; remove} of distinct keys "
               "leave no Empty slot and the next insert_or_replace runs out of EVERY fuel (the hang reproduced on the real database); C19_iter_pinned_refuted: the "
               "pinned MultiMapIterator yields the same value forever when it sits in the slot before the key's start slot of a table without Empty slot. "
               "The graph unlink loops and the search loops of a query are bounded by the lemmas of GraphProofs.v / TraverseProofs.v (C08, C14, C17), not here. "
               "Tie to /repo: histories of up to 400 steps biased to alias / indexed-value insert-remove cycles (bulk steps of up to 90 keys, >= 192 distinct aliases, "
               "alias and index maps crossing the 64/128/256 capacities both ways) run on the real DbMemory in a child process with a watchdog: a step (or a "
               "harness read) that does not return within the limit is a failure of class `timeout` with the history as replay.",
    design_ref="DESIGN.md §5 C19",
    level_note="Trusted: Coq kernel, extraction (ExtrOcamlBasic), OCaml driver, Rust harness/generators, the watchdog's wall clock (2 s quick / 5 s thorough per step; "
               "observed steps take < 10 ms). The map theorems are about the hand-written model OpenMap.v (positions/len as nat: u64 overflow of capacity*15 ignored); "
               "it is tied to multi_map.rs by the hang witnesses (model and real database agree on the 64-cycle history and on the fix), by the watchdog runs and, "
               "when hook H1 (agdb::verif::VMultiMap, fixes/H1-multimap-wrapper.diff) is present in /repo, by algorithm-level differential execution: generated "
               "operation histories on the real MultiMapStorage<u64,u64> with the whole slot array (state, key, value per slot, len, capacity) compared after every "
               "operation with the extracted OpenMap.v (identity hash, the code's constants), and the SPECIFICATION run against the implementation as well: every "
               "generated history is also executed on a plain shadow multimap (Vec of pairs) in the harness and after every operation its result, len, the iteration "
               "and value/values of the operation's key and of a second key must be what OpenMapSpec.v allows (values as multisets), failure class "
               "`map-spec-mismatch` with the history; one generator mode in four is removal-heavy churn over keys colliding modulo 64 at capacity 64 (probe chains "
               "through tombstones, tables without Empty slot); `hx_core omap --replay FILE` replays an operation list on the real map with the same oracle; "
               "without the hook that part is skipped and reported in the notes. "
               "Storage errors (Err paths) are not modelled.",
)

PROFILE = "hash"                        # alias / index insert-remove cycles over many distinct hashed keys
CLASSES = ("timeout",)                  # a step that does not return within the watchdog limit
# failure classes of the algorithm-level run (run_omap): `omap-invariant` (len / capacity), `map-spec-mismatch`
# (a result of the real MultiMapStorage that the abstract multimap of OpenMapSpec.v does not allow)
COMMON = ("panic", "read-error")        # failures that are violations wherever they show up


def _big_stack():
    # the extracted model's searches recurse deeply on the large graphs of this profile (hundreds of elements):
    # give the child processes (OCaml driver) a 4 GiB stack instead of reporting "ERROR stack overflow"
    soft, hard = resource.getrlimit(resource.RLIMIT_STACK)
    want = 4 << 30
    new = want if hard == resource.RLIM_INFINITY else min(want, hard)
    if soft != resource.RLIM_INFINITY and soft < new:
        resource.setrlimit(resource.RLIMIT_STACK, (new, hard))


WRAPPER = "pub struct VMultiMap"       # hook H1 (fixes/H1-multimap-wrapper.diff) in /repo/agdb/src/verif.rs


def wrapper_present():
    p = os.path.join(vlib.REPO, "agdb", "src", "verif.rs")
    return os.path.exists(p) and WRAPPER in open(p, errors="replace").read()


def build_omap_driver():
    """extract coq/theories/OpenMap.v (extract/omap/ExtractOMap.v, ExtrOcamlBasic only) and build its small driver"""
    ok, out = vlib.coq_make(["theories/OpenMap.vo"])
    if not ok:
        return None, out[-3000:]
    src = os.path.join(vlib.EXTRACT, "omap")
    files = [os.path.join(src, f) for f in sorted(os.listdir(src))] + [os.path.join(vlib.COQ, "theories", "OpenMap.v")]
    bdir = os.path.join(vlib.CACHE, "extract-omap")
    os.makedirs(bdir, exist_ok=True)
    exe = os.path.join(bdir, "omap_driver-" + vlib.file_hash(files))
    if os.path.exists(exe):
        return exe, "cached"
    for f in os.listdir(src):
        shutil.copy(os.path.join(src, f), bdir)
    rc, out = vlib.sh(["coqc", "-Q", os.path.join(vlib.COQ, "theories"), "Agdb", "ExtractOMap.v"], cwd=bdir, timeout=600)
    if rc != 0:
        return None, out[-3000:]
    rc, out2 = vlib.sh(["ocamlfind", "ocamlopt", "-w", "-a", "-o", exe, "omap_model.mli", "omap_model.ml", "omap_driver.ml"], cwd=bdir, timeout=600)
    if rc != 0:
        return None, (out + out2)[-3000:]
    return exe, out + out2


def run_omap(ctx):
    """algorithm-level correspondence: the slot array of the real MultiMapStorage<u64,u64> after every operation
    of generated histories equals the one of the extracted OpenMap.v model (revision: all three flags on)"""
    exe, log = build_omap_driver()
    if exe is None:
        raise RuntimeError("omap driver build failed: " + log)
    tdir, blog = vlib.cargo_build("hx_core", "release", features=["h1_multimap"])
    if tdir is None:
        raise RuntimeError("harness build (feature h1_multimap) failed: " + blog)
    w = os.path.join(ctx.workdir, "omap")
    os.makedirs(w, exist_ok=True)
    n, steps = (150, 300) if ctx.tier == "quick" else (2500, 500)
    rc, out = vlib.sh([os.path.join(tdir, "hx_core"), "omap", "--seed", str(ctx.seed), "--n", str(n), "--steps", str(steps), "--out", w], timeout=3000)
    if rc != 0:
        raise RuntimeError("omap harness failed: " + out[-2000:])
    rc, err = run_driver(exe, os.path.join(w, "cases.txt"), os.path.join(w, "model.txt"))
    cases, model, impl = (read_lines(os.path.join(w, f)) for f in ("cases.txt", "model.txt", "impl.txt"))
    dis = diff_lines(cases, model, impl, limit=10)
    for d in dis:
        try:
            k = int(d["what"].split()[1])
            start = max(i for i in range(k + 1) if cases[i].startswith("reset"))
            d["history"] = [c for c in cases[start:k + 1] if c != "dump"][-80:]
        except Exception:
            pass
    failures = [dict(cls=l.split(" ")[0], what=l[:6000]) for l in read_lines(os.path.join(w, "oracle.txt"))]
    dist, ev, nt, samples = merge_stats([os.path.join(w, "stats.json")])
    return dict(cases=len(cases), disagreements=dis, failures=failures, dist=dist, histories=ev, nontrivial=nt, samples=samples)


def run(ctx):
    _big_stack()
    n, steps, wd = (40, 400, 2000) if ctx.tier == "quick" else (300, 2000, 5000)
    notes = []
    om = None
    if wrapper_present():
        om = run_omap(ctx)
    else:
        notes.append("algorithm-level correspondence of OpenMap.v with MultiMapStorage skipped: hook H1 (agdb::verif::VMultiMap, "
                     "fixes/H1-multimap-wrapper.diff) is not in /repo")
    r = run_db(ctx, PROFILE, n, steps, watchdog_ms=wd)
    failures = [f for f in r["failures"] if f["cls"].startswith(CLASSES) or f["cls"] in COMMON]
    if r.get("partial"):
        notes.append("the watchdog stopped the harness inside a query: partial run, no model comparison")
    if om is not None:
        failures += om["failures"]
        r["disagreements"] = om["disagreements"] + r["disagreements"]
        r["cases"] += om["cases"]
        r["nontrivial"] += om["nontrivial"]
        r["samples"] = r["samples"][:2] + om["samples"][:2]
        r["dist"].update({"omap:" + k: v for k, v in om["dist"].items()})
        notes.append("algorithm-level: %d operation histories on the real MultiMapStorage<u64,u64> (VMultiMap), slot array after every operation "
                     "compared with the extracted OpenMap.v (all three flags on), and every step checked against a shadow multimap = the specification "
                     "OpenMapSpec.v (%d steps; class map-spec-mismatch); non-trivial = history that grew beyond 64 and shrank; %d histories reached a table without "
                     "Empty slot, %d of them in the colliding-keys removal-heavy mode"
                     % (om["histories"], om["dist"].get("spec-checked-steps", 0), om["dist"].get("history:reached-table-without-empty-slot", 0),
                        om["dist"].get("history:colliding-keys-table-without-empty-slot", 0)))
    return dict(
        evaluations=r["cases"], distinct_nontrivial=r["nontrivial"], samples=r["samples"], dist=r["dist"],
        rule="%d generated query histories (profile %s, <= %d steps: alias insert/remove cycles, bulk inserts of 8..90 aliased nodes, bulk alias removal, "
             "re-aliasing, bulk indexed values (distinct I64/String values under an index), bulk removal of values and nodes, plus the usual selects/searches "
             "and transactions) on the real DbMemory under a per-step watchdog of %d ms (also around the harness's own reads); every query result and a full dump "
             "every 8 steps compared line by line with the extracted Coq model; non-trivial = history that used >= 192 distinct aliases and in which the alias "
             "map grew and shrank across a capacity boundary (64/128/256)" % (r["histories"], PROFILE, steps, wd),
        failures=failures, disagreements=r["disagreements"],
        assumptions=["insert lists have distinct keys (the property's own quantifier)",
                     "a query that needs more than the watchdog limit is counted as non-terminating (steps observed take milliseconds)"],
        notes=notes,
    )
