# C19 — every query terminates after any history
import resource
import vlib
from checks.db_common import run_db

META = dict(
    engine="coq+hx_core",
    technique="Coq proof about a fuel-based executable model of the open-addressing map (every probe loop and the rehash loop on fuel; out-of-fuel "
              "proved unreachable) + generated insert/remove histories over hundreds of distinct hashed keys on the real database under a per-step watchdog, "
              "with every query result also compared with the extracted database model",
    level_text="Machine-checked (coq/Props/C19.v, model coq/theories/OpenMap.v = multi_map.rs/map.rs with every unbounded loop on fuel, for EVERY hash function, "
               "key/value type and minimum capacity >= 4): C19_probe_bound (full) — in the repaired revision every list of map operations (insert, "
               "insert_or_replace with any predicate, remove_key, remove_value, reserve, value, values) from the empty map completes with probe fuel = capacity "
               "and rehash fuel = capacity + new capacity + 1, and keeps len = number of Valid slots < capacity; C19_step_bound (full) — the same as an inductive "
               "invariant from any table; C19_value_any_table / C19_values_any_table (full) — lookups need at most `capacity` iterations on every table whatsoever; "
               "C19_rehash_values_bound (full) — rehash_values terminates within its bound, keeps the number of Valid slots and leaves none beyond the new capacity "
               "; C19_rehash_preserves_entries / C19_rehash_in_place_preserves_entries (full for the multiset claim: for every predicate the number of stored "
               "(key, value) pairs satisfying it is unchanged by grow / shrink / in-place rehash; that every pair is still FOUND by probing afterwards is NOT proved). "
               "C19_pinned_refuted: before fix fc221a8, 64 x {insert; remove} of distinct keys "
               "leave no Empty slot and the next insert_or_replace runs out of EVERY fuel (the hang reproduced on the real database); C19_iter_pinned_refuted: the "
               "pinned MultiMapIterator yields the same value forever when it sits in the slot before the key's start slot of a table without Empty slot. "
               "The graph unlink loops and the search loops of a query are bounded by the lemmas of GraphProofs.v / TraverseProofs.v (C08, C14, C17), not here. "
               "Tie to /repo: histories of up to 400 steps biased to alias / indexed-value insert-remove cycles (bulk steps of up to 90 keys, >= 192 distinct aliases, "
               "alias and index maps crossing the 64/128/256 capacities both ways) run on the real DbMemory in a child process with a watchdog: a step (or a "
               "harness read) that does not return within the limit is a failure of class `timeout` with the history as replay.",
    design_ref="DESIGN.md §5 C19",
    level_note="Trusted: Coq kernel, extraction (ExtrOcamlBasic), OCaml driver, Rust harness/generators, the watchdog's wall clock (2 s quick / 5 s thorough per step; "
               "observed steps take < 10 ms). The map theorems are about the hand-written model OpenMap.v (positions/len as nat: u64 overflow of capacity*15 ignored); "
               "it is tied to multi_map.rs by reading, by the hang witnesses (model and real database agree on the 64-cycle history and on the fix) and by the "
               "watchdog runs; slot-level differential correspondence with MultiMapStorage is not implemented. Storage errors (Err paths) are not modelled.",
)

PROFILE = "hash"                        # alias / index insert-remove cycles over many distinct hashed keys
CLASSES = ("timeout",)                  # a step that does not return within the watchdog limit
COMMON = ("panic", "read-error")        # failures that are violations wherever they show up


def _big_stack():
    # the extracted model's searches recurse deeply on the large graphs of this profile (hundreds of elements):
    # give the child processes (OCaml driver) a 4 GiB stack instead of reporting "ERROR stack overflow"
    soft, hard = resource.getrlimit(resource.RLIMIT_STACK)
    want = 4 << 30
    new = want if hard == resource.RLIM_INFINITY else min(want, hard)
    if soft != resource.RLIM_INFINITY and soft < new:
        resource.setrlimit(resource.RLIMIT_STACK, (new, hard))


def run(ctx):
    _big_stack()
    n, steps, wd = (40, 400, 2000) if ctx.tier == "quick" else (300, 2000, 5000)
    r = run_db(ctx, PROFILE, n, steps, watchdog_ms=wd)
    failures = [f for f in r["failures"] if f["cls"].startswith(CLASSES) or f["cls"] in COMMON]
    notes = []
    if r.get("partial"):
        notes.append("the watchdog stopped the harness inside a query: partial run, no model comparison")
    return dict(
        evaluations=r["cases"], distinct_nontrivial=r["nontrivial"], samples=r["samples"], dist=r["dist"],
        rule="%d generated query histories (profile %s, <= %d steps: alias insert/remove cycles, bulk inserts of 8..90 aliased nodes, bulk alias removal, "
             "re-aliasing, bulk indexed values (distinct I64/String values under an index), bulk removal of values and nodes, plus the usual selects/searches "
             "and transactions) on the real DbMemory under a per-step watchdog of %d ms (also around the harness's own reads); every query result and a full dump "
             "every 8 steps compared line by line with the extracted Coq model; non-trivial = history that used >= 192 distinct aliases and in which the alias "
             "map grew and shrank across a capacity boundary (64/128/256)" % (r["histories"], PROFILE, steps, wd),
        failures=failures, disagreements=r["disagreements"],
        assumptions=["insert lists have distinct keys (the property's own quantifier)",
                     "a query that needs more than the watchdog limit is counted as non-terminating (steps observed take milliseconds)"],
        notes=notes,
    )
