# C17 — path search returns a minimum-cost path
import vlib
from checks.db_common import run_db, add_big, spec_level, run_dbsmall, merge_runs

META = dict(
    engine="coq+hx_core",
    technique="Coq proof about the executable database model + differential correspondence of the extracted model with the real agdb on generated query "
              "histories and on an exhaustive enumeration of small multigraphs, with a direct shortest-path oracle on the implementation's answers",
    level_text="Machine-checked theorems (coq/Props/C17.v, all FULL, closed under the global context, for every revision) about the model of PathSearch + PathHandler "
               "(coq/theories/Search.v path_loop/path_search) for every database whose slot graph satisfies the explicit adjacency hypothesis adj_ok "
               "(coq/theories/AdjOk.v; decidable checker proved sound; discharged from the graph invariant wf, which holds after every history of graph operations from the empty graph: C17_path_search_wf with C14_wf_adj_ok / GraphSpec.grun_wf) and for DISTANCE-INDEPENDENT condition lists "
               "(dist_free: no distance condition and no beyond modifier at any depth; C17_dist_free proves the evaluation then ignores the distance argument, so every "
               "element has one cost: 1 if it passes the conditions, 2 if not, unusable if the conditions stop there - C17_ecost): C17_sound (a non-empty internal "
               "result is an alternating node/edge path from origin to destination following edge direction, every element after the origin usable, flags = "
               "selection), C17_optimal (Dijkstra invariant: its cost is <= the cost of every usable path), C17_empty_iff (the internal result is empty exactly when "
               "no usable path exists), C17_path_search / C17_path_search_sound (path_search returns the selected sub-list of a minimum-cost usable path, or [] when "
               "none exists), C17_degenerate (origin = destination or an endpoint that is no node gives []), C17_no_conditions_empty_iff / C17_no_conditions_shortest "
               "(without conditions: empty iff no path / equal endpoints / non-node endpoint; otherwise a path with the fewest elements), C17_no_fuel / "
               "C17_loop_no_fuel (fuel never exhausted, every condition list), C17_sound_any_conditions (for arbitrary conditions the answer is still the selected "
               "sub-list of a real path). Documented limits, each with a vm_compute example in Props/C17.v: the FINAL result can be empty although a usable path exists "
               "when no element of the cheapest path passes the conditions (C17_nothing_selected), and for distance-dependent conditions the code's 'distance' is the "
               "current path length, cost becomes path-dependent and a usable path can be missed (C17_distance_dependent) - optimality is stated for dist_free "
               "conditions only. The model is tied to /repo on every run by differential execution of the extracted model against the real agdb: random "
               "search-profile histories (path searches with random conditions) plus EVERY multigraph up to the enumeration bound with all ordered node pairs "
               "(identical results incl. tie-breaking), together with a direct shortest-path oracle on the implementation's answers.",
    design_ref="DESIGN.md §5 C17",
    level_note="Trusted: Coq kernel, extraction (ExtrOcamlBasic), OCaml driver, Rust harness/generators. Theorems are about the model (theories/Search.v etc.); "
               "the tie to the code is differential execution of generated histories and of the exhaustive small-graph enumeration (every query result compared).",
)

PROFILE = "search"                      # generator profile: graph kv alias index txn search all hash
CLASSES = ("path-",)                    # oracle failure classes that are violations of THIS property
COMMON = ("panic", "read-error")        # failures that are violations wherever they show up


def run(ctx):
    quick = ctx.tier == "quick"
    n, steps = (120, 30) if quick else (3000, 60)
    nodes, edges = (3, 3) if quick else (4, 4)
    # quick: every id-reuse variant of every graph; thorough: all variants up to n + m <= 6, every 8th graph beyond
    reuse_full, reuse_k = (6, 1) if quick else (6, 8)
    r = run_db(ctx, PROFILE, n, steps, seed_off=17)
    r = add_big(ctx, r, 60 if ctx.tier == "quick" else 1500)
    s = run_dbsmall(ctx, nodes, edges, paths=True, traverse=False, sub="small", reuse_full=reuse_full, reuse_k=reuse_k)
    m = merge_runs(r, s)
    scope = "every graph with m >= 1" if reuse_k == 1 else "all graphs with m >= 1 and (n <= 2 or n + m <= %d) and every %dth of the remaining graphs" % (reuse_full, reuse_k)
    failures = [f for f in m["failures"] if f["cls"].startswith(CLASSES) or f["cls"] in COMMON]
    failures += [f for f in spec_level(m) if f["cls"] == "model-mismatch"]
    return dict(
        evaluations=m["histories"], distinct_nontrivial=m["nontrivial"], samples=m["samples"], dist=m["dist"],
        rule="(1) %d generated query histories (profile %s, <= %d steps, mostly-valid operations over live ids/aliases plus an invalid stream; searches with "
             "random origins/destinations/conditions/limits, a share of them with both an origin and a destination = path searches); every query result and a full dump every 8 steps compared line by line "
             "with the extracted Coq model. (2) exhaustive: every multigraph with n <= %d nodes and every ORDERED edge list of length m <= %d over [1..n]x[1..n] "
             "(self-loops, parallel edges; the order fixes the adjacency order), each built in its own history, plus id-reuse variants (each edge removed and "
             "re-inserted; each node removed with its edges and re-created) for %s: %d histories; "
             "on each, the path search for ALL ordered node pairs (origin = destination included) (a) without conditions and (b) with the condition "
             "ids(all elements with even |id|), which makes every odd element cost 2 and unlisted; every result compared line by line with the extracted model "
             "(cost and tie-breaking) and (a) checked by a direct oracle computed from the element list: starts at the origin and ends at the destination, "
             "alternating connected node/edge sequence, length 2h+1 for the minimal hop count h of an own breadth-first search, empty exactly when origin = "
             "destination or the destination is unreachable; (b) no listed element fails the condition. "
             "non-trivial = history that reached a state with >= 2 nodes and an edge"
             % (r["histories"], PROFILE, steps, nodes, edges, scope, s["histories"]),
        failures=failures, disagreements=m["disagreements"],
        assumptions=["the theorems are stated for graphs satisfying adj_ok (coq/theories/AdjOk.v) resp. the graph invariant wf (C17_path_search_wf), which holds for "
                     "every graph produced by a history of the four graph operations from the empty graph; that DbImpl's query layer only performs such "
                     "operations is part of the model correspondence, not a separate theorem",
                     "minimality is proved for distance-independent condition lists (dist_free); for conditions that read the distance the code's cost is "
                     "path-dependent (witness C17_distance_dependent) and only soundness (C17_sound_any_conditions) is proved",
                     "the direct oracle decides minimality only for path searches without conditions (all costs 1); minimal cost under conditions and "
                     "tie-breaking are decided by the model, which the implementation is compared with"],
    )
