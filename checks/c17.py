# C17 — path search returns a minimum-cost path
import vlib
from checks.db_common import run_db, run_dbsmall, merge_runs

META = dict(
    engine="coq+hx_core",
    technique="Coq proof about the executable database model + differential correspondence of the extracted model with the real agdb on generated query "
              "histories and on an exhaustive enumeration of small multigraphs, with a direct shortest-path oracle on the implementation's answers",
    # PLACEHOLDER level_text — to be rewritten by the proof agent once coq/Props/C17.v is final
    level_text="PLACEHOLDER (proof agent rewrites this): theorems of coq/Props/C17.v about the path search of coq/theories/Search.v "
               "(result is a directed alternating path origin..destination of minimal cost, elements failing the conditions cost 2 and are not listed, "
               "empty exactly when no usable path exists or origin = destination); the model is tied to /repo by differential execution "
               "(random search-profile histories + every multigraph up to the enumeration bound, all node pairs).",
    design_ref="DESIGN.md §5 C17",
    level_note="Trusted: Coq kernel, extraction (ExtrOcamlBasic), OCaml driver, Rust harness/generators. Theorems are about the model (theories/Search.v etc.); "
               "the tie to the code is differential execution of generated histories and of the exhaustive small-graph enumeration (every query result compared).",
)

PROFILE = "search"                      # generator profile: graph kv alias index txn search all hash
CLASSES = ("path-",)                    # oracle failure classes that are violations of THIS property
COMMON = ("panic", "read-error")        # failures that are violations wherever they show up


def run(ctx):
    quick = ctx.tier == "quick"
    n, steps = (120, 30) if quick else (3000, 60)
    nodes, edges = (3, 3) if quick else (4, 4)
    # quick: every id-reuse variant of every graph; thorough: all variants up to n + m <= 6, every 8th graph beyond
    reuse_full, reuse_k = (6, 1) if quick else (6, 8)
    r = run_db(ctx, PROFILE, n, steps, seed_off=17)
    s = run_dbsmall(ctx, nodes, edges, paths=True, traverse=False, sub="small", reuse_full=reuse_full, reuse_k=reuse_k)
    m = merge_runs(r, s)
    scope = "every graph with m >= 1" if reuse_k == 1 else "all graphs with m >= 1 and (n <= 2 or n + m <= %d) and every %dth of the remaining graphs" % (reuse_full, reuse_k)
    failures = [f for f in m["failures"] if f["cls"].startswith(CLASSES) or f["cls"] in COMMON]
    return dict(
        evaluations=m["histories"], distinct_nontrivial=m["nontrivial"], samples=m["samples"], dist=m["dist"],
        rule="(1) %d generated query histories (profile %s, <= %d steps, mostly-valid operations over live ids/aliases plus an invalid stream; searches with "
             "random origins/destinations/conditions/limits, a share of them with both an origin and a destination = path searches); every query result and a full dump every 8 steps compared line by line "
             "with the extracted Coq model. (2) exhaustive: every multigraph with n <= %d nodes and every ORDERED edge list of length m <= %d over [1..n]x[1..n] "
             "(self-loops, parallel edges; the order fixes the adjacency order), each built in its own history, plus id-reuse variants (each edge removed and "
             "re-inserted; each node removed with its edges and re-created) for %s: %d histories; "
             "on each, the path search for ALL ordered node pairs (origin = destination included) (a) without conditions and (b) with the condition "
             "ids(all elements with even |id|), which makes every odd element cost 2 and unlisted; every result compared line by line with the extracted model "
             "(cost and tie-breaking) and (a) checked by a direct oracle computed from the element list: starts at the origin and ends at the destination, "
             "alternating connected node/edge sequence, length 2h+1 for the minimal hop count h of an own breadth-first search, empty exactly when origin = "
             "destination or the destination is unreachable; (b) no listed element fails the condition. "
             "non-trivial = history that reached a state with >= 2 nodes and an edge"
             % (r["histories"], PROFILE, steps, nodes, edges, scope, s["histories"]),
        failures=failures, disagreements=m["disagreements"],
        assumptions=["the direct oracle decides minimality only for path searches without conditions (all costs 1); minimal cost under conditions and "
                     "tie-breaking are decided by the model, which the implementation is compared with"],
    )
