# C29 — entries committed by a leader survive every later leader
from checks.raft_common import *
from checks import raft_witness

META = dict(
    engine="coq+hx_raft",
    technique="Coq: executable model of raft.rs with a ghost history of leader commits and elections; refutation witnesses by vm_compute; conditional proof of leader completeness "
              "(log matching + inductive invariant over all event lists) under the negation of three decidable defect markers; differential correspondence with the real raft.rs "
              "after every event; direct oracle (a node that becomes leader lacks an entry a leader committed earlier) on the implementation's states",
    level_text="The full property is machine-checked FALSE of the faithful model: witness histories with one leader per term end with a new leader that lacks an entry committed by an earlier leader, with FOUR independent causes - "
               "the leader commits an entry of an older term by counting replicas (old-term-commit); an Append is acknowledged from a diverged log (ack-from-diverged-log); the leader counts a peer-table row that is not an "
               "acknowledgement of its current term and commits an entry held by fewer than a quorum (commit-without-quorum, NEW: found while attempting the conditional proof, 5 nodes, not found by the random search); "
               "a voter acknowledging an Append below its voted term (only before the C27 repairs) - and two through the election defects of C27. All are reproduced on the real code and recorded as known findings. "
               "CONDITIONAL THEOREM (C29_partial), machine-checked for the code now in /repo (model revision rr_fixed = with both C27 election repairs), every cluster size other than 1 and every adversarial event list: "
               "if none of the three log-replication markers (ack-from-diverged-log, old-term-commit, commit-without-quorum) occurs in the run, every entry committed by a leader of term t is in the log of every node that becomes "
               "leader later for a HIGHER term (Raft's Leader Completeness) - these three classes are the only ways the repaired raft.rs can lose a leader-committed entry to a leader of a higher term. "
               "The LITERAL statement of the property (every later leader, whatever its term) additionally needs the absence of a harmless situation - a stale candidate of an OLDER term collects delayed votes and becomes leader of that "
               "older term after the commit (C29_partial_literal) - and C29_literal_refuted_by_late_leader shows (3 nodes, 26 events, none of the six classes) that this extra hypothesis cannot be dropped: the literal statement is "
               "stronger than Raft's property (the oracles check the higher-term form). The hypotheses are non-vacuous (fault-free 3-node history with leader commits). "
               "The model carries the revision of the election code (C27): the check reads raft.rs and compares with the model of that revision; "
               "the refutations through the three log-replication classes are machine-checked for EVERY revision, the other three only before the C27 repairs - on a tree "
               "with the repairs their classes are no longer accepted as known findings. The model is tied to /repo on every run by comparing complete cluster states after every event of seeded adversarial event lists; "
               "a new leader missing a leader-committed entry in a history outside the listed classes is a VIOLATION.",
    design_ref="DESIGN.md §5 C29, C27–C30 common",
    level_note="The property is NOT a theorem of the code as it is (three open defect classes, known findings); what is proved is that nothing else can break it for leaders of higher terms. "
               "The direct oracle of the harness and the model flag lc check Raft's Leader Completeness: a node that becomes leader of term t' holds every entry committed by a leader of a term t < t' "
               "('later leader' = leader of a later term); the literal reading (any later leader) is violated by correct behaviour, documented by C29_literal_refuted_by_late_leader and by the regression case "
               "corpus/C29/00_late_leader_older_term.txt, which runs first on every check and must produce no failure. The one-node cluster is excluded.",
)


RULE = ("corpus witnesses of the _refuted lemmas, then seeded random adversarial event lists biased to leader changes with appends (<=80 events, 3 and 5 nodes); per event the "
        "printed cluster state of the extracted model is compared with the implementation's; non-trivial = at least one leader elected")


def run(ctx):
    s = seed_of(ctx, "C29")
    res = run_property(ctx, "C29", RULE,
                       quick=[("random", ["gen", "--seed", s, "--n", "350", "--len", "80"])],
                       thorough=[("random", ["gen", "--seed", s, "--n", "20000", "--len", "120"]),
                                 ("explore", ["explore", "--depth", "11", "--budget", "3000000"])])
    if not raft_witness.in_sync():
        res["disagreements"].append(dict(what="coq/theories/RaftWitness.v is not the rendering of corpus/C27..C29 (python3 checks/raft_witness.py)"))
    return res


def search(ctx, broken):
    return search_property(ctx, "C29", broken)
