# C29 — entries committed by a leader survive every later leader
from checks.raft_common import *
from checks import raft_witness

META = dict(
    engine="coq+hx_raft",
    technique="Coq: executable model of raft.rs with a ghost history of leader commits and elections; refutation witnesses by vm_compute; conditional proof of leader completeness "
              "(log matching + inductive invariant over all event lists) under the negation of three decidable defect markers; differential correspondence with the real raft.rs "
              "after every event; direct oracle (a node that becomes leader lacks an entry a leader committed earlier) on the implementation's states",
    level_text="The full property is machine-checked FALSE of the faithful model: witness histories with one leader per term end with a new leader that lacks an entry committed by an earlier leader, with FOUR independent causes - "
               "the leader commits an entry of an older term by counting replicas (old-term-commit); an Append is acknowledged from a diverged log (ack-from-diverged-log); the leader counts a peer-table row that is not an "
               "acknowledgement of its current term and commits an entry held by fewer than a quorum (commit-without-quorum, repaired by the patch below; found while attempting the conditional proof, 5 nodes, not found by the random search); "
               "a voter acknowledging an Append below its voted term (only before the C27 repairs) - and two through the election defects of C27. All are reproduced on the real code and recorded as known findings. "
               "REPAIR OF THE THIRD CLASS (fixes/C28-count-only-current-term-acks.diff: rows of the other nodes cleared when a node becomes Leader; Ok answers to Append/Heartbeat requests of another term ignored): third revision flag "
               "fix_ack_term of the model; the check reads the tree it runs against and selects the revision (rr_before_ack_fix = both C27 election repairs only, rr_fixed = all three repairs), cross-checked by behaviour. Machine-checked: "
               "the commit-without-quorum witness holds in every revision WITHOUT the repair (C29_refuted_commit_noquorum, ..._before_ack_fix, C29_two_classes_not_enough), the SAME event lists are harmless under rr_fixed "
               "(C29_commit_noquorum_witness_harmless_fixed), and the ROOT-CAUSE THEOREM C29_no_stale_ack_fixed (full: every cluster size, every adversarial event list): with the repair no Leader ever counts, at a step that raises its "
               "commit index, a peer-table row that was not written by commit() from an Ok answer to a request of its current term since it became Leader (marker stale_ack_counted_b, also computed by the harness and compared on every event list; "
               "set in the corpus witnesses before the repair: C29_stale_ack_before_ack_fix). On a tree WITH the repair the class commit-without-quorum is reported as repaired-class-reappeared-commit-without-quorum (a VIOLATION); "
               "on a tree without it, it stays a known finding. "
               "CONDITIONAL THEOREM (C29_partial), machine-checked for model revision rr_fixed, every cluster size other than 1 and every adversarial event list: "
               "if none of the three log-replication markers (ack-from-diverged-log, old-term-commit, and the SEMANTIC marker commit-without-quorum) occurs in the run, every entry committed by a leader of term t is in the log of every node that becomes "
               "leader later for a HIGHER term (Raft's Leader Completeness) - these three classes are the only ways raft.rs can lose a leader-committed entry to a leader of a higher term. PARTIAL: the third hypothesis is kept although "
               "its root cause is repaired in rr_fixed, because the semantic marker is also set in harmless histories of the repaired code; dropping it needs Raft's acknowledgement-history argument, not done. "
               "The LITERAL statement of the property (every later leader, whatever its term) additionally needs the absence of a harmless situation - a stale candidate of an OLDER term collects delayed votes and becomes leader of that "
               "older term after the commit (C29_partial_literal) - and C29_literal_refuted_by_late_leader shows (3 nodes, 26 events, none of the six classes) that this extra hypothesis cannot be dropped: the literal statement is "
               "stronger than Raft's property (the oracles check the higher-term form). The hypotheses are non-vacuous (fault-free 3-node history with leader commits). "
               "The refutations through ack-from-diverged-log and old-term-commit are machine-checked for EVERY revision (they remain with all repairs), the election ones only before the C27 repairs - on a tree "
               "with the repairs their classes are no longer accepted as known findings. The model is tied to the tree under test on every run by comparing complete cluster states after every event of seeded adversarial event lists; "
               "a new leader missing a leader-committed entry in a history outside the listed classes is a VIOLATION.",
    design_ref="DESIGN.md §5 C29, C27–C30 common",
    level_note="The property is NOT a theorem of the code as it is (three open defect classes, known findings); what is proved is that nothing else can break it for leaders of higher terms. "
               "The direct oracle of the harness and the model flag lc check Raft's Leader Completeness: a node that becomes leader of term t' holds every entry committed by a leader of a term t < t' "
               "('later leader' = leader of a later term); the literal reading (any later leader) is violated by correct behaviour, documented by C29_literal_refuted_by_late_leader and by the regression case "
               "corpus/C29/00_late_leader_older_term.txt, which runs first on every check and must produce no failure. The one-node cluster is excluded.",
)


RULE = ("corpus witnesses of the _refuted lemmas, then seeded random adversarial event lists biased to leader changes with appends (<=80 events, 3 and 5 nodes); per event the "
        "printed cluster state of the extracted model is compared with the implementation's; non-trivial = at least one leader elected")


def run(ctx):
    s = seed_of(ctx, "C29")
    res = run_property(ctx, "C29", RULE,
                       quick=[("random", ["gen", "--seed", s, "--n", "350", "--len", "80"])],
                       thorough=[("random", ["gen", "--seed", s, "--n", "20000", "--len", "120"]),
                                 ("explore", ["explore", "--depth", "11", "--budget", "3000000"])])
    if not raft_witness.in_sync():
        res["disagreements"].append(dict(what="coq/theories/RaftWitness.v is not the rendering of corpus/C27..C29 (python3 checks/raft_witness.py)"))
    return res


def search(ctx, broken):
    return search_property(ctx, "C29", broken)
