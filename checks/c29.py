# C29 — entries committed by a leader survive every later leader
from checks.raft_common import *
from checks import raft_witness

META = dict(
    engine="coq+hx_raft",
    technique="Coq: executable model of raft.rs with a ghost history of leader commits and elections; refutation witnesses by vm_compute; differential correspondence with the real raft.rs "
              "after every event; direct oracle (a node that becomes leader lacks an entry a leader committed earlier) on the implementation's states",
    level_text="The full property is machine-checked FALSE of the faithful model: a witness history with one leader per term, no double vote, no stale vote and only matching "
               "acknowledgements ends with a new leader that lacks an entry committed by an earlier leader (the leader commits an entry of an older term by counting replicas, and the vote rule "
               "compares index, term and commit separately); two further single-leader witness histories (Append acknowledged from a diverged log; a voter acknowledging an Append below its voted term) and two through the election defects of C27 show the same failure. All are reproduced on the real "
               "code and recorded as known findings. The model carries the revision of the election code (C27): the check reads raft.rs and compares with the model of that revision; "
               "the refutations through old-term commit and diverged-log acknowledgement are machine-checked for EVERY revision, the other three only before the C27 repairs - on a tree "
               "with the repairs their classes are no longer accepted as known findings. The model is tied to /repo on every run by comparing complete cluster states after every event of seeded adversarial event lists; "
               "a new leader missing a leader-committed entry in a history outside the listed classes is a VIOLATION.",
    design_ref="DESIGN.md §5 C29, C27–C30 common",
    level_note="Only refutations and the model/implementation tie are machine-checked for this property; no conditional leader-completeness theorem is claimed (partial).",
)

RULE = ("corpus witnesses of the _refuted lemmas, then seeded random adversarial event lists biased to leader changes with appends (<=80 events, 3 and 5 nodes); per event the "
        "printed cluster state of the extracted model is compared with the implementation's; non-trivial = at least one leader elected")


def run(ctx):
    s = seed_of(ctx, "C29")
    res = run_property(ctx, "C29", RULE,
                       quick=[("random", ["gen", "--seed", s, "--n", "350", "--len", "80"])],
                       thorough=[("random", ["gen", "--seed", s, "--n", "20000", "--len", "120"]),
                                 ("explore", ["explore", "--depth", "11", "--budget", "3000000"])])
    if not raft_witness.in_sync():
        res["disagreements"].append(dict(what="coq/theories/RaftWitness.v is not the rendering of corpus/C27..C29 (python3 checks/raft_witness.py)"))
    return res


def search(ctx, broken):
    return search_property(ctx, "C29", broken)
