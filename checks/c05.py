# C05 — reopening and maintenance operations preserve the database
import os
import vlib
from checks.common import *
from checks.db_common import run_db, spec_level

META = dict(
    engine="coq+hx_core",
    technique="Coq proofs at two layers: (L1) reopen / backup+open / optimize preserve the storage layer's record map exactly (model of storage.rs proved to refine the abstract map, C04); "
              "(L2) the storage-backed collections — vec.rs, DbMapData of map.rs, GraphDataStorage of graph.rs, the root record of db.rs — modelled line by line as programs over the storage "
              "interface and verified against the abstract record map for EVERY history including reloads (from_storage) and maintenance of the storage underneath, transferred to the storage model "
              "through C04_step_refines; + differential execution of the extracted collection model (run on the extracted storage model: exact record bytes and indexes) against the real collections "
              "through the cfg(agdb_verif) wrappers of hook H4; (L3) the whole database file as a relation over the record map assembled from the L2 invariants, an executable loader proved to return the represented database, "
              "run (extracted) on the raw records of real database files and compared with the reopened database; + maintenance operations executed at random points of generated query histories with ordered full dumps before/after",
    level_text="PARTIAL (L3 is proved for RELOAD and MAINTENANCE of a stored database, and — round 5 — that a CORE of DbImpl mutations keeps the database stored: insert_node, insert_edge, reserve_key_value_capacity, insert_key_value and insert_or_replace_key_value on keys without an index; and DbImpl::insert_new_alias (C05_db_insert_new_alias_preserves_stored_db_partial, theories/StoredDbOpsAlias*.v: IndexedMapImpl::insert = two MapImpl::insert = insert_or_replace(|_| true) as storage programs — transaction, probe loop over state / key, set_state / set_key / set_value / set_len, commit) for a NEW alias and an id WITHOUT alias when neither alias table grows (len < capacity*15/16) nor rehashes in place (no full probe cycle): C19's invariant PInv of the two stored tables is an explicit hypothesis and is re-established, the table left is the one OpenMap.v's insert_or_replace computes (C05_map_insert_absent_partial, for every DbMapData); there the grow / in-place-rehash branches are PARAMETERS of the program (not executed under the hypotheses); C05_db_insert_new_alias_any_fill_preserves_stored_db_partial + C05_map_insert_absent_any_fill_partial (theories/StoredDbOpsAlias4..8.v) drop both side conditions: rehash_values / rehash_in_place / rehash(capacity*2) = resize + rehash_values are storage programs proved against OpenMap.v's rehash_loop, so the insertion is proved for ANY fill of the tables (empty: grows to 64; full: doubles; no Empty slot: inserts at the first Deleted slot and rehashes in place) — still assumed: PInv (minimum capacity 64) of the stored tables, alias new / id without alias (the two removals after a replaced value stay unexecuted parameters), valid elements, vectors below 2^64 bytes (C05_db_insert_new_alias_bounded_preserves_stored_db_partial: the size conditions from one bound, both tables below 2^56 slots); non-vacuity: C05_db_sample_insert_new_alias(_run) (the example file with its alias tables resized to capacity 4: hypotheses hold together, the program with every unmodelled branch = CDead runs to the end on the storage model) and C05_map_sample_insert_into_empty_grows (insert into an EMPTY table runs through the grow on the storage model); for the other alias operations (insert_alias on an id that has one, remove aliases, removal of an aliased node), indexes, cascading removals, transactions + undo it is not). Machine-checked (coq/Props/C05.v, every theorem closed under the global context): "
               "L3, the whole database in the record store (theories/StoredDb*.v): stored_db g root d — the representation relation assembled from the L2 predicates: root record DbStorageIndex (version 1, six u64) -> "
               "graph (index record + four DbVec<i64> = exactly the four arrays), aliases (two DbMapData tables holding k2v / v2k as multisets, keys distinct), indexes (DbVec of 24-byte entries: value index of the key "
               "(C12) ++ index of a DbMapData<DbValue,DbId>, same order as the model, ids as a multiset), values (DbVec<StorageIndex>, one slot per element slot, 0 or a DbVec<DbKeyValue> holding exactly the property "
               "list), all footprints pairwise distinct; it assumes no invariant of d. load_db — the executable composition of the L2 loaders in the order of DbImpl::try_new_with_storage, each component read to the end. "
               "C05_db_reload (FULL): stored_db -> load_db succeeds and returns d up to sd_eqv (same graph arrays, same property lists in order, same alias lookups both ways, same index keys in order, ids per index "
               "as multisets; implies C13's obs_eq and obs_eq_strong: C05_db_eqv_is_observational), undo stack empty; C05_db_reload_on_storage: the loader PROGRAM on the model of storage.rs returns what load_db computes; "
               "C05_db_maintenance: optimize_storage / drop+open / backup+open of the storage model with no transaction open keep stored_db and load_db returns THE SAME database before and after (through C04's "
               "step_refines, which carries the L1 theorem); C05_db_queries_after_reopen + C05_db_eqv_queries: every read-only query whose result does not list a hash table in iteration order (all selects with ids or "
               "searches, select indexes / node_count, every search except algorithm Index; excluded exactly SelectAllAliases and the Index search) returns on the database loaded after the maintenance operation EXACTLY "
               "the result it returns on d (ids, order, properties, aliases); C05_db_stored_depends_on_map_only; non-vacuity C05_db_sample: a database (2 nodes, 1 edge, alias, inline and out-of-line values, an index) "
               "created by the collection programs on the storage model satisfies stored_db for the database three queries produce, load_db returns exactly it, also after optimize / reopen / backup and on the "
               "memory-like storage. CORE MUTATIONS (theories/StoredDbOps*.v): DbImpl::insert_node / insert_edge (graph.rs GraphImpl over GraphDataStorage: transaction, get_free_index = free-list pop or grow, set_edge, node count, validate_node), reserve_key_value_capacity / insert_key_value / insert_or_replace_key_value (db_key_value.rs DbKeyValues over the slot vector and the elements' DbVec<DbKeyValue>: resize of the slot vector, allocation of a property vector for an element without properties, value indexes of C12, lazy search + replace in place or reserve + push) modelled as PROGRAMS over the storage that branch on the storage's answers; C05_db_insert_node_preserves_stored_db, C05_db_insert_edge_preserves_stored_db, C05_db_reserve_key_value_capacity_preserves_stored_db, C05_db_insert_key_value_preserves_stored_db, C05_db_insert_or_replace_key_value_preserves_stored_db: in every state of the abstract record map holding d (stored_db_w) with DbImpl's handles those of the witness (C05_db_open_handles: so_open = from_storage), under EXPLICIT side conditions (so_graph_ok: arrays of one length < 2^60, free-list head i64::MIN or in range, node count in [0, 2^63-1); so_edge_ok: the two degree counters stay i64; |id| < 2^60; u64 sizes; values wf_value; the key(s) NOT indexed), for every answer sequence the record map allows the program does not die, returns DbModel's result (same id / replaced pair) and ends in a state holding DbModel's database, the witness changed in the operated component only and the change confined to the footprint (frame), same transaction depth; C05_db_core_histories_preserve_stored_db: EVERY history of the five; C05_db_core_operations_preserve_stored_db_partial: the same on the MODEL of storage.rs (C04, file-like and memory-like) from any state refining a map that holds d: so_open then the history dies by a storage panic or returns DbModel's outputs in a state refining a map that holds DbModel's final database; non-vacuity C05_db_sample_core_operations: on the example database, so_open; insert_node; reserve; insert_key_value (out-of-line value) RUN on the storage model, every answer replayed on the abstract map, so the theorems apply to that run: id 4, the final record store satisfies stored_db for DbModel's result and load_db returns exactly it. graph.rs REMOVALS, graph component only: C05_db_remove_edge_graph_preserves_stored_db (GraphImpl::remove_edge in full — validate_edge, remove_from_edge / remove_to_edge with the head case and the while walk to the predecessor on fuel = capacity, free_index — under so_remove_edge_ok: visited slots inside the arrays, walks end within capacity rounds, decremented counters stay i64), C05_db_remove_isolated_node_graph_preserves_stored_db (GraphImpl::remove_node for a node WITHOUT edges; the cascade over its edges is modelled but not proved), non-vacuity C05_db_sample_remove_edge; C05_db_query_remove_edge_preserves_stored_db: the PUBLIC removal of an edge (so_q_remove = DbImpl::remove_id on an edge id inside transaction_mut's storage transaction: graph.remove_edge + remove_all_values = DbKeyValues::remove — the element's vector and every out-of-line record of its pairs freed, the slot vector popped when it was the last slot, else the slot set to 0; keys not indexed; the element has a property vector: so_slot_valid, a condition on the file that every element inserted through the public API satisfies) keeps the database stored and computes DbModel's remove_all_values (remove_edge_db d e); C05_db_query_insert_node_preserves_stored_db / C05_db_query_insert_values_preserves_stored_db: the very programs the correspondence run (d) executes (so_q_insert_node, so_q_insert_values: the core operations as the public queries issue them inside one storage transaction) keep the database stored and compute the composition of DbModel's functions; C05_db_graph_side_condition_from_wf: so_graph_ok follows from C08's wf and capacity < 2^60 (so_edge_ok / so_remove_edge_ok are not linked to wf). C05_db_query_remove_isolated_node_preserves_stored_db: the same for the public removal of a NODE without edges and without alias (DbModel's remove_node_db d n None succeeds and the final store holds remove_all_values of its result). The removal of a node's alias and the cascade over its edges are not covered. Of the side conditions only so_graph_ok is proved of every well-formed graph; the others are stated explicitly. MISSING LINK for the rest (named in Props/C05.v, not proved): C05_db_operations_preserve_stored_db — that each DbImpl mutation (db.rs over graph.rs / multi_map.rs / db_key_value.rs / db_index.rs "
               "on the storage) leaves a storage state representing the DbModel result, i.e. that stored_db holds after every history of queries — open for insert_alias / insert_new_alias / remove_alias (multi_map.rs over the alias tables: needs C19's PInv in the relation), insert_index / remove_index and every index update for an indexed key, DbImpl's remove_edge / remove_node beyond the graph part (cascade over a node's edges, properties, alias), remove_keys / remove_all_values, transactions + undo, shrink_to_fit; checked on every run by correspondence (c) and (d) below. Its SHAPE is carried out for one component: "
               "C05_db_graph_histories_preserve_stored_db_partial — EVERY history of the GraphData interface (the interface graph.rs is written against) run on the graph of a stored database leaves a stored database whose graph arrays "
               "are the plain arrays' result and whose aliases, indexes and values are unchanged, the change confined to the database's footprint (from C05_graph_history, the pairwise distinct footprints and C05_db_footprint_live); "
               "C05_db_alias_lookups_by_probing — the link to C19: on stored alias tables satisfying the invariant C19 proves of every reachable table, for every hash function, the code's PROBING lookups (MapImpl::value) return exactly "
               "the model's alias lookups (the loader itself scans slots and needs no probe chain). "
               "L1: C05_storage_maintenance_partial — on every reachable storage state backup+open, drop+open of a committed file and optimize_storage preserve the map index -> bytes of live records exactly; "
               "C05_clean_reopen_identity. "
               "L2, vectors (FULL): C05_vec_history — for EVERY history of push / replace / remove / swap / resize / reserve / shrink_to_fit / value / iteration / len on a storage-backed vector, interleaved at will "
               "with reloads (the handle dropped and rebuilt by DbVec::from_storage, incl. its length check) and with optimize / drop+open / backup+open of the storage underneath, the observations are those of "
               "the plain list (reload and maintenance do nothing), the representation invariant holds (record = le64 len ++ slots ++ UNCONSTRAINED spare bytes, slot i represents element i, len <= capacity) "
               "and the history touches exactly its footprint (frame: no other record changes, none is leaked); generic in the element class (elem_law), proved for u64, i64, raw inline bytes, MapValueState, "
               "String (out-of-line records owned by the slots), DbValue (the 16-byte value index of C12: inline up to 15 bytes, else one owned record; from C12's theorems) and DbKeyValue (a pair of them); C05_vec_reload; C05_vec_remove_from_storage; C05_vec_history_on_storage_{u64,i64,string,dbvalue,dbkv} + C05_cwp_sound: the same statements hold of runs on the "
               "MODEL OF storage.rs (file-like and memory-like) from a fresh storage — nothing is assumed of the storage that C04 did not prove; non-vacuity examples by evaluation. "
               "L2, map data (FULL for the MapData interface): C05_map_history — EVERY history of set_state / set_key / set_value / set_len / resize / swap / shrink_to_fit / state / key / value / capacity / len of a "
               "storage-backed map (DbMapData: the index record + the three vectors, pairwise disjoint), with reloads (DbMapData::from_storage) and maintenance at will, yields the observations of the plain table; "
               "the reloaded interface stands for the same table, so the algorithms of multi_map.rs (written against that interface, no state of their own; OpenMap.v/C19 on ct_omap) compute the same; C05_map_reload; "
               "C05_map_history_on_storage_{u64,string} on the model of storage.rs. "
               "L2, graph data (FULL for the GraphData interface): C05_graph_history — EVERY history of set / get of from, to, from_meta, to_meta, grow, shrink_to_fit, capacity on GraphDataStorage (index record + four "
               "DbVec<i64>), with reloads and maintenance, yields the observations of the four plain arrays (the arrays of Graph.v/C08); C05_graph_history_on_storage from GraphDataStorage::new. "
               "L2, root record: C05_root_roundtrip_partial — DbStorageIndex stored at index 1 is what the next open reads (its own statement is about the record only; the assembly into one invariant of the whole database file is L3 above). "
               "Also pinned: C02_{vec,map,graph}_loads_partial (the loaders succeed and read back the content in every state satisfying the invariants, i.e. at every transaction boundary) and "
               "C06_{vec,map,graph}_variants_agree (file-like and memory-like storage give the same observations for every collection history); at L3: C02_db_loads_partial (in every state satisfying stored_db the WHOLE database loads) and C06_db_variants_agree_partial (a file-like and a memory-like storage holding the same database load to databases equal up to sd_eqv). "
               "NOT proved: the simulation of db.rs's mutations (the missing link above), the algorithms of multi_map.rs / graph.rs over the storage-backed interfaces (C19 / C08 prove them on the plain table / arrays), and the "
               "u64-overflow behaviour of vec.rs' own arithmetic (modelled in N; bounded by the record size which the storage keeps below 2^64). "
               "Checked on every run: (a) collection correspondence — generated histories (vectors of u64 / i64 / String / DbValue / DbKeyValue, DbMapData<u64,u64> and <String,u64>, GraphDataStorage; reload / optimize / reopen / backup+open "
               "at random points) on MemoryStorage, FileStorage and FileStorageMemoryMapped through hook H4; after EVERY step the observation, the handle (index, len, capacity) and EVERY live record of the storage with "
               "its raw bytes are compared EXACTLY with the extracted model (spare-capacity bytes and indexes of out-of-line records included); independently a shadow list / table / multimap in the harness is the direct "
               "oracle on the implementation (reads agree; content read through a reloaded handle equals the content before), also for the whole MultiMapStorage<u64,u64>; skipped with a note when hook H4 "
               "(fixes/H4-dbvec-wrapper.diff) is not in the tree under test; (b) each of {drop+reopen, optimize_storage, shrink_to_fit, backup+open, copy, rename, reopen with another file-backed variant} applied at "
               "random points (and at the end) of generated query histories on DbFile, Db, DbAny(file), DbAny(mapped): full ORDERED dump and a battery of 12 searches identical before and after, the history continues "
               "side by side with the in-memory database and the extracted database model; (c) stored database: generated histories through the public API on a DbFile (transactions with injected failures, maintenance "
               "inside the history); the closed file, the optimized file and a backup are read RAW with the storage layer only (VStorage<FileStorage>: index -> bytes of every live record) and given to the extracted load_db; "
               "the full ordered dump of the loaded model database must equal, as a line, the dump of the same file reopened as a real database (class stored-db-mismatch), which must equal the dump before the drop "
               "(stored-reopen-differs); (d) core mutations as storage programs (hx_core ops, extract/m_ops.ml): on real database files after generated histories (removals included, so the free list is non-empty; some with an index on an unused key), the file IMAGE is opened by the extracted storage model (its live records must equal the raw records of the real file: stored-ops-open-mismatch), the extracted programs so_open 1 ;; so_q_insert_node / so_q_insert_values / so_q_insert_edge / so_q_remove (remove ids: an edge — head or not of its two lists — or a node without edges and alias; the element's property vector and out-of-line records freed) (the core operations as the public queries insert nodes values / insert values ids / insert edges issue them inside transaction_mut's storage transaction) are run on it, and the resulting record map index -> bytes must equal EXACTLY (record indexes in allocation order, spare-capacity bytes, out-of-line value records, returned id; nothing normalised) the raw records of the real file after the real database, reopened from that file, executed the same query (stored-ops-mismatch). The *_guarded theorems state the L1 results for the recovery with the position check of apply_wal_record (model recover_g, fix 826414a): "
               "on logs the storage wrote the check never fires (C01_guarded_recovery_agrees). "
               "LINK OF THE STORAGE PROGRAMS TO THE VALIDATED QUERY SEMANTICS (theories/StoredDbOpsLink*.v): for the query shapes the correspondence (d) executes — InsertNodes 1 (Single l) [] (Ids []), InsertValues (Ids [QId id]) (Single l), InsertEdges (Ids [QId f]) (Ids [QId t]) (Single []) false (Ids []), Remove (Ids [QId id]) — Queries.exec_mut_step is exactly the composition of DbModel functions the so_q_* theorems mention (C05_db_exec_step_shapes, every revision), a successful exec = step + commit (C05_db_exec_commits), and the programs end in a store HOLDING fst (exec rv d q) and return the id / count snd (exec rv d q) reports: C05_db_exec_insert_node / _insert_values / _insert_edge / _remove_edge / _remove_isolated_node _preserves_stored_db (full for these shapes), with C05_db_query_insert_edge_preserves_stored_db (so_q_insert_edge, invalid endpoint included) and C05_db_exec_insert_edge_rejected_preserves_stored_db (an endpoint that is not a node, database at rest: exec fails and returns d, the program returns None and writes nothing — the rejected insertions of the correspondence; covered in the histories too, C05_db_sample_covered_rejected). The graph side conditions are no longer assumed: so_edge_ok, so_remove_edge_ok and the index bounds follow from C08's wf + capacity < 2^60 (C05_db_edge_side_conditions_from_wf, with C05_db_graph_side_condition_from_wf). C05_db_covered_query_preserves_stored_db: wf (gr d) + so_covered d c (capacity < 2^60, ids existing, keys not indexed, valid values, vectors < 2^64 bytes; a removed element has at least one property — so that its property vector is provably allocated) suffice. C05_db_covered_histories_preserve_stored_db_partial: every list of covered queries from a stored database satisfying HInv (Inv, db_ok, empty undo stack: C13_history_invariant) — the programs in sequence end in a store holding the fold of exec rv_fixed (C05_db_covered_model_is_exec_fold), return exec's ids, HInv again; PARTIAL: aliases, indexes, cascading removals, removal of an element without properties, multi-element queries, failing queries (rollback), multi-query transactions, remove values are not covered. so_covered is decidable (C05_db_covered_decidable: the boolean so_coveredb); the same on the model of storage.rs for both kinds of back-end: C05_db_covered_histories_on_storage_partial; END TO END for covered histories: C05_db_covered_histories_then_reopen_partial — programs of the history, then optimize_storage / drop + open / backup + open, then load_db: the loaded database is the fold of exec up to sd_eqv and answers every sd_query_ok query exactly as it does. WITHOUT THE PROPERTY RESTRICTION (theories/StoredDbOpsLinkKv/Slots/Hist2/Final2.v): slots_ok d w — every existing element's slot of the DbKeyValues slot vector is allocated, an invariant of (database, witness) true of every file the real database writes — is preserved by every covered query (the kv / query programs re-proved with the slot vector visible; the set of elements changes by exactly the created / removed element, from C08's simulation): C05_db_covered2_query_preserves_stored_db, C05_db_covered2_histories_preserve_stored_db_partial, C05_db_covered2_histories_on_storage_partial, C05_db_covered2_histories_then_reopen_partial (so_covered2: a removal needs no property; decidable: C05_db_covered2_decidable; non-vacuity C05_db_sample_covered2_history: a replayed run on the sample file establishes slots_ok, then [insert edge; remove that property-less edge] is covered). Non-vacuity: C05_db_sample_covered, C05_db_sample_covered_history (the example database is reached by four public queries from db_new, hence HInv; it is stored; a two-query covered history).",
    design_ref="DESIGN.md §5 C05",
    level_note="Trusted: Coq kernel, extraction, OCaml driver, Rust harness (its generators and shadow structures), hook H4 (delegating wrappers, add-only, cfg(agdb_verif)). The storage model is tied to storage.rs by "
               "the C04 correspondence, the collection model to vec.rs / map.rs / graph.rs by the exact byte-level correspondence of this check, the loader load_db to DbImpl::new + complete reads by correspondence (c) on real files, the core-mutation programs of StoredDbOps.v to db.rs / graph.rs / db_key_value.rs by correspondence (d) (exact record bytes). DbMemory 'reopen' = backup to a file + open.",
)

WRAPPER = "vdbvec!(VDbVecU64"         # hook H4 (fixes/H4-dbvec-wrapper.diff) in agdb/src/verif.rs


def wrapper_present():
    p = os.path.join(vlib.REPO, "agdb", "src", "verif.rs")
    return os.path.exists(p) and WRAPPER in open(p, errors="replace").read()


def run_coll(ctx):
    """collection-layer correspondence (needs hook H4): exact comparison of observations, handles and all live record bytes"""
    exe, dlog = vlib.build_driver()
    if exe is None:
        raise RuntimeError("driver build failed: " + dlog)
    tdir, blog = vlib.cargo_build("hx_core", "release", features=["h4_dbvec"])
    if tdir is None:
        raise RuntimeError("harness build (feature h4_dbvec) failed: " + blog)
    w = os.path.join(ctx.workdir, "coll")
    os.makedirs(w, exist_ok=True)
    n, steps = (120, 70) if ctx.tier == "quick" else (1600, 120)
    rc, out = vlib.sh([os.path.join(tdir, "hx_core"), "coll", "--seed", str(ctx.seed), "--n", str(n), "--steps", str(steps), "--out", w], timeout=6000)
    if rc != 0:
        raise RuntimeError("coll harness failed: " + out[-2000:])
    rc, err = run_driver(exe, os.path.join(w, "cases.txt"), os.path.join(w, "model.txt"), timeout=6000)
    cases, model, impl = (read_lines(os.path.join(w, f)) for f in ("cases.txt", "model.txt", "impl.txt"))
    dis = diff_lines(cases, model, impl, limit=8)
    for d in dis:
        try:
            k = int(d["what"].split()[1])
            start = max(i for i in range(k + 1) if cases[i].startswith("coll new"))
            d["history"] = " ; ".join(c[len("coll "):] for c in cases[start:k + 1])[:6000]
            d["what"] = "collection correspondence, " + d["what"]
        except Exception:
            pass
    for i, m in enumerate(model):
        if m.startswith("ERROR"):
            dis.append(dict(what="collection correspondence, case %d: the model driver failed" % i, case=cases[i][:2000], model=m[:2000], impl=impl[i][:2000] if i < len(impl) else ""))
            break
    failures = [dict(cls=l.split(" ")[0], what=l[:6000]) for l in read_lines(os.path.join(w, "oracle.txt"))]
    dist, ev, nt, samples = merge_stats([os.path.join(w, "stats.json")])
    return dict(steps=ev, lines=len(cases), disagreements=dis, failures=failures, dist=dist, nontrivial=nt, samples=samples, histories=dist.get("histories", 0))


def vstorage_present():
    p = os.path.join(vlib.REPO, "agdb", "src", "verif.rs")
    return os.path.exists(p) and "pub struct VStorage" in open(p, errors="replace").read()


def run_stored(ctx):
    """database level (L3): the extracted load_db on the raw records of REAL database files vs the reopened real database"""
    exe, dlog = vlib.build_driver()
    if exe is None:
        raise RuntimeError("driver build failed: " + dlog)
    tdir, blog = vlib.cargo_build("hx_core", "release", features=["h4_dbvec"] if wrapper_present() else None)
    if tdir is None:
        raise RuntimeError("harness build failed: " + blog)
    w = os.path.join(ctx.workdir, "stored")
    os.makedirs(w, exist_ok=True)
    n, steps = (48, 40) if ctx.tier == "quick" else (1500, 60)
    rc, out = vlib.sh([os.path.join(tdir, "hx_core"), "stored", "--seed", str(ctx.seed + 505), "--n", str(n), "--steps", str(steps), "--out", w], timeout=6000)
    if rc != 0:
        raise RuntimeError("stored harness failed: " + out[-2000:])
    rc, err = run_driver(exe, os.path.join(w, "cases.txt"), os.path.join(w, "model.txt"), timeout=6000)
    cases, model, impl, hist = (read_lines(os.path.join(w, f)) for f in ("cases.txt", "model.txt", "impl.txt", "hist.txt"))
    dis = []
    for i, c in enumerate(cases):
        m = model[i] if i < len(model) else "<missing>"
        x = impl[i] if i < len(impl) else "<missing>"
        if m != x and len(dis) < 8:
            dis.append(dict(what="stored database, case %d: load_db on the raw records of the file differs from the reopened database (%s)"
                                 % (i, hist[i][:4000] if i < len(hist) else ""),
                            case=c[:3000], model=m[:6000], impl=x[:6000], history=hist[i][:6000] if i < len(hist) else ""))
    failures = [dict(cls=l.split(" ")[0], what=l[:6000]) for l in read_lines(os.path.join(w, "oracle.txt"))]
    # a loader disagreement on a real file is a failure of the property's proof chain with a concrete input
    failures += [dict(cls="stored-db-mismatch", what=(d["what"] + " model=" + d["model"] + " impl=" + d["impl"])[:6000]) for d in dis]
    dist, ev, nt, samples = merge_stats([os.path.join(w, "stats.json")])
    return dict(cases=len(cases), disagreements=dis, failures=failures, dist=dist, nontrivial=nt, samples=samples,
                histories=dist.get("histories", 0), records=dist.get("records", 0))


def _ops_parts(line):
    """pre=[i:bytes ...] ret=<...> post=[i:bytes ...]  ->  (pre map, ret, post map) or None"""
    try:
        a = line.index("pre=[") + 5
        b = line.index("] ret=", a)
        c = line.index(" post=[", b)
        pre = dict(x.split(":", 1) for x in line[a:b].split())
        post = dict(x.split(":", 1) for x in line[c + 7:line.rindex("]")].split())
        return pre, line[b + 6:c], post
    except ValueError:
        return None


def _ops_map_diff(m, x, limit=6):
    out = []
    for k in sorted(set(m) | set(x), key=lambda h: int(h, 16)):
        if m.get(k) != x.get(k):
            out.append("record %s: model=%s impl=%s" % (k, m.get(k, "<absent>"), x.get(k, "<absent>")))
    return "; ".join(out[:limit]) + (" ; ... %d records differ" % len(out) if len(out) > limit else "")


def run_ops(ctx):
    """database level (L3): the core mutations as storage programs (StoredDbOps.v: so_open ;; so_q_insert_node / so_q_insert_values /
    so_q_insert_edge / so_q_remove, run by cp_run on the extracted model of storage.rs opened on the IMAGE of a real file) vs the raw records of
    the real file after the same query of the public API"""
    exe, dlog = vlib.build_driver()
    if exe is None:
        raise RuntimeError("driver build failed: " + dlog)
    tdir, blog = vlib.cargo_build("hx_core", "release", features=["h4_dbvec"] if wrapper_present() else None)
    if tdir is None:
        raise RuntimeError("harness build failed: " + blog)
    w = os.path.join(ctx.workdir, "ops")
    os.makedirs(w, exist_ok=True)
    n, steps = (150, 25) if ctx.tier == "quick" else (2500, 40)
    rc, out = vlib.sh([os.path.join(tdir, "hx_core"), "ops", "--seed", str(ctx.seed + 606), "--n", str(n), "--steps", str(steps), "--out", w], timeout=6000)
    if rc != 0:
        raise RuntimeError("ops harness failed: " + out[-2000:])
    rc, err = run_driver(exe, os.path.join(w, "cases.txt"), os.path.join(w, "model.txt"), timeout=6000)
    cases, model, impl, hist = (read_lines(os.path.join(w, f)) for f in ("cases.txt", "model.txt", "impl.txt", "hist.txt"))
    dis = []
    mismatches = 0
    for i, c in enumerate(cases):
        m = model[i] if i < len(model) else "<missing>"
        x = impl[i] if i < len(impl) else "<missing>"
        if m == x:
            continue
        mismatches += 1
        if len(dis) >= 8:
            continue
        h = hist[i] if i < len(hist) else ""
        pm, px = _ops_parts(m), _ops_parts(x)
        if pm is None or px is None:
            cls, detail = ("stored-ops-open-mismatch", "the storage model could not open the file image") if m == "open-failed" else ("stored-ops-mismatch", "model line: " + m[:300])
        elif pm[0] != px[0]:
            cls, detail = "stored-ops-open-mismatch", "live records of the storage model after opening the file image differ from the raw records of the real file: " + _ops_map_diff(pm[0], px[0])
        else:
            cls = "stored-ops-mismatch"
            detail = ("result: model=%s impl=%s; " % (pm[1], px[1]) if pm[1] != px[1] else "result %s agrees; " % pm[1]) + "records after the operation: " + (_ops_map_diff(pm[2], px[2]) or "equal")
        dis.append(dict(what="stored-database operation, case %d: the storage program of StoredDbOps.v on the image of the real file differs from what the real query wrote: %s (operation %s)"
                             % (i, detail[:3000], h[:3000]),
                        case=c[:3000], model=m[:6000], impl=x[:6000], history=h[:6000], cls=cls))
    failures = [dict(cls=l.split(" ")[0], what=l[:6000]) for l in read_lines(os.path.join(w, "oracle.txt"))]
    # a disagreement of the storage programs with a real file is a failure of the property's proof chain with a concrete input
    failures += [dict(cls=d["cls"], what=d["what"][:6000]) for d in dis]
    dist, ev, nt, samples = merge_stats([os.path.join(w, "stats.json")])
    dist["lines-identical"] = len(cases) - mismatches
    return dict(cases=len(cases), disagreements=dis, failures=failures, dist=dist, nontrivial=nt, samples=samples, mismatches=mismatches,
                histories=dist.get("histories", 0), records=dist.get("records", 0), file_bytes=dist.get("file_bytes", 0))


def run(ctx):
    notes = []
    co = None
    if wrapper_present():
        co = run_coll(ctx)
    else:
        notes.append("collection-layer correspondence (Collections.v against DbVec / DbMapData / GraphDataStorage, exact record bytes) SKIPPED: hook H4 "
                     "(agdb::verif::VDbVecU64 & co., fixes/H4-dbvec-wrapper.diff) is not in %s; only the part that needs no hook ran "
                     "(maintenance operations on generated query histories through the public Db API)" % vlib.REPO)
    sto = None
    if vstorage_present():
        sto = run_stored(ctx)
    else:
        notes.append("database-level correspondence (extracted load_db on the raw records of real files) SKIPPED: agdb::verif::VStorage is not in %s" % vlib.REPO)
    ops = None
    if vstorage_present():
        ops = run_ops(ctx)
    else:
        notes.append("stored-database operations (StoredDbOps.v programs on the image of real files) SKIPPED: agdb::verif::VStorage is not in %s" % vlib.REPO)
    n, steps = (50, 30) if ctx.tier == "quick" else (1200, 60)
    r = run_db(ctx, "all", n, steps, variants="file,mapped,any_file,any_mapped", maintenance=True)
    # index-heavy histories as well: several indexes created and removed in varying order before the maintenance operation
    # (the order of the persisted index list vs the in-memory one only shows with >= 3 indexes and a removal in the middle)
    ri = run_db(ctx, "index", n, steps + 10, variants="file,mapped,any_file,any_mapped", maintenance=True, sub="db_index", seed_off=4242)
    r = dict(r)
    for k in ("failures", "disagreements", "samples"):
        r[k] = r[k] + ri[k]
    for k in ("cases", "histories", "nontrivial"):
        r[k] = r[k] + ri[k]
    r["dist"] = dict(r["dist"]); r["dist"].update({"index:" + k: v for k, v in ri["dist"].items()})
    failures = [f for f in r["failures"] if f["cls"].startswith(("maintenance-", "variant-")) or f["cls"] in ("panic", "read-error")]
    failures += [f for f in spec_level(r) if f["cls"] == "model-mismatch"]
    disagreements = list(r["disagreements"])
    evaluations, nontrivial, samples, dist = r["cases"], r["nontrivial"], r["samples"], dict(r["dist"])
    rule = ("%d generated query histories (profiles all and index, <= %d steps) executed on DbMemory and side by side on DbFile, Db, DbAny(file), DbAny(mapped); with probability 1/12 per step and at the end each "
            "file-backed database undergoes one random maintenance operation (reopen, optimize, shrink, backup_open, copy, rename, switch variant) with ordered dump + search battery compared before/after "
            "(maintenance-differs / maintenance-error), then the history continues on it; non-trivial = history with at least one maintenance operation" % (r["histories"], steps))
    if co is not None:
        failures = co["failures"] + failures
        disagreements = co["disagreements"] + disagreements
        evaluations += co["steps"]
        nontrivial += co["nontrivial"]
        samples = co["samples"][:3] + samples[:3]
        dist.update({"coll:" + k: v for k, v in co["dist"].items()})
        rule = ("collection layer: %d histories (the same generated history on MemoryStorage, FileStorage, FileStorageMemoryMapped; kinds: DbVec<u64>, DbVec<i64>, DbVec<String>, DbVec<DbValue>, DbVec<DbKeyValue>, DbMapData<u64,u64>, "
                "DbMapData<String,u64>, GraphDataStorage, MultiMapStorage<u64,u64>), %d steps; 14%% of the steps are a reload (handle rebuilt by from_storage) or a maintenance operation of the storage "
                "(optimize, drop+open, backup+open); after EVERY step observation + handle + every live record's bytes equal the extracted model's line (%d lines compared; MultiMapStorage: shadow "
                "oracle only); non-trivial = history with a reload, a maintenance operation and growth/removal. Database level: " % (co["histories"], co["steps"], co["lines"])) + rule
        notes.append("collection correspondence: %d steps on %d histories, %d lines compared exactly, %d disagreements, %d oracle failures"
                     % (co["steps"], co["histories"], co["lines"], len(co["disagreements"]), len(co["failures"])))
    if sto is not None:
        failures = sto["failures"] + failures
        disagreements = sto["disagreements"] + disagreements
        evaluations += sto["cases"]
        nontrivial += sto["nontrivial"]
        samples = sto["samples"][:2] + samples
        dist.update({"stored:" + k: v for k, v in sto["dist"].items()})
        rule = ("stored database (L3): %d generated histories of mutating queries and transactions (some with an injected failure; optimize_storage / shrink_to_fit / drop+reopen at random "
                "points) through the public API on a DbFile; for the closed file, the file after optimize_storage and a backup of it: every live record read RAW through the storage layer only "
                "(VStorage<FileStorage>, %d records in all) is given to the extracted load_db with root index 1, and the full ORDERED dump of the model database it returns (graph elements, "
                "adjacency, degree counters, property lists in stored order, aliases, indexes with ids per value) must equal, as a line, the dump of the same file reopened as a database "
                "(%d cases); direct oracle: the reopened database dumps like the database before it was dropped; non-trivial = the final database has nodes, edges, aliases and indexes. "
                % (sto["histories"], sto["records"], sto["cases"])) + rule
        notes.append("stored-database correspondence: %d files loaded by the extracted load_db, %d disagreements, %d oracle failures"
                     % (sto["cases"], len(sto["disagreements"]), len([f for f in sto["failures"] if f["cls"] != "stored-db-mismatch"])))
    if ops is not None:
        failures = ops["failures"] + failures
        disagreements = ops["disagreements"] + disagreements
        evaluations += ops["cases"]
        nontrivial += ops["nontrivial"]
        samples = ops["samples"][:2] + samples
        dist.update({"ops:" + k: v for k, v in ops["dist"].items()})
        d = ops["dist"]
        rule = ("stored-database operations (L3, the core mutations as storage programs): %d generated histories of mutating queries and transactions through the public API on a DbFile (removals, so that the "
                "graph's free list is non-empty in part of the cases; optimize_storage / shrink_to_fit / drop+reopen at random points; no index on any key the case uses), the database dropped; then 1-3 chained "
                "cases per file (%d cases: %d insert-node, %d insert-values, %d insert-edge, %d remove): PRE = the bytes of the closed file; the file is reopened as a real database (DbFile::new, handles rebuilt by "
                "from_storage), ONE query of the public API runs — QueryBuilder::insert().nodes().values([l]) / insert().values([l]).ids(existing id) / insert().edges().from(f).to(t) (1 in 10 with an endpoint that is not a node: the query must fail where the program answers None, and no record may change) / remove().ids(id) where id is an existing EDGE (half of the histories end with a fan of edges, so the edge is often not the head of its source's out-list / its target's in-list and the code walks to the predecessor) or an existing NODE without outgoing / incoming edges and without alias (the restrictions of so_q_remove: no cascade, no alias table access), with or without properties (out-of-line records must be freed), l = 0-4 pairs with inline "
                "and out-of-line keys and values — and the database is dropped; POST = every live record read RAW through the storage layer only (VStorage<FileStorage>, %d records in all). The extracted "
                "model of storage.rs OPENS THE FILE IMAGE (Storage.with_data on the %d file bytes, as FileStorage::new does), its live records must equal the raw records of the real file before the "
                "operation (class stored-ops-open-mismatch), then cp_run (st_step ops_file) executes `h <~ so_open 1 ;; so_q_insert_node h l | so_q_insert_values h id l | so_q_insert_edge h f t | so_q_remove h id` of "
                "StoredDbOps.v and the line `every live record index:bytes before, returned id, every live record index:bytes after` must be IDENTICAL to the implementation's (EXACT comparison: record "
                "indexes in allocation order, spare-capacity bytes of every vector record, out-of-line value records, the returned node / edge id; nothing is normalised; class stored-ops-mismatch); "
                "non-trivial = a case that pops the free list, writes an out-of-line value, replaces an existing pair, inserts an edge or removes an element. "
                % (ops["histories"], ops["cases"], d.get("kind:insert_node", 0), d.get("kind:insert_values", 0), d.get("kind:insert_edge", 0), d.get("kind:remove", 0), ops["records"], ops["file_bytes"])) + rule
        notes.append("stored-database operations: %d cases (insert-node %d: %d new slot / %d free-list pop; insert-edge %d: %d new slot / %d free-list pop / %d rejected because an endpoint is not a node; insert-values %d: %d pairs replaced, %d pairs appended, "
                     "%d on an element without properties; remove %d: %d edges (%d not the head of the source's out-list, %d not the head of the target's in-list) / %d nodes without edges and alias, %d elements with properties, %d out-of-line keys/values freed; %d out-of-line keys/values written), %d lines identical to the model's byte for byte, %d disagreements, %d oracle failures"
                     % (ops["cases"], d.get("kind:insert_node", 0), d.get("insert_node:new-slot(grow)", 0), d.get("insert_node:free-list-pop", 0),
                        d.get("kind:insert_edge", 0), d.get("insert_edge:new-slot(grow)", 0), d.get("insert_edge:free-list-pop", 0), d.get("insert_edge:endpoint-not-a-node", 0),
                        d.get("kind:insert_values", 0), d.get("insert_values:pairs-replaced(replace branch)", 0), d.get("insert_values:pairs-appended(push branch)", 0),
                        d.get("insert_values:element-without-properties", 0),
                        d.get("kind:remove", 0), d.get("remove:target=edge", 0), d.get("remove:edge:NOT-head-of-the-source's-out-list(walk)", 0), d.get("remove:edge:NOT-head-of-the-target's-in-list(walk)", 0),
                        d.get("remove:target=node-without-edges-and-alias", 0), d.get("remove:element-with-properties", 0), d.get("remove:out-of-line keys/values freed (estimated)", 0),
                        d.get("out-of-line keys/values written (estimated)", 0),
                        ops["cases"] - ops["mismatches"], ops["mismatches"],
                        len([f for f in ops["failures"] if not f["cls"].startswith("stored-ops-")])))
    return dict(
        evaluations=evaluations, distinct_nontrivial=nontrivial, samples=samples, dist=dist, rule=rule,
        failures=failures, disagreements=disagreements,
        assumptions=["insert lists have distinct keys",
                     "the payload 8 + size * len of a vector stays below 2^64 (it is bounded by the record size)"],
        trusted_extra=["harness shadow list / table / multimap (collrun.rs) as the independent statement of the collection semantics"],
        notes=notes,
    )
