# C05 — reopening and maintenance operations preserve the database
import vlib
from checks.db_common import run_db, spec_level

META = dict(
    engine="coq+hx_core",
    technique="Coq proof that reopen / backup+open / optimize preserve the storage layer's record map exactly (on the model of storage.rs proved to refine the abstract map, C04) + maintenance operations executed at random points of generated histories with ordered full dumps before/after",
    level_text="PARTIAL. Machine-checked: C05_storage_maintenance_partial — on every reachable storage state backup+open, drop+open of a committed file and optimize_storage preserve the map index -> bytes of live records "
               "exactly (optimize only drops free regions); C05_clean_reopen_identity — recovery of a cleanly closed file is the identity on its bytes. Not proved: that equal records give equal query results through the "
               "collection layers (vectors with cached length/capacity, maps, graph, indexes). Checked on every run: each of {drop+reopen, optimize_storage, shrink_to_fit, backup+open, copy, rename, reopen with another "
               "file-backed variant} is applied at random points (and at the end) of generated histories on DbFile, Db, DbAny(file) and DbAny(mapped); the full ORDERED dump (ids, endpoints, adjacency order, ordered "
               "properties, aliases, indexes with contents, node count) and a fixed battery of 12 searches (result order included) must be identical before and after, and the history continues on the maintained database "
               "side by side with the in-memory one and the extracted model. The *_guarded theorems state the same for the recovery with the position check of apply_wal_record (model recover_g, fixes/C07-wal-position.diff): on these logs the check never fires (C01_guarded_recovery_agrees), so the statements hold for a tree with or without it.",
    design_ref="DESIGN.md §5 C05",
    level_note="Trusted: Coq kernel, extraction, OCaml driver, Rust harness. The storage model is tied to storage.rs by the C04 correspondence. DbMemory 'reopen' = backup to a file + open.",
)


def run(ctx):
    n, steps = (50, 30) if ctx.tier == "quick" else (1200, 60)
    r = run_db(ctx, "all", n, steps, variants="file,mapped,any_file,any_mapped", maintenance=True)
    failures = [f for f in r["failures"] if f["cls"].startswith(("maintenance-", "variant-")) or f["cls"] in ("panic", "read-error")]
    failures += [f for f in spec_level(r) if f["cls"] == "model-mismatch"]
    return dict(
        evaluations=r["cases"], distinct_nontrivial=r["nontrivial"], samples=r["samples"], dist=r["dist"],
        rule="%d generated query histories (profile all, <= %d steps) executed on DbMemory and side by side on DbFile, Db, DbAny(file), DbAny(mapped); with probability 1/12 per step and at the end each "
             "file-backed database undergoes one random maintenance operation (reopen, optimize, shrink, backup_open, copy, rename, switch variant) with ordered dump + search battery compared before/after "
             "(maintenance-differs / maintenance-error), then the history continues on it; non-trivial = history with at least one maintenance operation" % (r["histories"], steps),
        failures=failures, disagreements=r["disagreements"],
        assumptions=["insert lists have distinct keys"],
    )
